"""Structural model of ``Engine.run_for`` and friends shared by several
properties: the scheduler loop, the polling loop, the take loop, the three
advance branches, and the *front entry* slot family (Appendix A.3)."""

import ast

from . import astutil as A
from .cfg import cfg_of, within
from .dataflow import local_defs, reaching
from .loader import AnalysisError


def parse_expr(text):
    return ast.parse(text, mode='eval').body


# ------------------------------------------------------------ front entries
class FrontModel:
    """Recognises expressions denoting a front entry inside one function."""

    def __init__(self, fi, front_attr='front'):
        self.fi = fi
        self.fnode = fi.node
        self.front_attr = front_attr
        self.defs = local_defs(self.fnode)

    def is_front(self, e):
        return A.is_self_attr(e, self.front_attr)

    def entry_key(self, e, depth=3):
        """If ``e`` denotes a front entry return a printable key for it
        ('path', 'quiet', '<item of self.front>'), else None."""
        if isinstance(e, ast.Subscript) and self.is_front(e.value):
            return A.unparse(e.slice)
        if isinstance(e, ast.Name) and depth > 0:
            for d in self.defs.get(e.id, []):
                if d.kind == 'assign' and d.value is not None:
                    k = self.entry_key(d.value, depth - 1)
                    if k is not None:
                        return k
                if d.kind == 'for':
                    it = d.value
                    tgt = d.stmt.target
                    if isinstance(it, ast.Call) and isinstance(
                            it.func, ast.Attribute) and self.is_front(
                                it.func.value):
                        if it.func.attr == 'values' and A.is_name(tgt, e.id):
                            return '<value of self.front>'
                        if it.func.attr == 'items' and isinstance(
                                tgt, ast.Tuple) and len(tgt.elts) == 2 and \
                                A.is_name(tgt.elts[1], e.id):
                            return A.unparse(tgt.elts[0])
        return None

    def slot(self, e):
        """('time'|'update', entry key) when ``e`` is a slot access."""
        if isinstance(e, ast.Subscript):
            k = A.subscript_key(e)
            if k in ('time', 'update'):
                ek = self.entry_key(e.value)
                if ek is not None:
                    return k, ek
        return None

    def slot_reads(self, node, which):
        out = []
        for n in ast.walk(node):
            if isinstance(n, ast.Subscript) and isinstance(n.ctx, ast.Load):
                s = self.slot(n)
                if s and s[0] == which:
                    out.append((n, s[1]))
        return out

    def slot_writes(self, which):
        """[(stmt, target, value, entry key)] for stores into the slot."""
        out = []
        for n in A.walk_no_nested(self.fnode):
            if isinstance(n, ast.Assign):
                for t in n.targets:
                    s = self.slot(t) if isinstance(t, ast.Subscript) else None
                    if s and s[0] == which:
                        out.append((n, t, n.value, s[1]))
            elif isinstance(n, ast.AugAssign):
                s = self.slot(n.target) if isinstance(
                    n.target, ast.Subscript) else None
                if s and s[0] == which:
                    out.append((n, n.target, n, s[1]))
        return out

    def entry_literal_writes(self):
        """Stores of a whole entry: ``self.front[k] = <value>``."""
        out = []
        for n in A.walk_no_nested(self.fnode):
            if isinstance(n, ast.Assign):
                for t in n.targets:
                    if isinstance(t, ast.Subscript) and self.is_front(
                            t.value):
                        out.append((n, t, n.value))
        return out


# --------------------------------------------------------------- run_for
class RunFor:
    """Locates the pieces of Engine.run_for.  Raises AnalysisError when the
    anchors (the scheduler loop, the polling loop) cannot be found."""

    def __init__(self, ck):
        self.ck = ck
        self.fi = ck.fn('Engine.run_for', 'core.engine')
        self.fnode = self.fi.node
        self.cfg = cfg_of(self.fnode)
        self.front = FrontModel(self.fi)
        self.while_loop = None
        for n in A.walk_no_nested(self.fnode):
            if isinstance(n, ast.While) and any(
                    'global_time' in A.unparse(x) for x in [n.test]):
                self.while_loop = n
                break
        if self.while_loop is None:
            raise AnalysisError(
                'anchor vanished: scheduler while-loop over global_time in '
                'Engine.run_for')
        self.poll_loop = None
        self.take_loops = []
        for n in A.walk_no_nested(self.while_loop):
            if isinstance(n, ast.For):
                it = A.unparse(n.iter)
                if 'self.process_paths' in it and self.poll_loop is None:
                    self.poll_loop = n
                elif 'self.front' in it:
                    self.take_loops.append(n)
        if self.poll_loop is None:
            raise AnalysisError(
                'anchor vanished: polling loop over self.process_paths in '
                'Engine.run_for')

    # names --------------------------------------------------------------
    @property
    def end_name(self):
        """The local that holds the end of the requested interval: the one
        assigned ``self.global_time + <interval parameter>`` before the
        scheduler loop ('end_time' when no such local is found)."""
        from .dataflow import local_defs
        ip = A.params_of(self.fnode)[1:2]
        for name, ds in local_defs(self.fnode).items():
            for d in ds:
                v = d.value
                if d.kind == 'assign' and isinstance(v, ast.BinOp) and \
                        isinstance(v.op, ast.Add) and not within(
                            d.stmt, self.while_loop) and {
                            A.unparse(v.left), A.unparse(v.right)} == {
                            'self.global_time', ip[0] if ip else ''}:
                    return name
        return 'end_time'

    @property
    def emit_names(self):
        """Locals that hold the emit clock: those assigned or advanced by an
        expression over self.emit_step."""
        from .dataflow import local_defs
        out = set()
        for name, ds in local_defs(self.fnode).items():
            for d in ds:
                v = d.stmt.value if d.kind == 'aug' else d.value
                if v is not None and d.kind in ('assign', 'aug') and \
                        'self.emit_step' in A.unparse(v):
                    out.add(name)
        # ... and copies of them (rounded or not)
        for _round in range(3):
            for name, ds in local_defs(self.fnode).items():
                for d in ds:
                    v = d.value
                    if d.kind != 'assign' or v is None:
                        continue
                    if isinstance(v, ast.Call) and A.call_name(
                            v) == 'round' and v.args:
                        v = v.args[0]
                    if isinstance(v, ast.Name) and v.id in out:
                        out.add(name)
        return out or {'emit_time'}

    def poll_targets(self):
        """(path var, process var) of the polling loop."""
        t = self.poll_loop.target
        if isinstance(t, ast.Tuple) and len(t.elts) == 2:
            return A.unparse(t.elts[0]), A.unparse(t.elts[1])
        return A.unparse(t), None

    def calls(self, name, inside=None):
        root = inside if inside is not None else self.fnode
        return [c for c in A.calls_in(root, name)]

    def node(self, x):
        return self.cfg.node(x)

    def guards(self, x):
        n = self.cfg.node(x)
        return self.cfg.guards(n) if n is not None else set()

    def in_poll(self, x):
        return within(x, self.poll_loop)

    def advance_stmts(self):
        """Statements assigning self.global_time inside the scheduler loop."""
        out = []
        for n in A.walk_no_nested(self.while_loop):
            if isinstance(n, (ast.Assign, ast.AugAssign)):
                for t in A.assigned_targets(n):
                    if A.is_self_attr(t, 'global_time'):
                        out.append(n)
        return out


def inline_helper_calls(ck, fi, call, max_depth=2):
    """If ``call`` is ``self.helper(args)`` of a method of the same class (or
    a module function), return (callee FuncInfo, {param: arg expr})."""
    name = A.call_name(call)
    callee = None
    if isinstance(call.func, ast.Attribute) and A.is_name(
            call.func.value, 'self') and fi.cls:
        callee = ck.repo.method(fi.cls, name)
        params = A.params_of(callee.node)[1:] if callee else []
    elif isinstance(call.func, ast.Name):
        mod = ck.repo.modules.get(fi.module)
        callee = mod.functions.get(name) if mod else None
        params = A.params_of(callee.node) if callee else []
    if callee is None:
        return None, {}
    binding = {}
    for p, a in zip(params, call.args):
        binding[p] = a
    for kw in call.keywords:
        if kw.arg:
            binding[kw.arg] = kw.value
    return callee, binding
