"""How far is a function from the form the rules were validated against?

For every function the canonical form (after helper inlining and the
canonical passes) is reduced to a multiset of *statement skeletons*: the text
of each simple statement / compound-statement header with every local name
replaced by ``_`` (attribute names, called names and constants stay).  The
skeletons of the pinned tree are stored in ``pinned_skeletons.json``
(``tools/gen_pinned_skeletons.py``); the distance of a function of the tree
under analysis is the size of the symmetric difference of the two multisets.
Renaming locals, re-ordering statements and everything the canonical passes
undo give distance 0; a one-line edit gives 1-2; splitting a function into a
pipeline of helpers, table-driven dispatch or recursion turned into iteration
give dozens."""
import ast
import json
from collections import Counter
from pathlib import Path

PINNED = Path(__file__).with_name('pinned_skeletons.json')
_cache = {}


class _Anon(ast.NodeTransformer):
    def __init__(self, keep):
        self.keep = keep

    def visit_Name(self, node):
        if node.id in self.keep:
            return node
        return ast.copy_location(ast.Name(id='_', ctx=node.ctx), node)

    def visit_arg(self, node):
        return node


def _globals_of(fn):
    """Names that are not locals of ``fn``: read but never bound."""
    bound, loads = set(), set()
    a = fn.args
    for x in a.args + a.kwonlyargs + a.posonlyargs:
        bound.add(x.arg)
    for n in ast.walk(fn):
        if isinstance(n, ast.Name):
            (loads if isinstance(n.ctx, ast.Load) else bound).add(n.id)
        elif isinstance(n, ast.arg):
            bound.add(n.arg)
    return (loads - bound) | {'self'}


def _clone(n, anon_keep):
    """Copy of an AST (fields only - no parent links), locals made `_`."""
    if isinstance(n, ast.Name):
        return ast.Name(id=n.id if n.id in anon_keep else '_', ctx=n.ctx)
    if isinstance(n, ast.Constant) and isinstance(n.value, str):
        # 'processes' / 'steps' / 'flow' ...: one statement per part is one
        # idea, not five
        return ast.Constant(value='s')
    if isinstance(n, ast.Attribute) and isinstance(n.value, ast.Name) and \
            n.value.id == 'self' and not isinstance(n.ctx, ast.Load):
        return ast.Attribute(value=ast.Name(id='self', ctx=ast.Load()),
                             attr='a', ctx=n.ctx)
    if isinstance(n, ast.AST):
        new = type(n)()
        for f in n._fields:
            setattr(new, f, _clone(getattr(n, f, None), anon_keep))
        return new
    if isinstance(n, list):
        return [_clone(x, anon_keep) for x in n]
    return n


def skeletons(fn):
    """Counter of statement skeletons of a function definition node."""
    keep = _globals_of(fn)
    anon = _Anon(keep)
    out = Counter()

    def head(st):
        if isinstance(st, ast.Try):
            return 'try:'
        new = type(st)()
        for f in st._fields:
            v = getattr(st, f, None)
            if f in ('body', 'orelse', 'finalbody', 'handlers') and \
                    isinstance(v, list):
                v = [ast.Pass()] if f == 'body' else []
            else:
                v = _clone(v, keep)
            setattr(new, f, v)
        return new

    def visit(body):
        for st in body:
            if isinstance(st, (ast.FunctionDef, ast.ClassDef,
                               ast.AsyncFunctionDef)):
                visit(st.body)
                continue
            if isinstance(st, ast.Expr) and isinstance(
                    st.value, ast.Constant) and isinstance(
                    st.value.value, str):
                continue
            if isinstance(st, ast.Pass):
                continue
            h = head(st)
            if isinstance(h, str):
                out[h] += 1
            else:
                try:
                    t = ast.unparse(ast.fix_missing_locations(h))
                except Exception:
                    t = type(st).__name__
                out[t.replace(':\n    pass', ':')] += 1
            for f in ('body', 'orelse', 'finalbody'):
                sub = getattr(st, f, None)
                if isinstance(sub, list) and sub and isinstance(
                        sub[0], ast.stmt):
                    visit(sub)
            for hd in getattr(st, 'handlers', []) or []:
                visit(hd.body)
    visit(fn.body)
    return out


def pinned():
    if 'p' not in _cache:
        _cache['p'] = json.loads(PINNED.read_text()) if PINNED.exists() \
            else {}
    return _cache['p']


def distance(fi):
    """(distance, size of the pinned form, exotic constructs) of a FuncInfo;
    None when the function is not in the pinned table (a new function)."""
    ref = pinned().get(fi.module + ':' + fi.qual)
    if ref is None:
        # moved between module level and a class
        short = fi.qual.split('.')[-1]
        cands = [k for k in pinned() if k.startswith(fi.module + ':') and
                 k.split(':')[1].split('.')[-1] == short]
        if len(cands) == 1:
            ref = pinned()[cands[0]]
    if ref is None:
        return None
    cur = set(skeletons(fi.node))
    refc = Counter(ref)
    # distinct skeletons that differ (statements repeated per part count
    # once)
    d = len(cur ^ set(refc))
    exotic = sorted({type(n).__name__ for n in ast.walk(fi.node)
                     if isinstance(n, (ast.Yield, ast.YieldFrom, ast.Match,
                                       ast.NamedExpr))})
    return d, len(set(refc)), exotic


# A function counts as rewritten wholesale when at least ABS of its canonical
# statements differ from the pinned form AND that is at least REL of its
# size (small functions change completely with a small edit: they are never
# gated below ABS).  Calibrated on the stored seeded changes (which must stay
# reported) and the stored refactorings (section 10.9 of DESIGN.md).
FUNCTIONAL = {'takewhile', 'dropwhile', 'reduce', 'chain', 'repeat',
              'accumulate', 'partial', 'starmap', 'groupby', 'islice',
              'zip_longest', 'itemgetter', 'attrgetter', 'methodcaller'}
ABS = 11
REL = 0.35


def _new_helpers_called(repo, fi):
    out = set()
    known = pinned()
    for n in ast.walk(fi.node):
        if not isinstance(n, ast.Call):
            continue
        f = n.func
        name = f.id if isinstance(f, ast.Name) else (
            f.attr if isinstance(f, ast.Attribute) and isinstance(
                f.value, ast.Name) else None)
        if not name or not name.startswith('_') or name.startswith('__'):
            continue
        for g in repo.functions:
            if g.name != name or g.module != fi.module or g.is_test or \
                    g.nested_in is not None or g is fi:
                continue
            if isinstance(f, ast.Attribute) and g.cls is None:
                continue
            if (g.module + ':' + g.qual) not in known and not any(
                    k.startswith(g.module + ':') and k.split(':')[1].split(
                        '.')[-1] == g.name for k in known) and any(
                    isinstance(y, (ast.Yield, ast.YieldFrom))
                    for y in ast.walk(g.node)):
                # a generator: its body runs interleaved with the caller's
                # loop, which no rule models
                out.add(g.qual)
    return out


def restructured(repo, qual):
    """Reason string when the function ``qual`` of the analysed tree is too
    far from the pinned form for a violation in it to be believed."""
    key = ('r', id(repo), qual)
    if key in _cache:
        return _cache[key]
    why = ''
    fi = repo.fn(qual, required=False)
    if fi is not None:
        d = distance(fi)
        if d is not None:
            dist, size, exotic = d
            if dist >= ABS and dist >= REL * max(size, 1):
                why = ('%d of %d canonical statements differ from the form '
                       'the rules were validated against' % (dist, size))
            if not why and dist > 0:
                # idioms no rule has a recogniser for, new in this function
                ref = ' '.join(pinned().get(fi.module + ':' + fi.qual, []))
                cur = set()
                for n in ast.walk(fi.node):
                    if isinstance(n, ast.Match):
                        cur.add('match')
                    if isinstance(n, ast.Call):
                        f = n.func
                        nm = f.id if isinstance(f, ast.Name) else (
                            f.attr if isinstance(f, ast.Attribute) else '')
                        if nm in FUNCTIONAL:
                            cur.add(nm)
                newi = sorted(x for x in cur if x == 'match' and
                              'match ' not in ref or
                              x != 'match' and (x + '(') not in ref)
                if newi:
                    why = ('it is now written with %s, for which the rules '
                           'have no recogniser' % ', '.join(newi))
            if not why and dist > 0:
                # part of the function moved into a new generator helper,
                # which cannot be folded back: the rules cannot see what
                # happens there
                new = _new_helpers_called(repo, fi)
                if new:
                    why = ('part of it moved into the new generator(s) %s, '
                           'which cannot be folded back into it' %
                           ', '.join(sorted(new)))
    _cache[key] = why
    return why
