"""Receiver typing, call resolution (may-edges), reachability, effects."""

import ast

from . import astutil as A
from .cfg import cfg_of
from .dataflow import local_defs

# method names that collide with built-in container / str / file methods:
# resolved to a repository method only under a positive receiver type
COLLISION = {
    'update', 'get', 'add', 'remove', 'insert', 'copy', 'pop', 'end', 'list',
    'delete', 'move', 'items', 'keys', 'values', 'append', 'extend', 'clear',
    'setdefault', 'format', 'join', 'split', 'strip', 'startswith', 'index',
    'count', 'sort', 'close', 'send', 'recv', 'start', 'register', 'access',
    'read', 'write', 'to', 'tolist', 'emit_data', 'create', 'connect',
    'replace', 'find', 'set', 'divide', 'merge', 'generate', 'top', 'depth',
    'validate', 'enable', 'disable', 'run', 'put', 'lower', 'upper',
    'encode', 'decode', 'search', 'match', 'fullmatch', 'group', 'reverse',
    'union', 'intersection', 'difference', 'discard', 'popitem', 'fromkeys',
    'isdisjoint', 'issubset', 'exists', 'mkdir', 'open', 'dumps', 'loads',
    'dump', 'load', 'fields', 'serialize', 'deserialize',
}
# these stay resolvable by name although generic, because the repo defines
# them in exactly one family and rules rely on them
NOT_COLLISION = {'emit_data', 'divide', 'generate', 'serialize',
                 'deserialize', 'top', 'depth', 'create', 'connect'}
COLLISION -= NOT_COLLISION

EXTERNAL_MODULES = {'nx', 'np', 'copy', 'log', 'logging', 'math', 'os',
                    'sys', 're', 'json', 'orjson', 'random', 'uuid',
                    'warnings', 'pstats', 'cProfile', 'clock', 'time',
                    'datetime', 'multiprocessing', 'pickle', 'itertools',
                    'functools', 'operator', 'collections', 'traceback',
                    'plt', 'mp_ctx', 'pytest', 'units'}


class CallGraph:
    def __init__(self, repo, include_tests=False):
        self.repo = repo
        self.include_tests = include_tests
        self._edges = {}
        self._attr_types = {}
        self._ret_types = {}
        self._ret_busy = set()
        self._methods_by_name = {}
        for f in repo.functions:
            if f.cls and not f.nested_in and (include_tests or not f.is_test):
                self._methods_by_name.setdefault(f.name, []).append(f)
        self._build_attr_types()

    # ------------------------------------------------------ attribute types
    def _build_attr_types(self):
        """Class -> attribute -> set of class names, from ``self.x: T`` and
        ``self.x = Ctor(...)`` in methods."""
        for lst in self.repo.classes.values():
            for ci in lst:
                table = self._attr_types.setdefault(ci.name, {})
                for m in ci.methods.values():
                    for n in ast.walk(m.node):
                        tgt, ann, val = None, None, None
                        if isinstance(n, ast.AnnAssign):
                            tgt, ann, val = n.target, n.annotation, n.value
                        elif isinstance(n, ast.Assign) and len(n.targets) == 1:
                            tgt, val = n.targets[0], n.value
                        if tgt is None or not (
                                isinstance(tgt, ast.Attribute) and
                                A.is_name(tgt.value, 'self')):
                            continue
                        ts = set()
                        if ann is not None:
                            ts |= self._ann_types(ann)
                        if isinstance(val, ast.Call) and isinstance(
                                val.func, ast.Name) and \
                                val.func.id in self.repo.classes:
                            ts.add(val.func.id)
                        if ts:
                            table.setdefault(tgt.attr, set()).update(ts)
        # structural knowledge of Store links
        st = self._attr_types.setdefault('Store', {})
        st.setdefault('outer', set()).add('Store')

    def _ann_types(self, ann):
        out = set()
        for n in ast.walk(ann):
            if isinstance(n, ast.Name) and n.id in self.repo.classes:
                out.add(n.id)
            elif isinstance(n, ast.Constant) and isinstance(n.value, str) \
                    and n.value in self.repo.classes:
                out.add(n.value)
        return out

    # --------------------------------------------------------- type_of expr
    def type_of(self, fi, expr, at=None, depth=4):
        """Set of repository class names the expression may evaluate to, or
        None when unknown."""
        if depth < 0 or expr is None:
            return None
        # isinstance narrowing by dominating guards
        if at is not None:
            n = cfg_of(fi.node).node(at)
            if n is not None:
                txt = A.unparse(expr)
                for atom in cfg_of(fi.node).guards(n):
                    if atom[0] == 'isinstance' and atom[1] == txt:
                        names = {x.strip() for x in
                                 atom[2].strip('()').split(',')}
                        names = {x.split('.')[-1] for x in names}
                        names = {x for x in names if x in self.repo.classes}
                        if names:
                            return names
        if isinstance(expr, ast.Name):
            if expr.id == 'self' and fi.cls:
                return {fi.cls}
            if expr.id in self.repo.classes:
                return None     # a class object, handled by callers
            defs = local_defs(fi.node).get(expr.id)
            if defs is None and fi.nested_in is not None:
                return self.type_of(fi.nested_in, expr, None, depth - 1)
            if not defs:
                return None
            out = set()
            for d in defs:
                t = None
                if d.kind == 'param':
                    t = self._param_type(fi, expr.id)
                elif d.kind == 'assign':
                    t = self.type_of(fi, d.value, None, depth - 1)
                elif d.kind == 'for':
                    t = self._loop_target_type(fi, d, expr.id, depth)
                elif d.kind == 'unpack':
                    t = self._unpack_type(fi, d, expr.id, depth)
                if t is None:
                    return None
                out |= t
            return out or None
        if isinstance(expr, ast.Call):
            f = expr.func
            if isinstance(f, ast.Name):
                if f.id in self.repo.classes:
                    return {f.id}
                if f.id == 'cast' and len(expr.args) == 2:
                    return self._ann_types(expr.args[0]) or None
                for callee in self._resolve_name(fi, f.id):
                    return self.return_type(callee)
                return None
            if isinstance(f, ast.Attribute):
                if isinstance(f.value, ast.Call) and A.is_name(
                        f.value.func, 'super'):
                    return None
                rt = self.type_of(fi, f.value, at, depth - 1)
                if rt:
                    out = set()
                    for c in rt:
                        m = self.repo.method(c, f.attr)
                        if m is not None:
                            t = self.return_type(m)
                            if t:
                                out |= t
                    return out or None
            return None
        if isinstance(expr, ast.Attribute):
            bt = self.type_of(fi, expr.value, at, depth - 1)
            if bt:
                out = set()
                for c in bt:
                    for ci in self.repo.mro(c):
                        ts = self._attr_types.get(ci.name, {}).get(expr.attr)
                        if ts:
                            out |= ts
                            break
                if 'Store' in bt and expr.attr == 'value':
                    return {'Process'}
                return out or None
            return None
        if isinstance(expr, ast.Subscript):
            v = expr.value
            if isinstance(v, ast.Attribute) and v.attr == 'inner':
                return {'Store'}
            bt = self.type_of(fi, v, at, depth - 1)
            if bt and 'Store' in bt:
                return {'Store'}     # Store.__getitem__
            return None
        if isinstance(expr, ast.IfExp):
            a = self.type_of(fi, expr.body, at, depth - 1)
            b = self.type_of(fi, expr.orelse, at, depth - 1)
            if a and b:
                return a | b
            return None
        if isinstance(expr, ast.BoolOp):
            out = set()
            for v in expr.values:
                t = self.type_of(fi, v, at, depth - 1)
                if t:
                    out |= t
            return out or None
        return None

    def _param_type(self, fi, name):
        a = fi.node.args
        for p in a.posonlyargs + a.args + a.kwonlyargs:
            if p.arg == name and p.annotation is not None:
                return self._ann_types(p.annotation) or None
        return None

    def _loop_target_type(self, fi, d, name, depth):
        it = d.value
        tgt = d.stmt.target
        # for x in X.inner.values() / for k, x in X.inner.items()
        if isinstance(it, ast.Call) and isinstance(it.func, ast.Attribute):
            base = it.func.value
            if isinstance(base, ast.Attribute) and base.attr == 'inner':
                if it.func.attr == 'values' and A.is_name(tgt, name):
                    return {'Store'}
                if it.func.attr == 'items' and isinstance(tgt, ast.Tuple) \
                        and len(tgt.elts) == 2 and A.is_name(
                            tgt.elts[1], name):
                    return {'Store'}
            # for path, node in X.depth(...)
            if it.func.attr == 'depth' and isinstance(tgt, ast.Tuple) and \
                    len(tgt.elts) == 2 and A.is_name(tgt.elts[1], name):
                return {'Store'}
        if isinstance(it, ast.Name):
            # for path, process in <list built from X.depth(...)>
            for d2 in local_defs(fi.node).get(it.id, []):
                v = d2.value
                if isinstance(v, ast.Call) and A.call_name(v) == 'depth' and \
                        isinstance(tgt, ast.Tuple) and len(tgt.elts) == 2 \
                        and A.is_name(tgt.elts[1], name):
                    return {'Store'}
                if isinstance(v, ast.Call) and A.is_name(v.func, 'list') \
                        and v.args and isinstance(v.args[0], ast.Call) and \
                        isinstance(v.args[0].func, ast.Attribute) and \
                        v.args[0].func.attr == 'values' and isinstance(
                            v.args[0].func.value, ast.Attribute) and \
                        v.args[0].func.value.attr == 'inner':
                    return {'Store'}
        return None

    def _unpack_type(self, fi, d, name, depth):
        # node, path = self.outer_path(...) ; store, states = _process_state()
        v = d.value
        stmt = d.stmt
        if not isinstance(stmt, ast.Assign) or not isinstance(v, ast.Call):
            return None
        tgt = stmt.targets[0]
        if not isinstance(tgt, (ast.Tuple, ast.List)):
            return None
        idx = None
        for i, e in enumerate(tgt.elts):
            if A.is_name(e, name):
                idx = i
        if idx is None:
            return None
        callees = self.resolve_call(fi, v)
        out = set()
        for c in callees:
            for r in ast.walk(c.node):
                if isinstance(r, ast.Return) and isinstance(
                        r.value, ast.Tuple) and idx < len(r.value.elts):
                    t = self.type_of(c, r.value.elts[idx], None, depth - 1)
                    if t:
                        out |= t
        return out or None

    def return_type(self, fi):
        k = fi.fq
        if k in self._ret_types:
            return self._ret_types[k]
        if k in self._ret_busy:
            return None
        self._ret_busy.add(k)
        out = set()
        ann = getattr(fi.node, 'returns', None)
        if ann is not None:
            out |= self._ann_types(ann)
        if not out:
            for r in A.walk_no_nested(fi.node):
                if isinstance(r, ast.Return) and r.value is not None:
                    t = self.type_of(fi, r.value, None, 3)
                    if t:
                        out |= t
        self._ret_busy.discard(k)
        self._ret_types[k] = out or None
        return self._ret_types[k]

    # ------------------------------------------------------ call resolution
    def _resolve_name(self, fi, name):
        # nested function of this or an enclosing function
        cur = fi
        while cur is not None:
            for f in self.repo.functions:
                if f.nested_in is cur and f.name == name:
                    return [f]
            cur = cur.nested_in
        mod = self.repo.modules.get(fi.module)
        if mod is not None:
            if name in mod.functions:
                return [mod.functions[name]]
            if name in mod.classes:
                m = self.repo.method(name, '__init__')
                return [m] if m else []
            if name in mod.imports:
                src, orig = mod.imports[name]
                m2 = self.repo.modules.get(src)
                if m2 is not None and orig:
                    if orig in m2.functions:
                        return [m2.functions[orig]]
                    if orig in m2.classes:
                        m = self.repo.method(orig, '__init__')
                        return [m] if m else []
                    # re-exported
                    if orig in m2.imports:
                        s3, o3 = m2.imports[orig]
                        m3 = self.repo.modules.get(s3)
                        if m3 is not None and o3 in m3.functions:
                            return [m3.functions[o3]]
        return []

    def _family(self, clsname, meth):
        """Method ``meth`` as seen from an instance typed ``clsname``: the MRO
        hit plus overrides in subclasses (dynamic dispatch, may)."""
        out = []
        m = self.repo.method(clsname, meth)
        if m is not None:
            out.append(m)
        for sub in self.repo.subclasses(clsname,
                                        include_tests=self.include_tests):
            if meth in sub.methods:
                out.append(sub.methods[meth])
        return out

    def resolve_call(self, fi, call, at=None):
        """May-callees of a call expression."""
        f = call.func
        if isinstance(f, ast.Name):
            return self._resolve_name(fi, f.id)
        if not isinstance(f, ast.Attribute):
            return []
        recv, meth = f.value, f.attr
        if isinstance(recv, ast.Call) and A.is_name(recv.func, 'super'):
            if fi.cls:
                mro = self.repo.mro(fi.cls)
                for ci in mro[1:]:
                    if meth in ci.methods:
                        return [ci.methods[meth]]
            return []
        if isinstance(recv, ast.Name):
            if recv.id in EXTERNAL_MODULES:
                return []
            mod = self.repo.modules.get(fi.module)
            if mod is not None and recv.id in mod.imports and \
                    recv.id not in self.repo.classes:
                src, orig = mod.imports[recv.id]
                m2 = self.repo.modules.get(src if orig is None else
                                           src + '.' + orig)
                if m2 is not None and meth in m2.functions:
                    return [m2.functions[meth]]
                if not src.startswith('vivarium'):
                    return []
            if recv.id in self.repo.classes:
                m = self.repo.method(recv.id, meth)
                return [m] if m else []
        t = self.type_of(fi, recv, at if at is not None else call)
        if t:
            out = []
            for c in t:
                out += self._family(c, meth)
            # de-duplicate
            seen, res = set(), []
            for m in out:
                if m.fq not in seen:
                    seen.add(m.fq)
                    res.append(m)
            return res
        if meth in COLLISION:
            return []
        return list(self._methods_by_name.get(meth, []))

    def edges(self, fi):
        """[(callee FuncInfo, call node)] for every call in ``fi`` (nested
        functions and lambdas included: closure edges)."""
        k = fi.fq
        if k in self._edges:
            return self._edges[k]
        out = []
        for n in ast.walk(fi.node):
            if isinstance(n, ast.Call):
                for c in self.resolve_call(fi, n):
                    if c.is_test and not self.include_tests:
                        continue
                    out.append((c, n))
                # functions passed as arguments (apply_func_to_leaves(x, f))
                for a in list(n.args) + [kw.value for kw in n.keywords]:
                    if isinstance(a, ast.Attribute) and A.is_name(
                            a.value, 'self') and fi.cls:
                        m = self.repo.method(fi.cls, a.attr)
                        if m is not None:
                            out.append((m, n))
                    elif isinstance(a, ast.Name):
                        for c in self._resolve_name(fi, a.id):
                            if c.name != '__init__':
                                out.append((c, n))
        self._edges[k] = out
        return out

    def reachable(self, roots, stop=None, call_filter=None):
        """{fq: (FuncInfo, parent fq, call node)} reachable from roots
        through may-edges; ``stop(fi)`` prunes; ``call_filter(fi, call)``
        drops individual call sites."""
        seen = {}
        work = []
        for r in roots:
            seen[r.fq] = (r, None, None)
            work.append(r)
        while work:
            f = work.pop()
            if stop is not None and stop(f) and seen[f.fq][1] is not None:
                continue
            for c, call in self.edges(f):
                if call_filter is not None and not call_filter(f, call):
                    continue
                if c.fq not in seen:
                    seen[c.fq] = (c, f.fq, call)
                    work.append(c)
        return seen

    def reachable_ctx(self, roots, stop=None):
        """Like reachable(), with one level of constant propagation for
        boolean parameters: a call guarded by ``if p:`` inside a callee is
        not followed when the call site that led there passed ``p=False``
        (and vice versa).  Keys are (fq, frozenset of (param, const))."""
        seen = {}
        work = []
        for r in roots:
            k = (r.fq, frozenset())
            seen[k] = (r, None, None)
            work.append((r, frozenset()))
        while work:
            f, ctx = work.pop()
            if stop is not None and stop(f):
                continue
            cdict = dict(ctx)
            cfg = cfg_of(f.node) if cdict else None
            for c, call in self.edges(f):
                if cdict:
                    n = cfg.node(call)
                    dead = n is None
                    if n is not None:
                        for a in cfg.guards(n):
                            if a[0] == 'truthy' and a[1] in cdict and \
                                    cdict[a[1]] is False:
                                dead = True
                            if a[0] == 'falsy' and a[1] in cdict and \
                                    cdict[a[1]] is True:
                                dead = True
                    if dead:
                        continue
                # constants bound at this call site
                params = A.params_of(c.node)
                if c.cls and params and params[0] in ('self', 'cls'):
                    params = params[1:]
                b = {}
                for p_, a_ in zip(params, call.args):
                    if isinstance(a_, ast.Constant) and isinstance(
                            a_.value, bool):
                        b[p_] = a_.value
                for kw in call.keywords:
                    if kw.arg and isinstance(kw.value, ast.Constant) and \
                            isinstance(kw.value.value, bool):
                        b[kw.arg] = kw.value.value
                k = (c.fq, frozenset(b.items()))
                if k not in seen:
                    seen[k] = (c, (f.fq, ctx), call)
                    work.append((c, frozenset(b.items())))
        return seen

    def path_to_ctx(self, seen, key):
        chain = []
        cur = key
        while cur is not None:
            f, parent, call = seen[cur]
            chain.append(f.qual)
            cur = parent
        return list(reversed(chain))

    def path_to(self, seen, fq):
        chain = []
        cur = fq
        while cur is not None:
            f, parent, call = seen[cur]
            chain.append(f.qual)
            cur = parent
        return list(reversed(chain))


# ------------------------------------------------------------------ effects
def store_write_sites(fnode):
    """Statements that write store state: ``X.value = ..``, ``X.inner[..] =``,
    ``del X.inner[..]``, ``X.outer = ..``, ``X.inner = ..`` and mutating
    calls on ``X.inner``."""
    out = []
    for n in ast.walk(fnode):
        tgts = []
        if isinstance(n, (ast.Assign, ast.AugAssign, ast.AnnAssign)):
            tgts = A.assigned_targets(n)
        elif isinstance(n, ast.Delete):
            tgts = n.targets
        for t in tgts:
            if isinstance(t, ast.Attribute) and t.attr in (
                    'value', 'inner', 'outer'):
                out.append(n)
            elif isinstance(t, ast.Subscript) and isinstance(
                    t.value, ast.Attribute) and t.value.attr == 'inner':
                out.append(n)
        if isinstance(n, ast.Call) and isinstance(n.func, ast.Attribute) \
                and n.func.attr in ('update', 'pop', 'clear', 'setdefault',
                                    'popitem') and isinstance(
                    n.func.value, ast.Attribute) and \
                n.func.value.attr == 'inner':
            out.append(n)
    return out


_cg_cache = {}


def callgraph(repo):
    k = id(repo)
    if k not in _cg_cache or _cg_cache[k][0] is not repo:
        _cg_cache[k] = (repo, CallGraph(repo))
    return _cg_cache[k][1]
