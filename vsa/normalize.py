"""Normalisation applied to every parsed module before indexing.

*Helper inlining.*  Every rule of the analyser is anchored in functions that
were read by hand on the pinned tree; their names are frozen in
``pinned_functions.json``.  A private function that is **not** in that list is
new code, and the most common reason for new code next to an anchor is that a
block of the anchor was extracted into a helper.  Such a helper is inlined
into its call sites (and its definition dropped) so that the rules analyse the
same statements wherever they were moved to - for benign extractions this
keeps the rules silent, for breaking ones it keeps the broken statements in
view of the path rules.

A helper is inlined only when this can be done without changing the order of
effects in a way a rule could observe:

* private name (leading underscore), no decorators, plain positional
  parameters, no generator, no nested function, not recursive;
* at most one ``return``, which is the last top-level statement;
* every reference to its name in the package is a direct call
  ``<simple>.name(...)`` / ``name(...)`` in the same module whose enclosing
  statement is a simple statement or the test of an ``if`` and which is not
  under a lambda, comprehension, conditional expression or the right operand
  of a boolean operator.

Anything else is left alone (and the rules see the call as a call).  The list
of what was inlined is part of the evidence (``Repo.inlined``).
"""

import ast
import copy
import json
from pathlib import Path

_PINNED = None


def pinned_functions():
    global _PINNED
    if _PINNED is None:
        p = Path(__file__).with_name('pinned_functions.json')
        _PINNED = {tuple(x) for x in json.loads(p.read_text())}
    return _PINNED


def _is_test_name(name):
    return (name.startswith('test_') or name.startswith('Test')
            or name.startswith('Toy') or name.startswith('_test'))


def _simple(e):
    if isinstance(e, (ast.Name, ast.Constant)):
        return True
    if isinstance(e, ast.Attribute):
        return _simple(e.value)
    return False


class _Subst(ast.NodeTransformer):
    def __init__(self, mapping, rename):
        self.mapping = mapping    # name -> expression (loads only)
        self.rename = rename      # name -> new name

    def visit_Name(self, node):
        if node.id in self.mapping and isinstance(node.ctx, ast.Load):
            return copy.deepcopy(self.mapping[node.id])
        if node.id in self.rename:
            return ast.copy_location(
                ast.Name(id=self.rename[node.id], ctx=node.ctx), node)
        return node


def _assigned_names(fn):
    out = set()
    for n in ast.walk(fn):
        if isinstance(n, ast.Name) and isinstance(n.ctx, (ast.Store, ast.Del)):
            out.add(n.id)
        elif isinstance(n, ast.ExceptHandler) and n.name:
            out.add(n.name)
    return out


def _all_names(fn):
    out = {a.arg for a in fn.args.args + fn.args.kwonlyargs
           + fn.args.posonlyargs}
    for n in ast.walk(fn):
        if isinstance(n, ast.Name):
            out.add(n.id)
    return out


def _is_static(fn):
    return len(fn.decorator_list) == 1 and isinstance(
        fn.decorator_list[0], ast.Name) and \
        fn.decorator_list[0].id == 'staticmethod'


def _helper_ok(fn):
    if fn.decorator_list and not _is_static(fn):
        return False
    a = fn.args
    if a.vararg or a.kwarg or a.kwonlyargs or a.posonlyargs:
        return False
    body = fn.body
    for n in ast.walk(fn):
        if n is fn:
            continue
        if isinstance(n, (ast.FunctionDef, ast.AsyncFunctionDef, ast.ClassDef,
                          ast.Yield, ast.YieldFrom, ast.Await, ast.Global,
                          ast.Nonlocal)):
            return False
    rets = [n for n in ast.walk(fn) if isinstance(n, ast.Return)]
    if len(rets) > 1 or (rets and rets[0] is not body[-1]):
        # several exits: acceptable when they can be folded into one
        return _single_exit([copy.deepcopy(s) for s in body], '_r') \
            is not None
    return True


def _has_return(node):
    return any(isinstance(n, ast.Return) for n in ast.walk(node))


def _falls_through(block):
    if not block:
        return True
    last = block[-1]
    if isinstance(last, (ast.Return, ast.Raise)):
        return False
    if isinstance(last, ast.If) and last.orelse:
        return _falls_through(last.body) or _falls_through(last.orelse)
    return True


def _single_exit(body, ret_name):
    """Rewrite a statement list whose ``return`` statements sit at the end
    of (nested) if-branches into one without any return: the value goes
    into ``ret_name`` and what follows an ``if`` is moved into the branches
    that fall through.  None when a return sits inside a loop, try or
    with."""
    out = []
    for i, st in enumerate(body):
        rest = body[i + 1:]
        if isinstance(st, ast.Return):
            val = st.value if st.value is not None else ast.Constant(
                value=None)
            asg = ast.Assign(targets=[ast.Name(id=ret_name,
                                               ctx=ast.Store())],
                             value=val, type_comment=None)
            ast.copy_location(asg, st)
            ast.fix_missing_locations(asg)
            out.append(asg)
            return out
        if isinstance(st, ast.If) and _has_return(st):
            b_rest = [copy.deepcopy(x) for x in rest] if _falls_through(
                st.body) else []
            o_rest = [copy.deepcopy(x) for x in rest] if _falls_through(
                st.orelse) else []
            b = _single_exit(list(st.body) + b_rest, ret_name)
            o = _single_exit(list(st.orelse) + o_rest, ret_name)
            if b is None or o is None:
                return None
            new = ast.If(test=st.test, body=b or [ast.Pass()], orelse=o)
            ast.copy_location(new, st)
            ast.fix_missing_locations(new)
            out.append(new)
            return out
        if _has_return(st):
            return None
        out.append(st)
    # ran off the end: the function returns None here
    asg = ast.Assign(targets=[ast.Name(id=ret_name, ctx=ast.Store())],
                     value=ast.Constant(value=None), type_comment=None)
    if body:
        ast.copy_location(asg, body[-1])
    ast.fix_missing_locations(asg)
    out.append(asg)
    return out


def _strip_doc(body):
    if (body and isinstance(body[0], ast.Expr)
            and isinstance(body[0].value, ast.Constant)
            and isinstance(body[0].value.value, str)):
        return body[1:]
    return body


class _Site:
    __slots__ = ('call', 'stmt', 'holder', 'field', 'index', 'caller')


def _find_sites(tree, name, is_method):
    """All references to ``name`` in ``tree``; (sites, ok)."""
    parents = {}
    for n in ast.walk(tree):
        for c in ast.iter_child_nodes(n):
            parents[c] = n
    sites, ok = [], True
    for n in ast.walk(tree):
        ref = None
        if is_method and isinstance(n, ast.Attribute) and n.attr == name:
            ref = n
        elif not is_method and isinstance(n, ast.Name) and n.id == name:
            ref = n
        elif isinstance(n, ast.Constant) and n.value == name:
            ok = False      # getattr(..., 'name') and the like
        if ref is None:
            continue
        p = parents.get(ref)
        if not (isinstance(p, ast.Call) and p.func is ref):
            ok = False
            continue
        if is_method and not _simple(ref.value):
            ok = False
            continue
        if any(isinstance(a, ast.Starred) for a in p.args) or any(
                k.arg is None for k in p.keywords):
            ok = False
            continue
        # climb to the statement
        cur, bad = p, False
        while not isinstance(cur, ast.stmt):
            up = parents.get(cur)
            if isinstance(up, (ast.Lambda, ast.ListComp, ast.SetComp,
                               ast.DictComp, ast.GeneratorExp, ast.IfExp)):
                bad = True
            if isinstance(up, ast.BoolOp) and up.values[0] is not cur:
                bad = True
            cur = up
        stmt = cur
        if isinstance(stmt, (ast.Expr, ast.Assign, ast.AnnAssign,
                             ast.AugAssign, ast.Return)):
            pass
        elif isinstance(stmt, ast.If):
            # only inside the test
            inside = any(x is p for x in ast.walk(stmt.test))
            if not inside:
                bad = True
        else:
            bad = True
        if bad:
            ok = False
            continue
        holder = parents.get(stmt)
        field = index = None
        for f, v in ast.iter_fields(holder):
            if isinstance(v, list):
                for i, x in enumerate(v):
                    if x is stmt:
                        field, index = f, i
        if field is None:
            ok = False
            continue
        caller = stmt
        while caller is not None and not isinstance(
                caller, (ast.FunctionDef, ast.AsyncFunctionDef)):
            caller = parents.get(caller)
        if caller is None:
            ok = False
            continue
        s = _Site()
        s.call, s.stmt, s.holder, s.field, s.index, s.caller = (
            p, stmt, holder, field, index, caller)
        sites.append(s)
    return sites, ok


def _replace_node(root, old, new):
    for n in ast.walk(root):
        for f, v in ast.iter_fields(n):
            if v is old:
                setattr(n, f, new)
                return True
            if isinstance(v, list):
                for i, x in enumerate(v):
                    if x is old:
                        v[i] = new
                        return True
    return False


def _bind(call, helper, is_method):
    params = [a.arg for a in helper.args.args]
    defaults = helper.args.defaults
    ndef = len(defaults)
    args = {}
    actual = list(call.args)
    if is_method is True:
        actual = [call.func.value] + actual
    if len(actual) > len(params):
        return None
    for p, a in zip(params, actual):
        args[p] = a
    for k in call.keywords:
        if k.arg not in params or k.arg in args:
            return None
        args[k.arg] = k.value
    for i, p in enumerate(params):
        if p not in args:
            j = i - (len(params) - ndef)
            if j < 0:
                return None
            args[p] = defaults[j]
    return args


def _inline_at(site, helper, is_method):
    call = site.call
    params = [a.arg for a in helper.args.args]
    args = _bind(call, helper, is_method)
    if args is None:
        return False
    assigned = _assigned_names(helper)
    caller_names = _all_names(site.caller)
    mapping, rename, prologue = {}, {}, []

    def fresh(base):
        n, k = base, 0
        while n in caller_names:
            k += 1
            n = '%s_h%d' % (base, k)
        caller_names.add(n)
        return n

    for p in params:
        a = args[p]
        if _simple(a) and p not in assigned:
            mapping[p] = a
        else:
            new = p if (isinstance(a, ast.Name) and a.id == p) else fresh(p)
            if new != p:
                rename[p] = new
            if not (isinstance(a, ast.Name) and a.id == new):
                asg = ast.Assign(
                    targets=[ast.Name(id=new, ctx=ast.Store())],
                    value=copy.deepcopy(a), type_comment=None)
                ast.copy_location(asg, site.stmt)
                ast.fix_missing_locations(asg)
                prologue.append(asg)
    # ``x = helper(...)`` whose helper ends in ``return local``: the local
    # simply becomes x (no alias is introduced)
    direct = None
    last = helper.body[-1]
    if isinstance(site.stmt, ast.Assign) and site.stmt.value is call and \
            len(site.stmt.targets) == 1 and isinstance(
                site.stmt.targets[0], ast.Name) and isinstance(
                last, ast.Return) and isinstance(last.value, ast.Name) and \
            last.value.id in assigned and last.value.id not in params:
        tname = site.stmt.targets[0].id
        used_in_args = any(isinstance(n, ast.Name) and n.id == tname
                           for a in args.values() for n in ast.walk(a))
        clash = tname in (_all_names(helper) - {last.value.id})
        if not used_in_args and not clash:
            direct = last.value.id
            if direct != tname:
                rename[direct] = tname
    for loc in sorted(assigned - set(params)):
        if loc == direct:
            continue
        if loc in caller_names:
            rename[loc] = fresh(loc)
        else:
            caller_names.add(loc)
    body = [copy.deepcopy(s) for s in _strip_doc(helper.body)]
    nrets = sum(1 for b in body for n in ast.walk(b)
                if isinstance(n, ast.Return))
    multi = nrets > 1 or (nrets == 1 and not isinstance(body[-1],
                                                        ast.Return))
    if multi:
        rname = fresh('_ret_' + helper.name.strip('_'))
        body = _single_exit(body, rname)
        if body is None:
            return False
        direct = None
    sub = _Subst(mapping, rename)
    body = [sub.visit(s) for s in body]
    ret = None
    if multi:
        ret = ast.Name(id=rname, ctx=ast.Load())
        ast.copy_location(ret, call)
        if isinstance(site.stmt, ast.Expr) and site.stmt.value is call:
            ret = None
    elif body and isinstance(body[-1], ast.Return):
        ret = body[-1].value
        body = body[:-1]
    lst = getattr(site.holder, site.field)
    if direct is not None:
        lst[site.index:site.index + 1] = prologue + body
    elif isinstance(site.stmt, ast.Expr) and site.stmt.value is call:
        new_stmts = prologue + body
        if ret is not None and not _simple(ret):
            e = ast.Expr(value=ret)
            ast.copy_location(e, site.stmt)
            new_stmts.append(e)
        if not new_stmts:
            p = ast.Pass()
            ast.copy_location(p, site.stmt)
            new_stmts = [p]
        lst[site.index:site.index + 1] = new_stmts
    else:
        if ret is None:
            ret = ast.copy_location(ast.Constant(value=None), call)
        _replace_node(site.stmt, call, ret)
        lst[site.index:site.index] = prologue + body
    return True


def _as_expression(fn):
    """The helper as one expression when its body is only ``if c: return A``
    guards and a final ``return``: nested conditional expressions."""
    def conv(stmts):
        if not stmts:
            return None
        s0, rest = stmts[0], stmts[1:]
        if isinstance(s0, ast.Return):
            return s0.value if s0.value is not None else ast.Constant(
                value=None)
        if isinstance(s0, ast.If) and len(s0.body) == 1 and isinstance(
                s0.body[0], ast.Return):
            a = conv(s0.body)
            b = conv(list(s0.orelse) + ([] if s0.orelse and isinstance(
                s0.orelse[-1], ast.Return) else rest)) if (
                s0.orelse or rest) else None
            if a is None or b is None:
                return None
            return ast.IfExp(test=s0.test, body=a, orelse=b)
        return None
    body = _strip_doc(fn.body)
    if not body or len(body) > 4:
        return None
    if len(body) == 1 and isinstance(body[0], ast.Return):
        # plain one-expression helpers are handled like any other
        return None
    return conv(body)


def _inline_expression_helper(tree, fn, is_method):
    """Replace every call of an expression-like helper by its expression
    (possible in any position: loop tests, comprehensions, conditions).
    Returns the callers' names, or None when some reference is not a plain
    call with simple arguments."""
    expr = _as_expression(fn)
    if expr is None:
        return None
    parents = {}
    for n in ast.walk(tree):
        for c in ast.iter_child_nodes(n):
            parents[c] = n
    calls = []
    for n in ast.walk(tree):
        ref = None
        if is_method and isinstance(n, ast.Attribute) and n.attr == fn.name:
            ref = n
        elif not is_method and isinstance(n, ast.Name) and n.id == fn.name:
            ref = n
        elif isinstance(n, ast.Constant) and n.value == fn.name:
            return None
        if ref is None:
            continue
        p = parents.get(ref)
        if not (isinstance(p, ast.Call) and p.func is ref):
            return None
        if is_method and not _simple(ref.value):
            return None
        if any(isinstance(a, ast.Starred) for a in p.args) or any(
                k.arg is None for k in p.keywords):
            return None
        args = _bind(p, fn, is_method)
        if args is None:
            return None
        uses = {}
        for m in ast.walk(expr):
            if isinstance(m, ast.Name):
                uses[m.id] = uses.get(m.id, 0) + 1
        if any(not _simple(a) and uses.get(k, 0) > 1
               for k, a in args.items()):
            return None
        calls.append((p, args))
    if not calls:
        return None
    callers = set()
    for p, args in calls:
        new = _Subst(args, {}).visit(copy.deepcopy(expr))
        ast.copy_location(new, p)
        ast.fix_missing_locations(new)
        _replace_node(tree, p, new)
        q = p
        while q is not None and not isinstance(q, ast.FunctionDef):
            q = parents.get(q)
        callers.add(q.name if q is not None else '?')
    return callers


# Pinned private helpers with a single caller whose canonical form is the
# inlined one: the rules are written against the caller's body, so the
# helper may exist or may have been folded into its caller.
CANONICALLY_INLINED = {
    ('vivarium.core.engine', '_invoke_process'),
}


def inline_new_helpers(trees):
    """``trees``: {module name: ast.Module}.  Mutates the trees.  Returns a
    list of 'module.qual -> caller' strings describing what was inlined."""
    pinned = set(pinned_functions()) - CANONICALLY_INLINED
    done = []
    for _round in range(3):
        changed = False
        for modname, tree in trees.items():
            cands = []
            for node in tree.body:
                if isinstance(node, ast.FunctionDef):
                    cands.append((node.name, node, None))
                elif isinstance(node, ast.ClassDef):
                    for sub in node.body:
                        if isinstance(sub, ast.FunctionDef):
                            cands.append((node.name + '.' + sub.name, sub,
                                          node))
            pinned_short = {q.split('.')[-1] for m, q in pinned
                            if m == modname}
            inl_short = {q.split('.')[-1] for m, q in CANONICALLY_INLINED
                         if m == modname}
            for qual, fn, cls in cands:
                if (modname, qual) in pinned:
                    continue
                # a pinned function moved into a class or out of it
                if fn.name in pinned_short and fn.name not in inl_short:
                    continue
                if not fn.name.startswith('_') or fn.name.startswith('__'):
                    continue
                if _is_test_name(fn.name) or (cls and _is_test_name(cls.name)):
                    continue
                if not _helper_ok(fn):
                    continue
                is_method = cls is not None
                if _is_static(fn):
                    if cls is None:
                        continue
                    # bound like a function, referenced like a method
                    is_method = 'static'
                elif is_method and (not fn.args.args
                                    or fn.args.args[0].arg != 'self'):
                    continue
                # references elsewhere in the package forbid inlining
                other = False
                for m2, t2 in trees.items():
                    if m2 == modname:
                        continue
                    for n in ast.walk(t2):
                        if (isinstance(n, ast.Attribute)
                                and n.attr == fn.name) or (
                                isinstance(n, ast.Name)
                                and n.id == fn.name) or (
                                isinstance(n, ast.alias)
                                and n.name == fn.name):
                            other = True
                            break
                    if other:
                        break
                if other:
                    continue
                # a method of the same name in another class
                if is_method and sum(
                        1 for n in ast.walk(tree)
                        if isinstance(n, ast.FunctionDef)
                        and n.name == fn.name) > 1:
                    continue
                # detach the definition while looking for references
                holder = cls.body if cls else tree.body
                pos = holder.index(fn)
                del holder[pos]
                who = _inline_expression_helper(tree, fn, is_method)
                if who is not None:
                    if not holder:
                        holder.append(ast.Pass())
                    done.append('%s.%s -> %s (as an expression)' % (
                        modname, qual, ', '.join(sorted(who))))
                    changed = True
                    continue
                sites, ok = _find_sites(tree, fn.name, is_method)
                recursive = any(
                    (isinstance(n, ast.Attribute) and n.attr == fn.name)
                    or (isinstance(n, ast.Name) and n.id == fn.name)
                    for n in ast.walk(fn))
                if ok and any(_bind(s.call, fn, is_method) is None
                              for s in sites):
                    ok = False
                if ok and not sites and not recursive and \
                        (modname, qual) in CANONICALLY_INLINED:
                    # folded into its caller by hand and left behind
                    # unused: dead code, dropped
                    if not holder:
                        holder.append(ast.Pass())
                    done.append('%s.%s (unused) dropped' % (modname, qual))
                    changed = True
                    continue
                if not ok or not sites or recursive:
                    holder.insert(pos, fn)
                    continue
                good = True
                # inline from the last site to the first so that indices of
                # earlier statements in the same list stay valid
                for s in sorted(sites, key=lambda s: (
                        getattr(s.stmt, 'lineno', 0)), reverse=True):
                    # re-find the index (earlier inlining may have shifted)
                    lst = getattr(s.holder, s.field)
                    s.index = next(i for i, x in enumerate(lst)
                                   if x is s.stmt)
                    if not _inline_at(s, fn, is_method):
                        good = False
                        break
                if not good:
                    # partial inlining cannot be undone safely: signal it
                    raise RuntimeError('helper inlining failed half-way for '
                                       '%s.%s' % (modname, qual))
                if not holder:
                    holder.append(ast.Pass())
                done.append('%s.%s -> %s' % (
                    modname, qual,
                    ', '.join(sorted({s.caller.name for s in sites}))))
                changed = True
        if not changed:
            break
    return done


# --------------------------------------------------------------------------
# Canonical forms.  Each pass rewrites an idiom into the form the rules were
# written against; all of them preserve behaviour, so they can neither hide
# nor create a violation - they only make the rules independent of which of
# two equivalent spellings a maintainer prefers.

def _signatures(trees):
    """{bare name: (parameter names, is_method)} for functions, methods and
    classes (through __init__) whose bare name is defined exactly once in
    the non-test code of the package and whose signature has neither *args
    nor **kwargs."""
    seen = {}
    for modname, tree in trees.items():
        for node in tree.body:
            if isinstance(node, ast.FunctionDef):
                seen.setdefault(node.name, []).append((node, False))
            elif isinstance(node, ast.ClassDef):
                if _is_test_name(node.name):
                    continue
                for sub in node.body:
                    if isinstance(sub, ast.FunctionDef):
                        if sub.name == '__init__':
                            seen.setdefault(node.name, []).append(
                                (sub, True))
                        else:
                            static = any(
                                isinstance(d, ast.Name) and d.id in (
                                    'staticmethod', 'classmethod')
                                for d in sub.decorator_list)
                            seen.setdefault(sub.name, []).append(
                                (sub, not static))
    out = {}
    for name, lst in seen.items():
        if name.startswith('__') or _is_test_name(name):
            continue
        sigs = set()
        bad = False
        for fn, is_method in lst:
            a = fn.args
            if a.vararg or a.kwarg or a.posonlyargs:
                bad = True
                break
            params = [x.arg for x in a.args]
            if is_method:
                params = params[1:]
            sigs.add((tuple(params), is_method, fn.name == '__init__'))
        # one definition, or several that agree on the whole signature
        if bad or len(sigs) != 1:
            continue
        params, is_method, is_ctor = next(iter(sigs))
        out[name] = (list(params), is_method, is_ctor)
    return out


def _class_signatures(trees):
    """{class name: {method name: parameter names after self}} for the
    methods a class defines itself (used for ``self.m(...)`` calls whose
    bare name is ambiguous across classes)."""
    out = {}
    for tree in trees.values():
        for node in tree.body:
            if not isinstance(node, ast.ClassDef):
                continue
            ms = {}
            for sub in node.body:
                if isinstance(sub, ast.FunctionDef):
                    a = sub.args
                    if a.vararg or a.kwarg or a.posonlyargs or any(
                            isinstance(d, ast.Name) and d.id in (
                                'staticmethod', 'classmethod', 'property')
                            for d in sub.decorator_list):
                        continue
                    ms[sub.name] = [x.arg for x in a.args][1:]
            out.setdefault(node.name, {}).update(ms)
    return out


def keywords_to_positional(trees):
    """``f(a, c=x)`` -> ``f(a, x)`` wherever the callee is known by a unique
    name and the keyword names the next positional parameter."""
    sigs = _signatures(trees)
    csigs = _class_signatures(trees)
    n = 0
    for tree in trees.values():
        # which class (if any) a call sits in
        owner = {}
        for node in tree.body:
            if isinstance(node, ast.ClassDef):
                for m in ast.walk(node):
                    if isinstance(m, ast.Call):
                        owner[id(m)] = node.name
        for call in ast.walk(tree):
            if not isinstance(call, ast.Call) or not call.keywords:
                continue
            if isinstance(call.func, ast.Attribute):
                name, via_attr = call.func.attr, True
            elif isinstance(call.func, ast.Name):
                name, via_attr = call.func.id, False
            else:
                continue
            sig = sigs.get(name)
            if not sig and via_attr and isinstance(
                    call.func.value, ast.Name) and \
                    call.func.value.id == 'self':
                own = csigs.get(owner.get(id(call)), {})
                if name in own:
                    sig = (own[name], True, False)
            if not sig:
                continue
            params, is_method, is_ctor = sig
            if is_method and not is_ctor and not via_attr:
                continue
            if not is_method and via_attr and not is_ctor:
                # module.function(...) is fine, obj.function unlikely
                pass
            if any(isinstance(a, ast.Starred) for a in call.args) or any(
                    k.arg is None for k in call.keywords):
                continue
            kw = {k.arg: k for k in call.keywords}
            if not set(kw) <= set(params):
                continue
            moved = False
            while len(call.args) < len(params) and \
                    params[len(call.args)] in kw:
                k = kw.pop(params[len(call.args)])
                call.args.append(k.value)
                call.keywords.remove(k)
                moved = True
            n += moved
    return n


def key_loops_to_items(trees):
    """``for k in d: v = d[k]; ...`` -> ``for k, v in d.items(): ...``"""
    n = 0
    for tree in trees.values():
        for loop in ast.walk(tree):
            if not isinstance(loop, ast.For) or not isinstance(
                    loop.target, ast.Name) or not loop.body:
                continue
            d = loop.iter
            if isinstance(d, ast.Call) and isinstance(
                    d.func, ast.Attribute) and d.func.attr == 'keys' and \
                    not d.args:
                d = d.func.value
            if not _simple(d) or isinstance(d, ast.Constant):
                continue
            first = loop.body[0]
            if not (isinstance(first, ast.Assign) and len(first.targets) == 1
                    and isinstance(first.targets[0], ast.Name)
                    and isinstance(first.value, ast.Subscript)
                    and ast.dump(first.value.value) == ast.dump(d)
                    and isinstance(first.value.slice, ast.Name)
                    and first.value.slice.id == loop.target.id):
                continue
            if len(loop.body) == 1:
                continue
            v = first.targets[0]
            loop.target = ast.copy_location(ast.Tuple(
                elts=[ast.Name(id=loop.target.id, ctx=ast.Store()),
                      ast.Name(id=v.id, ctx=ast.Store())],
                ctx=ast.Store()), loop.target)
            loop.iter = ast.copy_location(ast.Call(
                func=ast.Attribute(value=d, attr='items', ctx=ast.Load()),
                args=[], keywords=[]), loop.iter)
            ast.fix_missing_locations(loop.target)
            ast.fix_missing_locations(loop.iter)
            del loop.body[0]
            n += 1
    return n


def canonicalise(trees):
    """All canonical-form passes, repeated until nothing changes (one pass
    can expose work for another); returns {pass: number of rewrites}."""
    passes = [
        ifexp_tests_to_boolops,
        keywords_to_positional, key_loops_to_items, key_loops_inline_reads,
        list_iadd_to_extend, hoist_common_branch_tail,
        dict_store_loops_to_comprehensions,
        loop_element_unpacking, append_loops_to_comprehensions,
        expand_update_displays, comprehension_key_loops,
        index_reads_to_unpacking, propagate_pure_aliases, ifexp_statements,
        split_parallel_copies, sink_branch_temps, thread_none_tests,
        or_assignments, unroll_literal_loops, partial_eval_literal_dicts,
        fold_constants, split_reassigned_locals, split_concat_loops, any_listcomp_to_loop,
        filtered_snapshot_loops, split_returned_tuple_temps,
        rename_copy_temps, unnegate_ifs,
        inline_single_use_temps,
    ]
    total = {}
    _SCOPES.clear()
    for _round in range(4):
        changed = 0
        for p in passes:
            k = p(trees)
            total[p.__name__] = total.get(p.__name__, 0) + k
            changed += k
        if not changed:
            break
    _SCOPES.clear()
    return total


def any_listcomp_to_loop(trees):
    """``if any([E for T in Y]): S`` (a list display: every E is evaluated
    before the test) -> ``f = False; for T in Y: t = E; f = f or t`` followed
    by ``if f: S``.  Also ``L = [E for T in Y]`` whose only read is
    ``any(L)`` in the test of a later ``if`` of the same block.  A generator
    argument is left alone: it stops at the first true element."""
    n = 0
    for tree in trees.values():
        for fn in _fn_scopes(tree):
            names = {m.id for m in ast.walk(fn) if isinstance(m, ast.Name)}

            def fresh(base):
                k = base
                while k in names:
                    k += '_'
                names.add(k)
                return k

            def loop_for(comp, flag, at):
                g = comp.generators[0]
                tmp = fresh(flag + '_item')
                body = [
                    ast.Assign(targets=[ast.Name(id=tmp, ctx=ast.Store())],
                               value=comp.elt, type_comment=None),
                    ast.Assign(targets=[ast.Name(id=flag, ctx=ast.Store())],
                               value=ast.BoolOp(op=ast.Or(), values=[
                                   ast.Name(id=flag, ctx=ast.Load()),
                                   ast.Name(id=tmp, ctx=ast.Load())]),
                               type_comment=None)]
                out = [ast.Assign(
                    targets=[ast.Name(id=flag, ctx=ast.Store())],
                    value=ast.Constant(value=False), type_comment=None),
                    ast.For(target=g.target, iter=g.iter, body=body,
                            orelse=[], type_comment=None)]
                for o in out:
                    ast.copy_location(o, at)
                    ast.fix_missing_locations(o)
                return out

            def plain(comp):
                return isinstance(comp, ast.ListComp) and len(
                    comp.generators) == 1 and not comp.generators[0].ifs \
                    and not comp.generators[0].is_async

            for blk in _blocks(fn):
                i = 0
                while i < len(blk):
                    st = blk[i]
                    i += 1
                    if isinstance(st, ast.If) and isinstance(
                            st.test, ast.Call) and isinstance(
                            st.test.func, ast.Name) and \
                            st.test.func.id == 'any' and len(
                                st.test.args) == 1 and not st.test.keywords:
                        a = st.test.args[0]
                        if plain(a):
                            flag = fresh('any_flag')
                            pre = loop_for(a, flag, st)
                            st.test = ast.copy_location(
                                ast.Name(id=flag, ctx=ast.Load()), st.test)
                            j = blk.index(st)
                            blk[j:j] = pre
                            i = j + len(pre) + 1
                            n += 1
                            continue
                        if isinstance(a, ast.Name):
                            # L = [..] earlier in this block, read only here
                            reads = [m for m in ast.walk(fn) if isinstance(
                                m, ast.Name) and m.id == a.id and isinstance(
                                m.ctx, ast.Load)]
                            stores = [m for m in ast.walk(fn) if isinstance(
                                m, ast.Name) and m.id == a.id and isinstance(
                                m.ctx, ast.Store)]
                            j = blk.index(st)
                            defs = [d for d in blk[:j] if isinstance(
                                d, ast.Assign) and len(d.targets) == 1 and
                                isinstance(d.targets[0], ast.Name) and
                                d.targets[0].id == a.id]
                            if len(reads) == 1 and len(stores) == 1 and \
                                    len(defs) == 1 and plain(defs[0].value):
                                d = defs[0]
                                pre = loop_for(d.value, a.id, d)
                                k = blk.index(d)
                                blk[k:k + 1] = pre
                                st.test = ast.copy_location(
                                    ast.Name(id=a.id, ctx=ast.Load()),
                                    st.test)
                                n += 1
    return n


def filtered_snapshot_loops(trees):
    """``L = [t for t in Y if C]`` directly followed by ``for u in L: B``
    (L read nowhere else) -> ``for u in list(Y): if C[t:=u]: B``.  Only when
    C reads nothing but the element and locals that B does not assign, and
    no attribute of ``self``: then filtering up front and filtering while
    looping select the same elements."""
    n = 0
    for tree in trees.values():
        for fn in _fn_scopes(tree):
            for blk in _blocks(fn):
                i = 0
                while i + 1 < len(blk):
                    d, lp = blk[i], blk[i + 1]
                    i += 1
                    if not (isinstance(d, ast.Assign) and len(d.targets) == 1
                            and isinstance(d.targets[0], ast.Name)
                            and isinstance(d.value, ast.ListComp)
                            and len(d.value.generators) == 1
                            and isinstance(lp, ast.For) and not lp.orelse
                            and isinstance(lp.iter, ast.Name)
                            and lp.iter.id == d.targets[0].id):
                        continue
                    g = d.value.generators[0]
                    if len(g.ifs) != 1 or g.is_async or not isinstance(
                            g.target, ast.Name) or not isinstance(
                            d.value.elt, ast.Name) or \
                            d.value.elt.id != g.target.id or not isinstance(
                                lp.target, ast.Name):
                        continue
                    L = d.targets[0].id
                    uses = [m for m in ast.walk(fn) if isinstance(
                        m, ast.Name) and m.id == L]
                    if len(uses) != 2:
                        continue
                    cond = g.ifs[0]
                    if any(isinstance(m, ast.Attribute) for m in
                           ast.walk(cond)):
                        continue
                    cnames = {m.id for m in ast.walk(cond)
                              if isinstance(m, ast.Name)} - {g.target.id}
                    assigned = {m.id for b in lp.body for m in ast.walk(b)
                                if isinstance(m, ast.Name) and isinstance(
                                    m.ctx, (ast.Store, ast.Del))}
                    if cnames & assigned:
                        continue
                    cond = _Subst({g.target.id: ast.Name(
                        id=lp.target.id, ctx=ast.Load())}, {}).visit(
                        copy.deepcopy(cond))
                    test = ast.If(test=cond, body=lp.body, orelse=[])
                    ast.copy_location(test, lp)
                    lp.body = [test]
                    y = g.iter
                    if not (isinstance(y, ast.Call) and isinstance(
                            y.func, ast.Name) and y.func.id == 'list'):
                        y = ast.Call(func=ast.Name(id='list', ctx=ast.Load()),
                                     args=[y], keywords=[])
                    lp.iter = ast.copy_location(y, lp.iter)
                    ast.fix_missing_locations(lp)
                    blk.remove(d)
                    n += 1
    return n


def split_returned_tuple_temps(trees):
    """``x = (a, f(b), c)`` ... ``return x`` (x assigned once, read once, by
    that return) -> ``x_1 = f(b)`` at the place of the assignment and
    ``return (a, x_1, c)``: the returned tuple is a display again, the
    elements are evaluated where they were."""
    n = 0
    for tree in trees.values():
        for fn in _fn_scopes(tree):
            names = {m.id for m in ast.walk(fn) if isinstance(m, ast.Name)}
            for blk in list(_blocks(fn)):
                for st in list(blk):
                    if not (isinstance(st, ast.Assign) and len(st.targets) == 1
                            and isinstance(st.targets[0], ast.Name)
                            and isinstance(st.value, ast.Tuple)
                            and st.value.elts and not any(
                                isinstance(e, ast.Starred)
                                for e in st.value.elts)):
                        continue
                    x = st.targets[0].id
                    refs = [m for m in ast.walk(fn)
                            if isinstance(m, ast.Name) and m.id == x]
                    loads = [m for m in refs if isinstance(m.ctx, ast.Load)]
                    if len(refs) != 2 or len(loads) != 1:
                        continue
                    rets = [r for r in ast.walk(fn) if isinstance(
                        r, ast.Return) and r.value is loads[0]]
                    if len(rets) != 1:
                        continue
                    stored = {m.id for m in ast.walk(fn) if isinstance(
                        m, ast.Name) and isinstance(m.ctx, ast.Store)}
                    new, elts = [], []
                    for k, e in enumerate(st.value.elts):
                        if isinstance(e, ast.Constant) or (isinstance(
                                e, ast.Name) and sum(
                                1 for m in ast.walk(fn) if isinstance(
                                    m, ast.Name) and m.id == e.id and
                                isinstance(m.ctx, ast.Store)) <= 1):
                            elts.append(e)
                            continue
                        nm = '%s_%d' % (x, k)
                        while nm in names:
                            nm += '_'
                        names.add(nm)
                        a = ast.Assign(targets=[ast.Name(
                            id=nm, ctx=ast.Store())], value=e,
                            type_comment=None)
                        ast.copy_location(a, st)
                        ast.fix_missing_locations(a)
                        new.append(a)
                        elts.append(ast.Name(id=nm, ctx=ast.Load()))
                    j = blk.index(st)
                    blk[j:j + 1] = new or [ast.copy_location(ast.Pass(), st)]
                    rets[0].value = ast.copy_location(
                        ast.Tuple(elts=elts, ctx=ast.Load()), rets[0])
                    ast.fix_missing_locations(rets[0])
                    n += 1
    return n


def rename_copy_temps(trees):
    """``t = ...`` (possibly in several branches) ... ``x = t`` where t is
    not used after this copy and x does not occur before it: t is simply
    called x and the copy is dropped."""
    n = 0
    for tree in trees.values():
        for fn in _fn_scopes(tree):
            changed = True
            while changed:
                changed = False
                order = []

                def visit(node):
                    for ch in ast.iter_child_nodes(node):
                        if isinstance(ch, (ast.FunctionDef, ast.ClassDef,
                                           ast.AsyncFunctionDef, ast.Lambda)):
                            continue
                        # evaluation order: the value of an assignment
                        # comes before its targets
                        order.append(ch)
                        visit(ch)
                visit(fn)
                pos = {id(x): i for i, x in enumerate(order)}
                occ = {}
                for x in order:
                    if isinstance(x, ast.Name):
                        occ.setdefault(x.id, []).append(x)
                params = {a.arg for a in fn.args.args + fn.args.kwonlyargs}
                closed = {y.id for m in ast.walk(fn) if m is not fn and
                          isinstance(m, (ast.FunctionDef, ast.Lambda,
                                         ast.AsyncFunctionDef, ast.ClassDef))
                          for y in ast.walk(m) if isinstance(y, ast.Name)}
                for blk in _blocks(fn):
                    for st in list(blk):
                        if not (isinstance(st, ast.Assign) and
                                len(st.targets) == 1 and
                                isinstance(st.targets[0], ast.Name) and
                                isinstance(st.value, ast.Name)):
                            continue
                        x, t = st.targets[0].id, st.value.id
                        if x == t or x in params or x in closed or \
                                t in closed:
                            continue
                        to = occ.get(t, [])
                        # t must be a local of this function
                        if t not in params and not any(
                                isinstance(m.ctx, ast.Store) for m in to):
                            continue
                        here = pos.get(id(st))
                        if here is None:
                            continue
                        # t is not used after the copy
                        if any(pos[id(m)] > pos[id(st.value)] for m in to):
                            continue
                        if any(pos[id(m)] < here for m in occ.get(x, [])):
                            continue
                        # a loop around the copy would carry x back up
                        if any(isinstance(a, (ast.For, ast.While))
                               and any(m is st for m in ast.walk(a))
                               and not all(any(m2 is q for q in ast.walk(a))
                                           for m2 in to)
                               for a in order):
                            continue
                        if t in params:
                            # the parameter keeps its name
                            for m in occ.get(x, []):
                                m.id = t
                        else:
                            for m in to:
                                m.id = x
                        if len(blk) > 1:
                            blk.remove(st)
                        else:
                            blk[0] = ast.copy_location(ast.Pass(), st)
                        n += 1
                        changed = True
                        break
                    if changed:
                        break
    return n


def key_loops_inline_reads(trees):
    """``for k in d: ... d[k] ...`` (d a plain name that the body neither
    re-binds nor stores into; every use of d in the body is the read
    ``d[k]``) -> ``for k, d_value in d.items(): ... d_value ...``."""
    n = 0
    for tree in trees.values():
        for fn in _fn_scopes(tree):
            names = {m.id for m in ast.walk(fn) if isinstance(m, ast.Name)}
            for loop in ast.walk(fn):
                if not isinstance(loop, ast.For) or not isinstance(
                        loop.target, ast.Name) or loop.orelse:
                    continue
                d = loop.iter
                if isinstance(d, ast.Call) and isinstance(
                        d.func, ast.Attribute) and d.func.attr == 'keys' \
                        and not d.args:
                    d = d.func.value
                if not isinstance(d, ast.Name):
                    continue
                k = loop.target.id
                parents = {}
                for b in loop.body:
                    for m in ast.walk(b):
                        for c in ast.iter_child_nodes(m):
                            parents[c] = m
                uses = [m for b in loop.body for m in ast.walk(b)
                        if isinstance(m, ast.Name) and m.id == d.id]
                if not uses:
                    continue
                reads = []
                ok = True
                for u in uses:
                    p = parents.get(u)
                    if isinstance(p, ast.Subscript) and p.value is u and \
                            isinstance(p.ctx, ast.Load) and isinstance(
                                p.slice, ast.Name) and p.slice.id == k:
                        reads.append(p)
                    else:
                        ok = False
                if not ok or any(
                        isinstance(m, ast.Name) and m.id == k and
                        not isinstance(m.ctx, ast.Load)
                        for b in loop.body for m in ast.walk(b)):
                    continue
                v = d.id + '_value'
                while v in names:
                    v += '_'
                names.add(v)
                for r in reads:
                    new = ast.copy_location(ast.Name(id=v, ctx=ast.Load()), r)
                    gp = parents.get(r)
                    if gp is None:
                        # the read is itself a statement's direct child
                        for b in loop.body:
                            _replace_node(b, r, new)
                        continue
                    for f2, val in ast.iter_fields(gp):
                        if val is r:
                            setattr(gp, f2, new)
                        elif isinstance(val, list):
                            for j, y in enumerate(val):
                                if y is r:
                                    val[j] = new
                loop.target = ast.copy_location(ast.Tuple(
                    elts=[ast.Name(id=k, ctx=ast.Store()),
                          ast.Name(id=v, ctx=ast.Store())],
                    ctx=ast.Store()), loop.target)
                loop.iter = ast.copy_location(ast.Call(
                    func=ast.Attribute(value=ast.Name(id=d.id, ctx=ast.Load()),
                                       attr='items', ctx=ast.Load()),
                    args=[], keywords=[]), loop.iter)
                ast.fix_missing_locations(loop.target)
                ast.fix_missing_locations(loop.iter)
                n += 1
    return n


def list_iadd_to_extend(trees):
    """``x += E`` where x is a local whose every plain assignment is a list
    display or list comprehension -> ``x.extend(E)``."""
    n = 0
    for tree in trees.values():
        for fn in _fn_scopes(tree):
            assigns = {}
            for m in ast.walk(fn):
                if isinstance(m, (ast.Assign, ast.AnnAssign)):
                    tg = m.targets if isinstance(m, ast.Assign) else [
                        m.target]
                    for t in tg:
                        for y in ast.walk(t):
                            if isinstance(y, ast.Name):
                                assigns.setdefault(y.id, []).append(
                                    m.value if t is y else None)
                elif isinstance(m, (ast.For, ast.comprehension)):
                    for y in ast.walk(m.target):
                        if isinstance(y, ast.Name):
                            assigns.setdefault(y.id, []).append(None)
            params = {a.arg for a in fn.args.args + fn.args.kwonlyargs}
            for blk in _blocks(fn):
                for j, st in enumerate(blk):
                    if isinstance(st, ast.AugAssign) and isinstance(
                            st.op, ast.Add) and isinstance(
                            st.target, ast.Name):
                        x = st.target.id
                        vals = assigns.get(x)
                        if not vals or x in params or not all(
                                isinstance(v, (ast.List, ast.ListComp))
                                for v in vals):
                            continue
                        call = ast.Expr(value=ast.Call(
                            func=ast.Attribute(
                                value=ast.Name(id=x, ctx=ast.Load()),
                                attr='extend', ctx=ast.Load()),
                            args=[st.value], keywords=[]))
                        ast.copy_location(call, st)
                        ast.fix_missing_locations(call)
                        blk[j] = call
                        n += 1
    return n


def hoist_common_branch_tail(trees):
    """``if c: A; S else: B; S`` (the same last statement in both branches,
    not a control transfer) -> ``if c: A else: B`` followed by ``S``."""
    n = 0
    for tree in trees.values():
        for fn in _fn_scopes(tree):
            for blk in _blocks(fn):
                j = 0
                while j < len(blk):
                    st = blk[j]
                    j += 1
                    if not (isinstance(st, ast.If) and st.body and st.orelse):
                        continue
                    a, b = st.body[-1], st.orelse[-1]
                    if isinstance(a, (ast.Return, ast.Raise, ast.Continue,
                                      ast.Break, ast.Pass, ast.If, ast.For,
                                      ast.While, ast.Try, ast.With)):
                        continue
                    if ast.dump(a) != ast.dump(b):
                        continue
                    st.body = st.body[:-1] or [ast.copy_location(
                        ast.Pass(), a)]
                    st.orelse = st.orelse[:-1]
                    if not st.orelse and len(st.body) == 1 and isinstance(
                            st.body[0], ast.Pass):
                        # nothing left: only the test is evaluated
                        blk[j - 1] = ast.copy_location(
                            ast.Expr(value=st.test), st)
                    elif len(st.body) == 1 and isinstance(
                            st.body[0], ast.Pass) and st.orelse:
                        st.test = ast.copy_location(ast.UnaryOp(
                            op=ast.Not(), operand=st.test), st.test)
                        st.body, st.orelse = st.orelse, []
                    blk.insert(j, a)
                    j -= 1      # look at the same `if` again
                    n += 1
    return n


def dict_store_loops_to_comprehensions(trees):
    """``x = {}`` directly followed by ``for T in Y: [if C:] x[K] = V`` (the
    whole loop body; K, V, C do not read x) -> ``x = {K: V for T in Y [if
    C]}``."""
    n = 0
    for tree in trees.values():
        for fn in _fn_scopes(tree):
            for blk in _blocks(fn):
                i = 0
                while i + 1 < len(blk):
                    d, lp = blk[i], blk[i + 1]
                    i += 1
                    if not (isinstance(d, (ast.Assign, ast.AnnAssign)) and
                            isinstance(d.value, ast.Dict) and
                            not d.value.keys and isinstance(lp, ast.For)
                            and not lp.orelse and len(lp.body) == 1):
                        continue
                    tg = d.targets[0] if isinstance(d, ast.Assign) and len(
                        d.targets) == 1 else getattr(d, 'target', None)
                    if not isinstance(tg, ast.Name):
                        continue
                    x = tg.id
                    inner, conds = lp.body[0], []
                    while isinstance(inner, ast.If) and not inner.orelse \
                            and len(inner.body) == 1:
                        conds.append(inner.test)
                        inner = inner.body[0]
                    if not (isinstance(inner, ast.Assign) and
                            len(inner.targets) == 1 and isinstance(
                                inner.targets[0], ast.Subscript) and
                            isinstance(inner.targets[0].value, ast.Name)
                            and inner.targets[0].value.id == x):
                        continue
                    K, V = inner.targets[0].slice, inner.value
                    if any(isinstance(m, ast.Name) and m.id == x
                           for e in [K, V, lp.iter] + conds
                           for m in ast.walk(e)):
                        continue
                    comp = ast.DictComp(key=K, value=V, generators=[
                        ast.comprehension(target=lp.target, iter=lp.iter,
                                          ifs=conds, is_async=0)])
                    d.value = ast.copy_location(comp, d.value)
                    ast.fix_missing_locations(d)
                    blk.remove(lp)
                    n += 1
    return n


def ifexp_tests_to_boolops(trees):
    """In the test of an ``if``/``while``: ``A if c else False`` -> ``c and
    A``; ``True if c else B`` -> ``c or B``; ``False if c else B`` -> ``not
    c and B``; ``A if c else True`` -> ``not c or A``; ``not not x`` ->
    ``x``.  (Truthiness is all a test looks at.)"""
    n = 0

    def const(e, v):
        return isinstance(e, ast.Constant) and e.value is v

    def neg(c):
        if isinstance(c, ast.UnaryOp) and isinstance(c.op, ast.Not):
            return c.operand
        return ast.copy_location(ast.UnaryOp(op=ast.Not(), operand=c), c)

    def fix(e):
        nonlocal n
        if isinstance(e, ast.UnaryOp) and isinstance(e.op, ast.Not):
            e.operand = fix(e.operand)
            if isinstance(e.operand, ast.UnaryOp) and isinstance(
                    e.operand.op, ast.Not):
                n += 1
                return e.operand.operand
            return e
        if isinstance(e, ast.BoolOp):
            e.values = [fix(v) for v in e.values]
            return e
        if isinstance(e, ast.IfExp):
            c, a, b = fix(e.test), fix(e.body), fix(e.orelse)
            new = None
            if const(b, False):
                new = ast.BoolOp(op=ast.And(), values=[c, a])
            elif const(a, True):
                new = ast.BoolOp(op=ast.Or(), values=[c, b])
            elif const(a, False):
                new = ast.BoolOp(op=ast.And(), values=[neg(c), b])
            elif const(b, True):
                new = ast.BoolOp(op=ast.Or(), values=[neg(c), a])
            if new is not None:
                n += 1
                ast.copy_location(new, e)
                ast.fix_missing_locations(new)
                return new
            e.test, e.body, e.orelse = c, a, b
        return e

    for tree in trees.values():
        for node in ast.walk(tree):
            if isinstance(node, (ast.If, ast.While)):
                node.test = fix(node.test)
    return n


def _literal_dict_locals(fn):
    """{name: Assign} for locals bound exactly once, to a dictionary
    display with constant string keys (at most 8) or to a dictionary
    comprehension that was expanded to one, and used only as ``D[...]``,
    ``D.items()/keys()/values()`` or as the iterable of a loop or
    comprehension."""
    stores = {}
    for m in ast.walk(fn):
        if isinstance(m, ast.Name) and isinstance(m.ctx, (ast.Store,
                                                          ast.Del)):
            stores[m.id] = stores.get(m.id, 0) + 1
    params = {a.arg for a in fn.args.args + fn.args.kwonlyargs}
    parents = {}
    for m in ast.walk(fn):
        for c in ast.iter_child_nodes(m):
            parents[c] = m
    out = {}
    for st in ast.walk(fn):
        if not (isinstance(st, (ast.Assign, ast.AnnAssign)) and isinstance(
                st.value, ast.Dict) and st.value.keys and len(
                st.value.keys) <= 8 and all(
                isinstance(k, ast.Constant) and isinstance(k.value, str)
                for k in st.value.keys)):
            continue
        tg = st.targets[0] if isinstance(st, ast.Assign) and len(
            st.targets) == 1 else getattr(st, 'target', None)
        if not isinstance(tg, ast.Name) or stores.get(tg.id) != 1 or \
                tg.id in params:
            continue
        if len({k.value for k in st.value.keys}) != len(st.value.keys):
            continue
        ok = True
        for m in ast.walk(fn):
            if not (isinstance(m, ast.Name) and m.id == tg.id
                    and m is not tg):
                continue
            p = parents.get(m)
            if isinstance(p, ast.Subscript) and p.value is m:
                continue
            if isinstance(p, ast.Attribute) and p.attr in (
                    'items', 'keys', 'values') and isinstance(
                    parents.get(p), ast.Call) and parents[p].func is p:
                gp = parents.get(parents[p])
                if isinstance(gp, (ast.For, ast.comprehension)) and \
                        gp.iter is parents[p]:
                    continue
            if isinstance(p, (ast.For, ast.comprehension)) and p.iter is m:
                continue
            ok = False
            break
        if ok:
            out[tg.id] = st
    return out


def partial_eval_literal_dicts(trees):
    """Data-driven code over a literal dictionary of parts is specialised:
    ``D = {'a': x, 'b': y}`` (never re-bound, used only through ``D[k]`` and
    loops over it) - loops and comprehensions over D are unrolled with the
    constant keys, then ``D['a']`` becomes the local ``D_a``.  Together with
    ``getattr(o, 'name')`` -> ``o.name`` and folding of comparisons between
    constants this turns "one loop over the parts" back into the
    statement-per-part form the rules read."""
    n = 0
    for tree in trees.values():
        for fn in _fn_scopes(tree):
            for _round in range(6):
                lits = _literal_dict_locals(fn)
                if not lits:
                    break
                changed = False
                # 1. comprehensions over D -> displays
                for comp in [m for m in ast.walk(fn) if isinstance(
                        m, (ast.DictComp, ast.ListComp))]:
                    if len(comp.generators) != 1 or comp.generators[0].ifs:
                        continue
                    g = comp.generators[0]
                    it = _iter_of_literal(g.iter, lits)
                    if it is None:
                        continue
                    D, kind = it
                    binds = _bindings(g.target, D, kind, lits)
                    if binds is None:
                        continue
                    if isinstance(comp, ast.DictComp):
                        keys, vals = [], []
                        for b in binds:
                            sub = _Subst(b, {})
                            keys.append(sub.visit(copy.deepcopy(comp.key)))
                            vals.append(sub.visit(copy.deepcopy(comp.value)))
                        new = ast.Dict(keys=keys, values=vals)
                    else:
                        new = ast.List(elts=[_Subst(b, {}).visit(
                            copy.deepcopy(comp.elt)) for b in binds],
                            ctx=ast.Load())
                    ast.copy_location(new, comp)
                    ast.fix_missing_locations(new)
                    _replace_node(fn, comp, new)
                    changed = True
                    n += 1
                    break
                if changed:
                    continue
                # 2. loops over D -> unrolled
                for blk in _blocks(fn):
                    for st in list(blk):
                        if not (isinstance(st, ast.For) and not st.orelse):
                            continue
                        it = _iter_of_literal(st.iter, lits)
                        if it is None:
                            continue
                        D, kind = it
                        binds = _bindings(st.target, D, kind, lits)
                        if binds is None:
                            continue
                        tn = {m.id for m in ast.walk(st.target)
                              if isinstance(m, ast.Name)}
                        inner = [m for b in st.body for m in ast.walk(b)]
                        if any(isinstance(m, (ast.Break, ast.Continue,
                                              ast.Lambda, ast.FunctionDef))
                               for m in inner):
                            continue
                        if any(isinstance(m, ast.Name) and m.id in tn and
                               not isinstance(m.ctx, ast.Load)
                               for m in inner):
                            continue
                        used_after = any(
                            isinstance(m, ast.Name) and m.id in tn
                            for y in blk[blk.index(st) + 1:]
                            for m in ast.walk(y))
                        if used_after:
                            continue
                        new = []
                        for b in binds:
                            sub = _Subst(b, {})
                            new += [sub.visit(copy.deepcopy(x))
                                    for x in st.body]
                        k = blk.index(st)
                        blk[k:k + 1] = new
                        changed = True
                        n += 1
                        break
                    if changed:
                        break
                if changed:
                    continue
                # 3. D used only as D['const'] -> scalars
                for D, st in lits.items():
                    uses = [m for m in ast.walk(fn) if isinstance(
                        m, ast.Subscript) and isinstance(m.value, ast.Name)
                        and m.value.id == D]
                    others = [m for m in ast.walk(fn) if isinstance(
                        m, ast.Name) and m.id == D]
                    keys = [k.value for k in st.value.keys]
                    if len(others) != len(uses) + 1 or not all(
                            isinstance(u.slice, ast.Constant) and
                            u.slice.value in keys for u in uses):
                        continue
                    names = {m.id for m in ast.walk(fn)
                             if isinstance(m, ast.Name)}
                    loc = {}
                    for k in keys:
                        nm = '%s_%s' % (D, k)
                        while nm in names:
                            nm += '_'
                        names.add(nm)
                        loc[k] = nm
                    for u in uses:
                        new = ast.copy_location(ast.Name(
                            id=loc[u.slice.value], ctx=u.ctx), u)
                        _replace_node(fn, u, new)
                    repl = []
                    for k, v in zip(keys, st.value.values):
                        a = ast.Assign(targets=[ast.Name(
                            id=loc[k], ctx=ast.Store())], value=v,
                            type_comment=None)
                        ast.copy_location(a, st)
                        ast.fix_missing_locations(a)
                        repl.append(a)
                    for blk in _blocks(fn):
                        if st in blk:
                            j = blk.index(st)
                            blk[j:j + 1] = repl
                            break
                    changed = True
                    n += 1
                    break
                if not changed:
                    break
    return n


def _iter_of_literal(it, lits):
    """(D, 'keys'|'items'|'values') when ``it`` iterates a literal dict."""
    if isinstance(it, ast.Name) and it.id in lits:
        return it.id, 'keys'
    if isinstance(it, ast.Call) and isinstance(it.func, ast.Attribute) and \
            isinstance(it.func.value, ast.Name) and \
            it.func.value.id in lits and not it.args and it.func.attr in (
                'keys', 'items', 'values'):
        return it.func.value.id, it.func.attr
    if isinstance(it, ast.Call) and isinstance(it.func, ast.Name) and \
            it.func.id in ('list', 'tuple', 'sorted') and len(
                it.args) == 1 and not it.keywords and it.func.id != 'sorted':
        return _iter_of_literal(it.args[0], lits)
    return None


def _bindings(target, D, kind, lits):
    """One {target name: expression} mapping per entry of the literal."""
    keys = [k for k in lits[D].value.keys]

    def val(k):
        return ast.Subscript(value=ast.Name(id=D, ctx=ast.Load()),
                             slice=ast.Constant(value=k.value),
                             ctx=ast.Load())
    out = []
    for k in keys:
        if kind == 'keys' and isinstance(target, ast.Name):
            out.append({target.id: ast.Constant(value=k.value)})
        elif kind == 'values' and isinstance(target, ast.Name):
            out.append({target.id: val(k)})
        elif kind == 'items' and isinstance(target, ast.Tuple) and len(
                target.elts) == 2 and all(isinstance(e, ast.Name)
                                          for e in target.elts):
            out.append({target.elts[0].id: ast.Constant(value=k.value),
                        target.elts[1].id: val(k)})
        else:
            return None
    return out


def fold_constants(trees):
    """``getattr(o, 'name')`` -> ``o.name``; an ``if`` whose test compares
    two constants (after unrolling over literal keys) keeps only the branch
    taken."""
    n = 0
    for tree in trees.values():
        for fn in _fn_scopes(tree):
            for m in list(ast.walk(fn)):
                if isinstance(m, ast.Call) and isinstance(
                        m.func, ast.Name) and m.func.id == 'getattr' and \
                        len(m.args) == 2 and not m.keywords and isinstance(
                            m.args[1], ast.Constant) and isinstance(
                            m.args[1].value, str) and \
                        m.args[1].value.isidentifier():
                    new = ast.copy_location(ast.Attribute(
                        value=m.args[0], attr=m.args[1].value,
                        ctx=ast.Load()), m)
                    _replace_node(fn, m, new)
                    n += 1
            # constant operands of and/or in tests: `c and False` -> False,
            # `c or True` -> True (c has no call), `c and True` -> c
            for m in ast.walk(fn):
                if isinstance(m, (ast.If, ast.While)) and isinstance(
                        m.test, ast.BoolOp):
                    b = m.test
                    is_and = isinstance(b.op, ast.And)
                    absorbing = [v for v in b.values if isinstance(
                        v, ast.Constant) and bool(v.value) != is_and]
                    if absorbing and _no_calls(b):
                        m.test = ast.copy_location(ast.Constant(
                            value=not is_and), b)
                        n += 1
                    else:
                        keep_v = [v for v in b.values if not (
                            isinstance(v, ast.Constant) and
                            bool(v.value) == is_and)]
                        if keep_v and len(keep_v) < len(b.values):
                            m.test = keep_v[0] if len(keep_v) == 1 else \
                                ast.copy_location(ast.BoolOp(
                                    op=b.op, values=keep_v), b)
                            n += 1
            for blk in _blocks(fn):
                for st in list(blk):
                    if isinstance(st, ast.While) and isinstance(
                            st.test, ast.Constant) and not st.test.value \
                            and not st.orelse:
                        blk[blk.index(st)] = ast.copy_location(
                            ast.Pass(), st)
                        n += 1
                        continue
                    if isinstance(st, ast.If) and isinstance(
                            st.test, ast.Constant):
                        keep = st.body if st.test.value else st.orelse
                        j = blk.index(st)
                        blk[j:j + 1] = keep or [ast.copy_location(
                            ast.Pass(), st)]
                        n += 1
                        continue
                    if not (isinstance(st, ast.If) and isinstance(
                            st.test, ast.Compare) and len(
                            st.test.ops) == 1 and isinstance(
                            st.test.left, ast.Constant) and isinstance(
                            st.test.comparators[0], ast.Constant) and
                            isinstance(st.test.ops[0], (ast.Eq, ast.NotEq))):
                        continue
                    eq = st.test.left.value == st.test.comparators[0].value
                    take = eq == isinstance(st.test.ops[0], ast.Eq)
                    keep = st.body if take else st.orelse
                    j = blk.index(st)
                    blk[j:j + 1] = keep or [ast.copy_location(
                        ast.Pass(), st)]
                    n += 1
    return n


def split_reassigned_locals(trees):
    """A local that is assigned several times by plain statements of one
    block and only used in that block after its first assignment (a
    recycled temporary) gets one name per assignment."""
    n = 0
    for tree in trees.values():
        for fn in _fn_scopes(tree):
            params = {a.arg for a in fn.args.args + fn.args.kwonlyargs}
            closed = {y.id for m in ast.walk(fn) if m is not fn and
                      isinstance(m, (ast.FunctionDef, ast.Lambda,
                                     ast.AsyncFunctionDef, ast.ClassDef))
                      for y in ast.walk(m) if isinstance(y, ast.Name)}
            names = {m.id for m in ast.walk(fn) if isinstance(m, ast.Name)}
            total = {}
            for m in ast.walk(fn):
                if isinstance(m, ast.Name):
                    total[m.id] = total.get(m.id, 0) + 1
            for blk in _blocks(fn):
                defs = {}
                for i, st in enumerate(blk):
                    if isinstance(st, ast.Assign) and len(
                            st.targets) == 1 and isinstance(
                            st.targets[0], ast.Name):
                        defs.setdefault(st.targets[0].id, []).append(i)
                for t, idx in defs.items():
                    if len(idx) < 2 or t in params or t in closed:
                        continue
                    occ = [(i, m) for i, st in enumerate(blk)
                           for m in ast.walk(st)
                           if isinstance(m, ast.Name) and m.id == t]
                    if len(occ) != total.get(t):
                        continue        # used outside this block
                    stores = [(i, m) for i, m in occ
                              if not isinstance(m.ctx, ast.Load)]
                    if len(stores) != len(idx):
                        continue        # stored inside nested statements
                    # no read before (or in) the first assignment
                    if any(i < idx[0] or (i == idx[0] and isinstance(
                            m.ctx, ast.Load)) for i, m in occ):
                        continue
                    for k, start in enumerate(idx[1:], 1):
                        nm = '%s_%d' % (t, k + 1)
                        while nm in names:
                            nm += '_'
                        names.add(nm)
                        end = idx[k + 1] if k + 1 < len(idx) else len(blk)
                        for i, m in occ:
                            if i == start and not isinstance(
                                    m.ctx, ast.Load):
                                m.id = nm
                            elif start < i < end:
                                m.id = nm
                            elif i == end and end < len(blk) and isinstance(
                                    m.ctx, ast.Load):
                                m.id = nm   # right-hand side of the next
                    n += 1
    return n


def split_concat_loops(trees):
    """``for T in A + B: body`` (A, B plain names, the body has no
    break/continue and binds neither) -> ``for T in A: body`` followed by
    ``for T in B: body``."""
    n = 0
    for tree in trees.values():
        for fn in _fn_scopes(tree):
            for blk in _blocks(fn):
                for st in list(blk):
                    if not (isinstance(st, ast.For) and not st.orelse and
                            isinstance(st.iter, ast.BinOp) and isinstance(
                                st.iter.op, ast.Add) and isinstance(
                                st.iter.left, ast.Name) and isinstance(
                                st.iter.right, ast.Name)):
                        continue
                    a, b = st.iter.left.id, st.iter.right.id
                    inner = [m for x in st.body for m in ast.walk(x)]
                    if any(isinstance(m, (ast.Break, ast.Continue))
                           for m in inner) or any(
                            isinstance(m, ast.Name) and m.id in (a, b) and
                            not isinstance(m.ctx, ast.Load) for m in inner):
                        continue
                    second = copy.deepcopy(st)
                    st.iter = st.iter.left
                    second.iter = second.iter.right
                    blk.insert(blk.index(st) + 1, second)
                    n += 1
    return n


def unnegate_ifs(trees):
    """``if not c: A else: B`` -> ``if c: B else: A`` (both branches
    present, no elif chain involved)."""
    n = 0
    for tree in trees.values():
        for node in ast.walk(tree):
            if isinstance(node, ast.If) and node.orelse and isinstance(
                    node.test, ast.UnaryOp) and isinstance(
                    node.test.op, ast.Not) and not (
                    len(node.orelse) == 1 and isinstance(
                        node.orelse[0], ast.If)):
                node.test = node.test.operand
                node.body, node.orelse = node.orelse, node.body
                n += 1
    return n


_SCOPES = {}


def _fn_scopes(tree):
    """Function definitions of a module (cached per tree: the passes never
    add or remove function definitions)."""
    k = id(tree)
    hit = _SCOPES.get(k)
    if hit is None or hit[0] is not tree:
        hit = (tree, [n for n in ast.walk(tree) if isinstance(
            n, (ast.FunctionDef, ast.AsyncFunctionDef))])
        _SCOPES[k] = hit
    return hit[1]


def _blocks(fn):
    """Every statement list inside ``fn`` (not descending into nested
    function or class definitions)."""
    stack = [fn]
    while stack:
        n = stack.pop()
        for f in ('body', 'orelse', 'finalbody'):
            lst = getattr(n, f, None)
            if isinstance(lst, list) and lst and isinstance(
                    lst[0], ast.stmt):
                yield lst
                for s in lst:
                    if not isinstance(s, (ast.FunctionDef, ast.ClassDef,
                                          ast.AsyncFunctionDef)):
                        stack.append(s)
        if isinstance(n, ast.Try):
            for h in n.handlers:
                stack.append(h)
        if hasattr(n, 'cases'):
            for c in n.cases:
                stack.append(c)


def _header_exprs(st):
    if isinstance(st, (ast.Expr, ast.Return)):
        return [st.value] if st.value is not None else []
    if isinstance(st, ast.Assign):
        return [st.value] + list(st.targets)
    if isinstance(st, ast.AugAssign):
        return [st.value, st.target]
    if isinstance(st, ast.AnnAssign):
        return ([st.value] if st.value is not None else []) + [st.target]
    if isinstance(st, ast.If):
        return [st.test]
    if isinstance(st, ast.For):
        return [st.iter]
    if isinstance(st, ast.Raise):
        return [x for x in (st.exc, st.cause) if x is not None]
    if isinstance(st, ast.Assert):
        return [st.test]
    return []


def inline_single_use_temps(trees):
    """``t = e`` immediately followed by the only statement that reads ``t``
    (once, outside lambdas and comprehensions) -> ``e`` in place of ``t``;
    ``t = e; return t`` -> ``return e`` whatever else is called t."""
    total = 0
    for tree in trees.values():
        for fn in _fn_scopes(tree):
            for blk in _blocks(fn):
                i = 0
                while i + 1 < len(blk):
                    s, nxt = blk[i], blk[i + 1]
                    i += 1
                    if isinstance(s, ast.Assign) and len(s.targets) == 1 \
                            and isinstance(s.targets[0], ast.Name) and \
                            isinstance(nxt, ast.Return) and isinstance(
                                nxt.value, ast.Name) and \
                            nxt.value.id == s.targets[0].id:
                        nxt.value = s.value
                        blk.remove(s)
                        i -= 1
                        total += 1
            params = {a.arg for a in fn.args.args + fn.args.kwonlyargs
                      + fn.args.posonlyargs}
            if fn.args.vararg:
                params.add(fn.args.vararg.arg)
            if fn.args.kwarg:
                params.add(fn.args.kwarg.arg)
            for _round in range(6):
                stores, loads, banned = {}, {}, set(params)
                for n in ast.walk(fn):
                    if isinstance(n, ast.Name):
                        if isinstance(n.ctx, ast.Load):
                            loads[n.id] = loads.get(n.id, 0) + 1
                        else:
                            stores[n.id] = stores.get(n.id, 0) + 1
                    elif isinstance(n, (ast.Global, ast.Nonlocal)):
                        banned |= set(n.names)
                    elif isinstance(n, ast.ExceptHandler) and n.name:
                        banned.add(n.name)
                    elif n is not fn and isinstance(
                            n, (ast.FunctionDef, ast.AsyncFunctionDef,
                                ast.Lambda, ast.ClassDef)):
                        # names touched in nested scopes are left alone
                        for m in ast.walk(n):
                            if isinstance(m, ast.Name):
                                banned.add(m.id)
                            elif isinstance(m, ast.arg):
                                banned.add(m.arg)
                changed = False
                for blk in _blocks(fn):
                    i = 0
                    while i + 1 < len(blk):
                        s, nxt = blk[i], blk[i + 1]
                        i += 1
                        if not (isinstance(s, ast.Assign)
                                and len(s.targets) == 1
                                and isinstance(s.targets[0], ast.Name)):
                            continue
                        t = s.targets[0].id
                        if t in banned or stores.get(t) != 1 or \
                                loads.get(t) != 1:
                            continue
                        if any(isinstance(x, (ast.Yield, ast.YieldFrom,
                                              ast.Await, ast.NamedExpr,
                                              ast.Lambda))
                               for x in ast.walk(s.value)):
                            continue
                        # the single read must sit in the header of nxt,
                        # outside comprehensions
                        hit = None
                        pure = _no_calls(s.value)
                        for e in _header_exprs(nxt):
                            # (node, parent, field, index, conditionally
                            # evaluated?)
                            stack = [(e, None, None, None, False)]
                            while stack:
                                x, par, fld, idx, cnd = stack.pop()
                                if isinstance(x, (ast.ListComp, ast.SetComp,
                                                  ast.DictComp,
                                                  ast.GeneratorExp,
                                                  ast.Lambda)):
                                    continue
                                if isinstance(x, ast.Name) and x.id == t \
                                        and isinstance(x.ctx, ast.Load):
                                    hit = (x, par, fld, idx, cnd)
                                for f2, v in ast.iter_fields(x):
                                    if isinstance(v, ast.AST):
                                        c2 = cnd or (isinstance(
                                            x, ast.IfExp) and f2 in (
                                            'body', 'orelse'))
                                        stack.append((v, x, f2, None, c2))
                                    elif isinstance(v, list):
                                        for j, y in enumerate(v):
                                            if not isinstance(y, ast.AST):
                                                continue
                                            c2 = cnd or (isinstance(
                                                x, ast.BoolOp) and j > 0
                                            ) or (isinstance(
                                                x, ast.Compare) and
                                                f2 == 'comparators'
                                                and j > 0)
                                            stack.append((y, x, f2, j, c2))
                        if hit is None:
                            continue
                        x, par, fld, idx, cnd = hit
                        if cnd and not pure:
                            continue        # would become conditional
                        if isinstance(nxt, ast.For) and not pure:
                            continue        # keep phases apart
                        if par is None:
                            # the header expression is the name itself
                            for f2, v in ast.iter_fields(nxt):
                                if v is x:
                                    setattr(nxt, f2, s.value)
                                elif isinstance(v, list):
                                    for j, y in enumerate(v):
                                        if y is x:
                                            v[j] = s.value
                        elif idx is None:
                            setattr(par, fld, s.value)
                        else:
                            getattr(par, fld)[idx] = s.value
                        blk.remove(s)
                        i -= 1
                        changed = True
                        total += 1
                        loads[t] = 0
                if not changed:
                    break
    return total


def _branch_final_assigns(block, name, acc):
    """Collect the assignments ``name = ...`` that end every path through
    ``block``; False when some path does not end in one."""
    if not block:
        return False
    last = block[-1]
    if isinstance(last, ast.Assign) and len(last.targets) == 1 and \
            isinstance(last.targets[0], ast.Name) and \
            last.targets[0].id == name:
        acc.append(last)
        return True
    if isinstance(last, ast.If) and last.orelse:
        return _branch_final_assigns(last.body, name, acc) and \
            _branch_final_assigns(last.orelse, name, acc)
    return False


def sink_branch_temps(trees):
    """``if c: t = A else: t = B`` followed by ``x = t`` (t read nowhere
    else) -> ``if c: x = A else: x = B``; ``x = x`` is dropped and an
    ``if c: pass else: S`` becomes ``if not c: S``."""
    n = 0
    for tree in trees.values():
        for fn in _fn_scopes(tree):
            loads = {}
            for m in ast.walk(fn):
                if isinstance(m, ast.Name) and isinstance(m.ctx, ast.Load):
                    loads[m.id] = loads.get(m.id, 0) + 1
            for blk in _blocks(fn):
                i = 0
                while i + 1 < len(blk):
                    s, nxt = blk[i], blk[i + 1]
                    i += 1
                    if not (isinstance(s, ast.If) and s.orelse and
                            isinstance(nxt, ast.Assign) and
                            len(nxt.targets) == 1 and
                            isinstance(nxt.targets[0], ast.Name) and
                            isinstance(nxt.value, ast.Name)):
                        continue
                    t, x = nxt.value.id, nxt.targets[0].id
                    if loads.get(t) != 1 or t == x:
                        continue
                    acc = []
                    if not _branch_final_assigns([s], t, acc):
                        continue
                    # t must not be assigned anywhere else
                    others = [m for m in ast.walk(fn)
                              if isinstance(m, ast.Name) and m.id == t
                              and isinstance(m.ctx, ast.Store)]
                    if len(others) != len(acc):
                        continue
                    for a in acc:
                        a.targets[0].id = x
                    blk.remove(nxt)
                    n += 1
            # x = x  ->  dropped
            for blk in _blocks(fn):
                for st in list(blk):
                    if isinstance(st, ast.Assign) and len(st.targets) == 1 \
                            and isinstance(st.targets[0], ast.Name) and \
                            isinstance(st.value, ast.Name) and \
                            st.value.id == st.targets[0].id:
                        if len(blk) > 1:
                            blk.remove(st)
                        else:
                            blk[blk.index(st)] = ast.copy_location(
                                ast.Pass(), st)
            # if c: pass else: S  ->  if not c: S
            for m in ast.walk(fn):
                if isinstance(m, ast.If) and m.orelse and len(m.body) == 1 \
                        and isinstance(m.body[0], ast.Pass):
                    m.test = ast.copy_location(
                        ast.UnaryOp(op=ast.Not(), operand=m.test), m.test)
                    m.body, m.orelse = m.orelse, []
    return n


def loop_element_unpacking(trees):
    """``for t in L: a, b = t; ...`` -> ``for a, b in L: ...`` and
    ``for t in L: ... t[0] ... t[1] ...`` (t used only through constant
    indices 0..k-1) -> ``for t_0, t_1 in L: ... t_0 ... t_1 ...``."""
    n = 0
    for tree in trees.values():
        for fn in _fn_scopes(tree):
            fn_names = {m.id for m in ast.walk(fn) if isinstance(m, ast.Name)}
            for loop in ast.walk(fn):
                if not isinstance(loop, ast.For) or not isinstance(
                        loop.target, ast.Name) or not loop.body:
                    continue
                t = loop.target.id
                uses = [m for b in loop.body for m in ast.walk(b)
                        if isinstance(m, ast.Name) and m.id == t]
                outside = sum(1 for m in ast.walk(fn) if isinstance(
                    m, ast.Name) and m.id == t) - len(uses) - 1
                if outside > 0 or not uses:
                    continue
                first = loop.body[0]
                if len(uses) == 1 and isinstance(first, ast.Assign) and \
                        first.value is uses[0] and len(first.targets) == 1 \
                        and isinstance(first.targets[0], ast.Tuple) and all(
                            isinstance(e, ast.Name)
                            for e in first.targets[0].elts) and \
                        len(loop.body) > 1:
                    loop.target = first.targets[0]
                    del loop.body[0]
                    n += 1
                    continue
                # only t[<int>] uses
                parents = {}
                for b in loop.body:
                    for m in ast.walk(b):
                        for c in ast.iter_child_nodes(m):
                            parents[c] = m
                idx = set()
                ok = True
                for u in uses:
                    p = parents.get(u)
                    if isinstance(p, ast.Subscript) and p.value is u and \
                            isinstance(p.slice, ast.Constant) and \
                            isinstance(p.slice.value, int) and \
                            p.slice.value >= 0 and isinstance(
                                p.ctx, ast.Load):
                        idx.add(p.slice.value)
                    else:
                        ok = False
                if not ok or idx != set(range(len(idx))) or len(idx) < 2:
                    continue
                names = []
                for i in sorted(idx):
                    nm = '%s_%d' % (t, i)
                    while nm in fn_names:
                        nm += '_'
                    fn_names.add(nm)
                    names.append(nm)
                for u in uses:
                    p = parents[u]
                    new = ast.copy_location(
                        ast.Name(id=names[p.slice.value], ctx=ast.Load()), p)
                    gp = parents.get(p)
                    if gp is None:
                        continue
                    for f2, v in ast.iter_fields(gp):
                        if v is p:
                            setattr(gp, f2, new)
                        elif isinstance(v, list):
                            for j, y in enumerate(v):
                                if y is p:
                                    v[j] = new
                loop.target = ast.copy_location(ast.Tuple(
                    elts=[ast.Name(id=x, ctx=ast.Store()) for x in names],
                    ctx=ast.Store()), loop.target)
                ast.fix_missing_locations(loop.target)
                n += 1
    return n


def split_parallel_copies(trees):
    """``a, b = x, y`` with simple right-hand sides that do not mention the
    targets -> ``a = x; b = y``."""
    n = 0
    for tree in trees.values():
        for fn in _fn_scopes(tree):
            for blk in _blocks(fn):
                i = 0
                while i < len(blk):
                    st = blk[i]
                    i += 1
                    if not (isinstance(st, ast.Assign) and
                            len(st.targets) == 1 and
                            isinstance(st.targets[0], ast.Tuple) and
                            isinstance(st.value, ast.Tuple) and
                            len(st.targets[0].elts) == len(st.value.elts)
                            and all(isinstance(e, ast.Name)
                                    for e in st.targets[0].elts)
                            and all(_simple(e) for e in st.value.elts)):
                        continue
                    tn = {e.id for e in st.targets[0].elts}
                    vn = {m.id for e in st.value.elts for m in ast.walk(e)
                          if isinstance(m, ast.Name)}
                    if tn & vn:
                        continue
                    new = []
                    for t, v in zip(st.targets[0].elts, st.value.elts):
                        a = ast.Assign(targets=[t], value=v,
                                       type_comment=None)
                        ast.copy_location(a, st)
                        new.append(a)
                    j = blk.index(st)
                    blk[j:j + 1] = new
                    i = j + len(new)
                    n += 1
    return n


def thread_none_tests(trees):
    """``if c: x = None else: ...; x = (a, b)`` directly followed by
    ``if x is not None: T [else: E]`` -> T / E moved into the branches
    whose final assignment decides the test (None constant versus a
    tuple/list/dict display, which is never None)."""
    n = 0

    def known(v):
        if isinstance(v, ast.Constant) and v.value is None:
            return 'none'
        if isinstance(v, (ast.Tuple, ast.List, ast.Dict, ast.Set,
                          ast.ListComp, ast.DictComp, ast.SetComp,
                          ast.JoinedStr)):
            return 'value'
        if isinstance(v, ast.Constant):
            return 'value'
        # the result of arithmetic, of a comparison or of ``not`` is
        # never None
        if isinstance(v, (ast.BinOp, ast.Compare)) or (
                isinstance(v, ast.UnaryOp) and isinstance(
                    v.op, (ast.Not, ast.USub, ast.UAdd))):
            return 'value'
        return None

    def place(block, name, when_none, when_value, whole):
        last = block[-1]
        if isinstance(last, ast.If) and last.orelse and not (
                isinstance(last, ast.Assign)):
            place(last.body, name, when_none, when_value, whole)
            place(last.orelse, name, when_none, when_value, whole)
            return
        k = known(last.value)
        if k is None:
            # undecided here: the test itself moves into the branch
            block.append(copy.deepcopy(whole))
            return
        extra = when_none if k == 'none' else when_value
        block.extend(copy.deepcopy(x) for x in extra)

    for tree in trees.values():
        for fn in _fn_scopes(tree):
            for blk in _blocks(fn):
                i = 0
                while i + 1 < len(blk):
                    s, t = blk[i], blk[i + 1]
                    i += 1
                    if not (isinstance(s, ast.If) and s.orelse and
                            isinstance(t, ast.If)):
                        continue
                    test = t.test
                    neg = False
                    if isinstance(test, ast.UnaryOp) and isinstance(
                            test.op, ast.Not):
                        test, neg = test.operand, True
                    if not (isinstance(test, ast.Compare) and
                            len(test.ops) == 1 and
                            isinstance(test.left, ast.Name) and
                            isinstance(test.comparators[0], ast.Constant)
                            and test.comparators[0].value is None and
                            isinstance(test.ops[0], (ast.Is, ast.IsNot))):
                        continue
                    x = test.left.id
                    acc = []
                    if not _branch_final_assigns([s], x, acc):
                        continue
                    if all(known(a.value) is None for a in acc):
                        continue
                    is_none_test = isinstance(test.ops[0], ast.Is) != neg
                    when_none = t.body if is_none_test else t.orelse
                    when_value = t.orelse if is_none_test else t.body
                    place([s], x, when_none, when_value, t)
                    blk.remove(t)
                    n += 1
                    # x = None that nothing reads any more is dropped
                    inside = {id(m) for m in ast.walk(s)}
                    read_outside = any(
                        isinstance(m, ast.Name) and m.id == x and
                        isinstance(m.ctx, ast.Load) and id(m) not in inside
                        for m in ast.walk(fn))
                    if not read_outside:
                        for a in acc:
                            if known(a.value) != 'none':
                                continue
                            for b2 in _blocks(s):
                                if a in b2:
                                    k = b2.index(a)
                                    later = any(
                                        isinstance(m, ast.Name) and
                                        m.id == x and
                                        isinstance(m.ctx, ast.Load)
                                        for y in b2[k + 1:]
                                        for m in ast.walk(y))
                                    if not later:
                                        if len(b2) > 1:
                                            b2.remove(a)
                                        else:
                                            b2[k] = ast.copy_location(
                                                ast.Pass(), a)
    return n


def ifexp_statements(trees):
    """``return A if c else B`` -> ``if c: return A else: return B`` (the
    same for a plain assignment of a conditional expression)."""
    n = 0
    for tree in trees.values():
        for fn in _fn_scopes(tree):
            for blk in _blocks(fn):
                for k, st in enumerate(list(blk)):
                    v = getattr(st, 'value', None)
                    if not isinstance(v, ast.IfExp):
                        continue
                    if isinstance(st, ast.Return):
                        a = ast.Return(value=v.body)
                        b = ast.Return(value=v.orelse)
                    elif isinstance(st, ast.Assign) and len(
                            st.targets) == 1 and isinstance(
                            st.targets[0], ast.Name):
                        a = ast.Assign(targets=[copy.deepcopy(
                            st.targets[0])], value=v.body,
                            type_comment=None)
                        b = ast.Assign(targets=[copy.deepcopy(
                            st.targets[0])], value=v.orelse,
                            type_comment=None)
                    else:
                        continue
                    new = ast.If(test=v.test, body=[a], orelse=[b])
                    for x in (a, b, new):
                        ast.copy_location(x, st)
                    ast.fix_missing_locations(new)
                    blk[blk.index(st)] = new
                    n += 1
    return n


def _no_calls(e):
    return not any(isinstance(x, (ast.Call, ast.Await, ast.Yield,
                                  ast.YieldFrom, ast.NamedExpr, ast.Lambda,
                                  ast.ListComp, ast.DictComp, ast.SetComp,
                                  ast.GeneratorExp))
                   for x in ast.walk(e))


def expand_update_displays(trees):
    """``X.update({k1: v1, k2: v2})`` as a statement, X without calls ->
    ``X[k1] = v1; X[k2] = v2`` (same order)."""
    n = 0
    for tree in trees.values():
        for fn in _fn_scopes(tree):
            for blk in _blocks(fn):
                for st in list(blk):
                    if not (isinstance(st, ast.Expr) and
                            isinstance(st.value, ast.Call)):
                        continue
                    c = st.value
                    if not (isinstance(c.func, ast.Attribute) and
                            c.func.attr == 'update' and len(c.args) == 1
                            and not c.keywords and
                            isinstance(c.args[0], ast.Dict) and
                            c.args[0].keys and
                            all(k is not None for k in c.args[0].keys)
                            and _no_calls(c.func.value)):
                        continue
                    new = []
                    for k, v in zip(c.args[0].keys, c.args[0].values):
                        a = ast.Assign(targets=[ast.Subscript(
                            value=copy.deepcopy(c.func.value), slice=k,
                            ctx=ast.Store())], value=v, type_comment=None)
                        ast.copy_location(a, st)
                        ast.fix_missing_locations(a)
                        new.append(a)
                    j = blk.index(st)
                    blk[j:j + 1] = new
                    n += 1
    return n


def comprehension_key_loops(trees):
    """``{k: d[k] for k in d if ...}`` -> ``{k: v for k, v in d.items()
    if ...}`` (any comprehension whose only use of ``d`` besides the
    iterable is ``d[k]``)."""
    n = 0
    for tree in trees.values():
        for comp in ast.walk(tree):
            if not isinstance(comp, (ast.ListComp, ast.SetComp, ast.DictComp,
                                     ast.GeneratorExp)):
                continue
            if len(comp.generators) != 1:
                continue
            g = comp.generators[0]
            if not isinstance(g.target, ast.Name) or not _simple(g.iter) \
                    or isinstance(g.iter, ast.Constant):
                continue
            k = g.target.id
            dtxt = ast.dump(g.iter)
            parts = list(g.ifs)
            if isinstance(comp, ast.DictComp):
                parts += [comp.key, comp.value]
            else:
                parts += [comp.elt]
            subs = []
            other = False
            for p in parts:
                for x in ast.walk(p):
                    if isinstance(x, ast.Subscript) and ast.dump(
                            x.value) == dtxt and isinstance(
                            x.slice, ast.Name) and x.slice.id == k:
                        subs.append(x)
            if not subs:
                continue
            allnames = {m.id for m in ast.walk(tree)
                        if isinstance(m, ast.Name)}
            v = k + '_value'
            while v in allnames:
                v += '_'

            class R(ast.NodeTransformer):
                def visit_Subscript(self, node):
                    if any(node is s for s in subs):
                        return ast.copy_location(
                            ast.Name(id=v, ctx=ast.Load()), node)
                    return self.generic_visit(node)
            r = R()
            g.ifs = [r.visit(x) for x in g.ifs]
            if isinstance(comp, ast.DictComp):
                comp.key = r.visit(comp.key)
                comp.value = r.visit(comp.value)
            else:
                comp.elt = r.visit(comp.elt)
            g.target = ast.copy_location(ast.Tuple(
                elts=[ast.Name(id=k, ctx=ast.Store()),
                      ast.Name(id=v, ctx=ast.Store())], ctx=ast.Store()),
                g.target)
            g.iter = ast.copy_location(ast.Call(func=ast.Attribute(
                value=g.iter, attr='items', ctx=ast.Load()), args=[],
                keywords=[]), g.iter)
            ast.fix_missing_locations(comp)
            n += 1
    return n


def propagate_pure_aliases(trees):
    """``t = self.a.b`` / ``t = x['k']`` (a read without calls, t assigned
    once, nothing in the function stores to what was read or to a prefix
    of it) -> every read of ``t`` becomes the expression itself."""
    n = 0
    for tree in trees.values():
        for fn in _fn_scopes(tree):
            params = {a.arg for a in fn.args.args + fn.args.kwonlyargs
                      + fn.args.posonlyargs}
            for _round in range(4):
                stores, store_txt, banned = {}, set(), set()
                for m in ast.walk(fn):
                    if isinstance(m, ast.Name) and not isinstance(
                            m.ctx, ast.Load):
                        stores[m.id] = stores.get(m.id, 0) + 1
                    if isinstance(m, (ast.Attribute, ast.Subscript)) and \
                            not isinstance(m.ctx, ast.Load):
                        store_txt.add(ast.unparse(m))
                    if isinstance(m, (ast.Global, ast.Nonlocal)):
                        banned |= set(m.names)
                    if m is not fn and isinstance(
                            m, (ast.FunctionDef, ast.AsyncFunctionDef,
                                ast.Lambda, ast.ClassDef)):
                        for y in ast.walk(m):
                            if isinstance(y, ast.Name):
                                banned.add(y.id)
                mutated = set()
                for m in ast.walk(fn):
                    if isinstance(m, ast.Call) and isinstance(
                            m.func, ast.Attribute) and m.func.attr in (
                            'pop', 'update', 'clear', 'append', 'remove',
                            'setdefault', 'insert', 'extend', 'popitem',
                            'sort', 'reverse', 'add', 'discard'):
                        mutated.add(ast.unparse(m.func.value))
                    if isinstance(m, ast.Delete):
                        for tg in m.targets:
                            if isinstance(tg, (ast.Subscript,
                                               ast.Attribute)):
                                mutated.add(ast.unparse(tg.value))
                changed = False
                for blk in _blocks(fn):
                    for st in list(blk):
                        if not (isinstance(st, ast.Assign) and
                                len(st.targets) == 1 and
                                isinstance(st.targets[0], ast.Name)):
                            continue
                        t = st.targets[0].id
                        e = st.value
                        if t in banned or t in params or \
                                stores.get(t) != 1:
                            continue
                        is_len = isinstance(e, ast.Call) and isinstance(
                            e.func, ast.Name) and e.func.id == 'len' and \
                            len(e.args) == 1 and not e.keywords and \
                            isinstance(e.args[0], ast.Name) and \
                            e.args[0].id not in mutated and \
                            'len' not in stores
                        if not is_len and (
                                not isinstance(e, (ast.Attribute,
                                                   ast.Subscript))
                                or not _no_calls(e)):
                            continue
                        # prefixes of e, and the names it reads
                        pre, cur = [], (e.args[0] if is_len else e)
                        while isinstance(cur, (ast.Attribute,
                                               ast.Subscript)):
                            pre.append(ast.unparse(cur))
                            cur = cur.value
                        if not isinstance(cur, ast.Name):
                            continue
                        if any(p in store_txt for p in pre):
                            # allowed when every read of the alias comes
                            # before (or in the right-hand side of) the
                            # first statement that stores there
                            k0 = blk.index(st)
                            first_store = None
                            for j in range(k0 + 1, len(blk)):
                                if any(isinstance(m, (ast.Attribute,
                                                      ast.Subscript))
                                       and not isinstance(m.ctx, ast.Load)
                                       and ast.unparse(m) in pre
                                       for m in ast.walk(blk[j])):
                                    first_store = j
                                    break
                            if first_store is None:
                                continue    # stored elsewhere: give up
                            late = False
                            for j in range(first_store, len(blk)):
                                for m in ast.walk(blk[j]):
                                    if isinstance(m, ast.Name) and \
                                            m.id == t and isinstance(
                                                m.ctx, ast.Load):
                                        if j > first_store or not \
                                                isinstance(blk[j],
                                                           ast.Assign):
                                            late = True
                            outside = sum(
                                1 for m in ast.walk(fn)
                                if isinstance(m, ast.Name) and m.id == t
                                and isinstance(m.ctx, ast.Load)) - sum(
                                1 for y in blk for m in ast.walk(y)
                                if isinstance(m, ast.Name) and m.id == t
                                and isinstance(m.ctx, ast.Load))
                            if late or outside:
                                continue
                        names = {m.id for m in ast.walk(e)
                                 if isinstance(m, ast.Name)} - (
                                     {'len'} if is_len else set())
                        if t in names:
                            continue
                        # something along the access path is changed in
                        # place by a method call: leave the local alone
                        # (a Subscript read could see another element)
                        if isinstance(e, ast.Subscript) and (
                                set(pre) | {cur.id}) & mutated:
                            continue
                        # every other name read must be stable: self, a
                        # parameter that is not re-assigned, or a name
                        # assigned once (incl. loop variables)
                        if any(nm != 'self' and stores.get(nm, 0) > 1
                               for nm in names):
                            continue
                        if any(nm in params and stores.get(nm, 0) > 0
                               for nm in names):
                            continue
                        # attribute of self must not be re-bound here
                        reads = [m for m in ast.walk(fn)
                                 if isinstance(m, ast.Name) and m.id == t
                                 and isinstance(m.ctx, ast.Load)]
                        if not reads:
                            continue
                        # replace
                        class R(ast.NodeTransformer):
                            def visit_Name(self, node):
                                if node.id == t and isinstance(
                                        node.ctx, ast.Load):
                                    return ast.copy_location(
                                        copy.deepcopy(e), node)
                                return node
                        r = R()
                        for b2 in _blocks(fn):
                            for j, y in enumerate(b2):
                                if y is not st:
                                    b2[j] = r.visit(y)
                        if len(blk) > 1:
                            blk.remove(st)
                        else:
                            blk[blk.index(st)] = ast.copy_location(
                                ast.Pass(), st)
                        changed = True
                        n += 1
                        break
                    if changed:
                        break
                if not changed:
                    break
    return n


def append_loops_to_comprehensions(trees):
    """``for v in IT: X.append(E)`` (the whole loop body, optionally under
    one ``if``) -> ``X += [E for v in IT (if c)]``; then ``X = []`` directly
    followed by ``X += L`` -> ``X = L``."""
    n = 0
    for tree in trees.values():
        for fn in _fn_scopes(tree):
            for blk in _blocks(fn):
                for st in list(blk):
                    if not (isinstance(st, ast.For) and not st.orelse and
                            len(st.body) == 1):
                        continue
                    inner = st.body[0]
                    conds = []
                    if isinstance(inner, ast.If) and not inner.orelse and \
                            len(inner.body) == 1:
                        conds = [inner.test]
                        inner = inner.body[0]
                    if not (isinstance(inner, ast.Expr) and isinstance(
                            inner.value, ast.Call)):
                        continue
                    c = inner.value
                    if not (isinstance(c.func, ast.Attribute) and
                            c.func.attr == 'append' and
                            isinstance(c.func.value, ast.Name) and
                            len(c.args) == 1 and not c.keywords):
                        continue
                    x = c.func.value.id
                    # the list must not be read by the element or the
                    # iterable (a comprehension would see the old list)
                    if any(isinstance(m, ast.Name) and m.id == x
                           for e in [c.args[0], st.iter] + conds
                           for m in ast.walk(e)):
                        continue
                    comp = ast.ListComp(elt=c.args[0], generators=[
                        ast.comprehension(target=st.target, iter=st.iter,
                                          ifs=conds, is_async=0)])
                    new = ast.Expr(value=ast.Call(func=ast.Attribute(
                        value=ast.Name(id=x, ctx=ast.Load()), attr='extend',
                        ctx=ast.Load()), args=[comp], keywords=[]))
                    ast.copy_location(new, st)
                    ast.fix_missing_locations(new)
                    blk[blk.index(st)] = new
                    n += 1
                # X += [..]  ->  X.extend([..])   (certainly a list)
                for st in list(blk):
                    if isinstance(st, ast.AugAssign) and isinstance(
                            st.op, ast.Add) and isinstance(
                            st.target, ast.Name) and isinstance(
                            st.value, (ast.List, ast.ListComp)):
                        new = ast.Expr(value=ast.Call(func=ast.Attribute(
                            value=ast.Name(id=st.target.id, ctx=ast.Load()),
                            attr='extend', ctx=ast.Load()),
                            args=[st.value], keywords=[]))
                        ast.copy_location(new, st)
                        ast.fix_missing_locations(new)
                        blk[blk.index(st)] = new
                        n += 1
                # X = [] ; X.extend(L)  ->  X = L
                i = 0
                while i + 1 < len(blk):
                    a, b = blk[i], blk[i + 1]
                    i += 1
                    tgt = None
                    if isinstance(a, ast.Assign) and len(a.targets) == 1 \
                            and isinstance(a.targets[0], ast.Name):
                        tgt, val = a.targets[0], a.value
                    elif isinstance(a, ast.AnnAssign) and isinstance(
                            a.target, ast.Name) and a.value is not None:
                        tgt, val = a.target, a.value
                    if tgt is None or not (isinstance(val, ast.List) and
                                           not val.elts):
                        continue
                    if isinstance(b, ast.Expr) and isinstance(
                            b.value, ast.Call) and isinstance(
                            b.value.func, ast.Attribute) and \
                            b.value.func.attr == 'extend' and isinstance(
                            b.value.func.value, ast.Name) and \
                            b.value.func.value.id == tgt.id and \
                            len(b.value.args) == 1 and isinstance(
                            b.value.args[0], (ast.ListComp, ast.List)):
                        new = ast.Assign(targets=[ast.Name(
                            id=tgt.id, ctx=ast.Store())],
                            value=b.value.args[0], type_comment=None)
                        ast.copy_location(new, b)
                        ast.fix_missing_locations(new)
                        blk[i - 1:i + 1] = [new]
                        i -= 1
                        n += 1
    return n


def or_assignments(trees):
    """``if not x: x = e`` (no else) -> ``x = x or e``."""
    n = 0
    for tree in trees.values():
        for fn in _fn_scopes(tree):
            for blk in _blocks(fn):
                for k, st in enumerate(list(blk)):
                    if not (isinstance(st, ast.If) and not st.orelse and
                            len(st.body) == 1 and
                            isinstance(st.test, ast.UnaryOp) and
                            isinstance(st.test.op, ast.Not) and
                            isinstance(st.test.operand, ast.Name)):
                        continue
                    a = st.body[0]
                    x = st.test.operand.id
                    if not (isinstance(a, ast.Assign) and len(a.targets) == 1
                            and isinstance(a.targets[0], ast.Name)
                            and a.targets[0].id == x):
                        continue
                    new = ast.Assign(
                        targets=[ast.Name(id=x, ctx=ast.Store())],
                        value=ast.BoolOp(op=ast.Or(), values=[
                            ast.Name(id=x, ctx=ast.Load()), a.value]),
                        type_comment=None)
                    ast.copy_location(new, st)
                    ast.fix_missing_locations(new)
                    blk[blk.index(st)] = new
                    n += 1
    return n


def index_reads_to_unpacking(trees):
    """``t = f(..); a = t[0]; b = t[1]`` (t read nowhere else) ->
    ``a, b = f(..)``."""
    n = 0
    for tree in trees.values():
        for fn in _fn_scopes(tree):
            counts = {}
            for m in ast.walk(fn):
                if isinstance(m, ast.Name):
                    counts.setdefault(m.id, [0, 0])[
                        0 if isinstance(m.ctx, ast.Load) else 1] += 1
            for blk in _blocks(fn):
                i = 0
                while i < len(blk):
                    st = blk[i]
                    i += 1
                    if not (isinstance(st, ast.Assign) and
                            len(st.targets) == 1 and
                            isinstance(st.targets[0], ast.Name) and
                            isinstance(st.value, ast.Call)):
                        continue
                    t = st.targets[0].id
                    if counts.get(t, [0, 0])[1] != 1:
                        continue
                    j = blk.index(st) + 1
                    got = []
                    while j < len(blk):
                        s2 = blk[j]
                        if isinstance(s2, ast.Assign) and \
                                len(s2.targets) == 1 and isinstance(
                                    s2.targets[0], ast.Name) and \
                                isinstance(s2.value, ast.Subscript) and \
                                isinstance(s2.value.value, ast.Name) and \
                                s2.value.value.id == t and isinstance(
                                    s2.value.slice, ast.Constant) and \
                                s2.value.slice.value == len(got):
                            got.append(s2)
                            j += 1
                        else:
                            break
                    if len(got) < 2 or counts[t][0] != len(got):
                        continue
                    names = [g.targets[0].id for g in got]
                    if len(set(names)) != len(names) or t in names:
                        continue
                    st.targets = [ast.copy_location(ast.Tuple(
                        elts=[ast.Name(id=x, ctx=ast.Store())
                              for x in names], ctx=ast.Store()),
                        st.targets[0])]
                    ast.fix_missing_locations(st)
                    for g in got:
                        blk.remove(g)
                    n += 1
    return n


def unroll_literal_loops(trees):
    """``for x in (A, B): body`` over a literal tuple/list of at most four
    simple expressions, body without break/continue and without re-binding
    x -> body[x:=A]; body[x:=B]."""
    n = 0
    for tree in trees.values():
        for fn in _fn_scopes(tree):
            for blk in _blocks(fn):
                for st in list(blk):
                    if not (isinstance(st, ast.For) and not st.orelse and
                            isinstance(st.target, ast.Name) and
                            isinstance(st.iter, (ast.Tuple, ast.List)) and
                            1 <= len(st.iter.elts) <= 4 and
                            all(_simple(e) for e in st.iter.elts)):
                        continue
                    x = st.target.id
                    inner = [m for b in st.body for m in ast.walk(b)]
                    if any(isinstance(m, (ast.Break, ast.Continue,
                                          ast.Lambda, ast.FunctionDef))
                           for m in inner):
                        continue
                    if any(isinstance(m, ast.Name) and m.id == x and
                           not isinstance(m.ctx, ast.Load) for m in inner):
                        continue
                    after = sum(1 for m in ast.walk(fn)
                                if isinstance(m, ast.Name) and m.id == x) \
                        - sum(1 for m in inner if isinstance(m, ast.Name)
                              and m.id == x) - 1
                    if after > 0:
                        continue
                    new = []
                    for e in st.iter.elts:
                        sub = _Subst({x: e}, {})
                        new += [sub.visit(copy.deepcopy(b)) for b in st.body]
                    k = blk.index(st)
                    blk[k:k + 1] = new
                    n += 1
    return n
