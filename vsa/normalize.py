"""Normalisation applied to every parsed module before indexing.

*Helper inlining.*  Every rule of the analyser is anchored in functions that
were read by hand on the pinned tree; their names are frozen in
``pinned_functions.json``.  A private function that is **not** in that list is
new code, and the most common reason for new code next to an anchor is that a
block of the anchor was extracted into a helper.  Such a helper is inlined
into its call sites (and its definition dropped) so that the rules analyse the
same statements wherever they were moved to - for benign extractions this
keeps the rules silent, for breaking ones it keeps the broken statements in
view of the path rules.

A helper is inlined only when this can be done without changing the order of
effects in a way a rule could observe:

* private name (leading underscore), no decorators, plain positional
  parameters, no generator, no nested function, not recursive;
* at most one ``return``, which is the last top-level statement;
* every reference to its name in the package is a direct call
  ``<simple>.name(...)`` / ``name(...)`` in the same module whose enclosing
  statement is a simple statement or the test of an ``if`` and which is not
  under a lambda, comprehension, conditional expression or the right operand
  of a boolean operator.

Anything else is left alone (and the rules see the call as a call).  The list
of what was inlined is part of the evidence (``Repo.inlined``).
"""

import ast
import copy
import json
from pathlib import Path

_PINNED = None


def pinned_functions():
    global _PINNED
    if _PINNED is None:
        p = Path(__file__).with_name('pinned_functions.json')
        _PINNED = {tuple(x) for x in json.loads(p.read_text())}
    return _PINNED


def _is_test_name(name):
    return (name.startswith('test_') or name.startswith('Test')
            or name.startswith('Toy') or name.startswith('_test'))


def _simple(e):
    if isinstance(e, (ast.Name, ast.Constant)):
        return True
    if isinstance(e, ast.Attribute):
        return _simple(e.value)
    return False


class _Subst(ast.NodeTransformer):
    def __init__(self, mapping, rename):
        self.mapping = mapping    # name -> expression (loads only)
        self.rename = rename      # name -> new name

    def visit_Name(self, node):
        if node.id in self.mapping and isinstance(node.ctx, ast.Load):
            return copy.deepcopy(self.mapping[node.id])
        if node.id in self.rename:
            return ast.copy_location(
                ast.Name(id=self.rename[node.id], ctx=node.ctx), node)
        return node


def _assigned_names(fn):
    out = set()
    for n in ast.walk(fn):
        if isinstance(n, ast.Name) and isinstance(n.ctx, (ast.Store, ast.Del)):
            out.add(n.id)
        elif isinstance(n, ast.ExceptHandler) and n.name:
            out.add(n.name)
    return out


def _all_names(fn):
    out = {a.arg for a in fn.args.args + fn.args.kwonlyargs
           + fn.args.posonlyargs}
    for n in ast.walk(fn):
        if isinstance(n, ast.Name):
            out.add(n.id)
    return out


def _helper_ok(fn):
    if fn.decorator_list:
        return False
    a = fn.args
    if a.vararg or a.kwarg or a.kwonlyargs or a.posonlyargs:
        return False
    body = fn.body
    for n in ast.walk(fn):
        if n is fn:
            continue
        if isinstance(n, (ast.FunctionDef, ast.AsyncFunctionDef, ast.ClassDef,
                          ast.Yield, ast.YieldFrom, ast.Await, ast.Global,
                          ast.Nonlocal)):
            return False
    rets = [n for n in ast.walk(fn) if isinstance(n, ast.Return)]
    if len(rets) > 1 or (rets and rets[0] is not body[-1]):
        # several exits: acceptable when they can be folded into one
        return _single_exit([copy.deepcopy(s) for s in body], '_r') \
            is not None
    return True


def _has_return(node):
    return any(isinstance(n, ast.Return) for n in ast.walk(node))


def _falls_through(block):
    if not block:
        return True
    last = block[-1]
    if isinstance(last, (ast.Return, ast.Raise)):
        return False
    if isinstance(last, ast.If) and last.orelse:
        return _falls_through(last.body) or _falls_through(last.orelse)
    return True


def _single_exit(body, ret_name):
    """Rewrite a statement list whose ``return`` statements sit at the end
    of (nested) if-branches into one without any return: the value goes
    into ``ret_name`` and what follows an ``if`` is moved into the branches
    that fall through.  None when a return sits inside a loop, try or
    with."""
    out = []
    for i, st in enumerate(body):
        rest = body[i + 1:]
        if isinstance(st, ast.Return):
            val = st.value if st.value is not None else ast.Constant(
                value=None)
            asg = ast.Assign(targets=[ast.Name(id=ret_name,
                                               ctx=ast.Store())],
                             value=val, type_comment=None)
            ast.copy_location(asg, st)
            ast.fix_missing_locations(asg)
            out.append(asg)
            return out
        if isinstance(st, ast.If) and _has_return(st):
            b_rest = [copy.deepcopy(x) for x in rest] if _falls_through(
                st.body) else []
            o_rest = [copy.deepcopy(x) for x in rest] if _falls_through(
                st.orelse) else []
            b = _single_exit(list(st.body) + b_rest, ret_name)
            o = _single_exit(list(st.orelse) + o_rest, ret_name)
            if b is None or o is None:
                return None
            new = ast.If(test=st.test, body=b or [ast.Pass()], orelse=o)
            ast.copy_location(new, st)
            ast.fix_missing_locations(new)
            out.append(new)
            return out
        if _has_return(st):
            return None
        out.append(st)
    # ran off the end: the function returns None here
    asg = ast.Assign(targets=[ast.Name(id=ret_name, ctx=ast.Store())],
                     value=ast.Constant(value=None), type_comment=None)
    if body:
        ast.copy_location(asg, body[-1])
    ast.fix_missing_locations(asg)
    out.append(asg)
    return out


def _strip_doc(body):
    if (body and isinstance(body[0], ast.Expr)
            and isinstance(body[0].value, ast.Constant)
            and isinstance(body[0].value.value, str)):
        return body[1:]
    return body


class _Site:
    __slots__ = ('call', 'stmt', 'holder', 'field', 'index', 'caller')


def _find_sites(tree, name, is_method):
    """All references to ``name`` in ``tree``; (sites, ok)."""
    parents = {}
    for n in ast.walk(tree):
        for c in ast.iter_child_nodes(n):
            parents[c] = n
    sites, ok = [], True
    for n in ast.walk(tree):
        ref = None
        if is_method and isinstance(n, ast.Attribute) and n.attr == name:
            ref = n
        elif not is_method and isinstance(n, ast.Name) and n.id == name:
            ref = n
        elif isinstance(n, ast.Constant) and n.value == name:
            ok = False      # getattr(..., 'name') and the like
        if ref is None:
            continue
        p = parents.get(ref)
        if not (isinstance(p, ast.Call) and p.func is ref):
            ok = False
            continue
        if is_method and not _simple(ref.value):
            ok = False
            continue
        if any(isinstance(a, ast.Starred) for a in p.args) or any(
                k.arg is None for k in p.keywords):
            ok = False
            continue
        # climb to the statement
        cur, bad = p, False
        while not isinstance(cur, ast.stmt):
            up = parents.get(cur)
            if isinstance(up, (ast.Lambda, ast.ListComp, ast.SetComp,
                               ast.DictComp, ast.GeneratorExp, ast.IfExp)):
                bad = True
            if isinstance(up, ast.BoolOp) and up.values[0] is not cur:
                bad = True
            cur = up
        stmt = cur
        if isinstance(stmt, (ast.Expr, ast.Assign, ast.AnnAssign,
                             ast.AugAssign, ast.Return)):
            pass
        elif isinstance(stmt, ast.If):
            # only inside the test
            inside = any(x is p for x in ast.walk(stmt.test))
            if not inside:
                bad = True
        else:
            bad = True
        if bad:
            ok = False
            continue
        holder = parents.get(stmt)
        field = index = None
        for f, v in ast.iter_fields(holder):
            if isinstance(v, list):
                for i, x in enumerate(v):
                    if x is stmt:
                        field, index = f, i
        if field is None:
            ok = False
            continue
        caller = stmt
        while caller is not None and not isinstance(
                caller, (ast.FunctionDef, ast.AsyncFunctionDef)):
            caller = parents.get(caller)
        if caller is None:
            ok = False
            continue
        s = _Site()
        s.call, s.stmt, s.holder, s.field, s.index, s.caller = (
            p, stmt, holder, field, index, caller)
        sites.append(s)
    return sites, ok


def _replace_node(root, old, new):
    for n in ast.walk(root):
        for f, v in ast.iter_fields(n):
            if v is old:
                setattr(n, f, new)
                return True
            if isinstance(v, list):
                for i, x in enumerate(v):
                    if x is old:
                        v[i] = new
                        return True
    return False


def _bind(call, helper, is_method):
    params = [a.arg for a in helper.args.args]
    defaults = helper.args.defaults
    ndef = len(defaults)
    args = {}
    actual = list(call.args)
    if is_method:
        actual = [call.func.value] + actual
    if len(actual) > len(params):
        return None
    for p, a in zip(params, actual):
        args[p] = a
    for k in call.keywords:
        if k.arg not in params or k.arg in args:
            return None
        args[k.arg] = k.value
    for i, p in enumerate(params):
        if p not in args:
            j = i - (len(params) - ndef)
            if j < 0:
                return None
            args[p] = defaults[j]
    return args


def _inline_at(site, helper, is_method):
    call = site.call
    params = [a.arg for a in helper.args.args]
    args = _bind(call, helper, is_method)
    if args is None:
        return False
    assigned = _assigned_names(helper)
    caller_names = _all_names(site.caller)
    mapping, rename, prologue = {}, {}, []

    def fresh(base):
        n, k = base, 0
        while n in caller_names:
            k += 1
            n = '%s_h%d' % (base, k)
        caller_names.add(n)
        return n

    for p in params:
        a = args[p]
        if _simple(a) and p not in assigned:
            mapping[p] = a
        else:
            new = p if (isinstance(a, ast.Name) and a.id == p) else fresh(p)
            if new != p:
                rename[p] = new
            if not (isinstance(a, ast.Name) and a.id == new):
                asg = ast.Assign(
                    targets=[ast.Name(id=new, ctx=ast.Store())],
                    value=copy.deepcopy(a), type_comment=None)
                ast.copy_location(asg, site.stmt)
                ast.fix_missing_locations(asg)
                prologue.append(asg)
    # ``x = helper(...)`` whose helper ends in ``return local``: the local
    # simply becomes x (no alias is introduced)
    direct = None
    last = helper.body[-1]
    if isinstance(site.stmt, ast.Assign) and site.stmt.value is call and \
            len(site.stmt.targets) == 1 and isinstance(
                site.stmt.targets[0], ast.Name) and isinstance(
                last, ast.Return) and isinstance(last.value, ast.Name) and \
            last.value.id in assigned and last.value.id not in params:
        tname = site.stmt.targets[0].id
        used_in_args = any(isinstance(n, ast.Name) and n.id == tname
                           for a in args.values() for n in ast.walk(a))
        clash = tname in (_all_names(helper) - {last.value.id})
        if not used_in_args and not clash:
            direct = last.value.id
            if direct != tname:
                rename[direct] = tname
    for loc in sorted(assigned - set(params)):
        if loc == direct:
            continue
        if loc in caller_names:
            rename[loc] = fresh(loc)
        else:
            caller_names.add(loc)
    body = [copy.deepcopy(s) for s in _strip_doc(helper.body)]
    nrets = sum(1 for b in body for n in ast.walk(b)
                if isinstance(n, ast.Return))
    multi = nrets > 1 or (nrets == 1 and not isinstance(body[-1],
                                                        ast.Return))
    if multi:
        rname = fresh('_ret_' + helper.name.strip('_'))
        body = _single_exit(body, rname)
        if body is None:
            return False
        direct = None
    sub = _Subst(mapping, rename)
    body = [sub.visit(s) for s in body]
    ret = None
    if multi:
        ret = ast.Name(id=rname, ctx=ast.Load())
        ast.copy_location(ret, call)
        if isinstance(site.stmt, ast.Expr) and site.stmt.value is call:
            ret = None
    elif body and isinstance(body[-1], ast.Return):
        ret = body[-1].value
        body = body[:-1]
    lst = getattr(site.holder, site.field)
    if direct is not None:
        lst[site.index:site.index + 1] = prologue + body
    elif isinstance(site.stmt, ast.Expr) and site.stmt.value is call:
        new_stmts = prologue + body
        if ret is not None and not _simple(ret):
            e = ast.Expr(value=ret)
            ast.copy_location(e, site.stmt)
            new_stmts.append(e)
        if not new_stmts:
            p = ast.Pass()
            ast.copy_location(p, site.stmt)
            new_stmts = [p]
        lst[site.index:site.index + 1] = new_stmts
    else:
        if ret is None:
            ret = ast.copy_location(ast.Constant(value=None), call)
        _replace_node(site.stmt, call, ret)
        lst[site.index:site.index] = prologue + body
    return True


def inline_new_helpers(trees):
    """``trees``: {module name: ast.Module}.  Mutates the trees.  Returns a
    list of 'module.qual -> caller' strings describing what was inlined."""
    pinned = pinned_functions()
    done = []
    for _round in range(3):
        changed = False
        for modname, tree in trees.items():
            cands = []
            for node in tree.body:
                if isinstance(node, ast.FunctionDef):
                    cands.append((node.name, node, None))
                elif isinstance(node, ast.ClassDef):
                    for sub in node.body:
                        if isinstance(sub, ast.FunctionDef):
                            cands.append((node.name + '.' + sub.name, sub,
                                          node))
            for qual, fn, cls in cands:
                if (modname, qual) in pinned:
                    continue
                if not fn.name.startswith('_') or fn.name.startswith('__'):
                    continue
                if _is_test_name(fn.name) or (cls and _is_test_name(cls.name)):
                    continue
                if not _helper_ok(fn):
                    continue
                is_method = cls is not None
                if is_method and (not fn.args.args
                                  or fn.args.args[0].arg != 'self'):
                    continue
                # references elsewhere in the package forbid inlining
                other = False
                for m2, t2 in trees.items():
                    if m2 == modname:
                        continue
                    for n in ast.walk(t2):
                        if (isinstance(n, ast.Attribute)
                                and n.attr == fn.name) or (
                                isinstance(n, ast.Name)
                                and n.id == fn.name) or (
                                isinstance(n, ast.alias)
                                and n.name == fn.name):
                            other = True
                            break
                    if other:
                        break
                if other:
                    continue
                # a method of the same name in another class
                if is_method and sum(
                        1 for n in ast.walk(tree)
                        if isinstance(n, ast.FunctionDef)
                        and n.name == fn.name) > 1:
                    continue
                # detach the definition while looking for references
                holder = cls.body if cls else tree.body
                pos = holder.index(fn)
                del holder[pos]
                sites, ok = _find_sites(tree, fn.name, is_method)
                recursive = any(
                    (isinstance(n, ast.Attribute) and n.attr == fn.name)
                    or (isinstance(n, ast.Name) and n.id == fn.name)
                    for n in ast.walk(fn))
                if ok and any(_bind(s.call, fn, is_method) is None
                              for s in sites):
                    ok = False
                if not ok or not sites or recursive:
                    holder.insert(pos, fn)
                    continue
                good = True
                # inline from the last site to the first so that indices of
                # earlier statements in the same list stay valid
                for s in sorted(sites, key=lambda s: (
                        getattr(s.stmt, 'lineno', 0)), reverse=True):
                    # re-find the index (earlier inlining may have shifted)
                    lst = getattr(s.holder, s.field)
                    s.index = next(i for i, x in enumerate(lst)
                                   if x is s.stmt)
                    if not _inline_at(s, fn, is_method):
                        good = False
                        break
                if not good:
                    # partial inlining cannot be undone safely: signal it
                    raise RuntimeError('helper inlining failed half-way for '
                                       '%s.%s' % (modname, qual))
                if not holder:
                    holder.append(ast.Pass())
                done.append('%s.%s -> %s' % (
                    modname, qual,
                    ', '.join(sorted({s.caller.name for s in sites}))))
                changed = True
        if not changed:
            break
    return done


# --------------------------------------------------------------------------
# Canonical forms.  Each pass rewrites an idiom into the form the rules were
# written against; all of them preserve behaviour, so they can neither hide
# nor create a violation - they only make the rules independent of which of
# two equivalent spellings a maintainer prefers.

def _signatures(trees):
    """{bare name: (parameter names, is_method)} for functions, methods and
    classes (through __init__) whose bare name is defined exactly once in
    the non-test code of the package and whose signature has neither *args
    nor **kwargs."""
    seen = {}
    for modname, tree in trees.items():
        for node in tree.body:
            if isinstance(node, ast.FunctionDef):
                seen.setdefault(node.name, []).append((node, False))
            elif isinstance(node, ast.ClassDef):
                if _is_test_name(node.name):
                    continue
                for sub in node.body:
                    if isinstance(sub, ast.FunctionDef):
                        if sub.name == '__init__':
                            seen.setdefault(node.name, []).append(
                                (sub, True))
                        else:
                            static = any(
                                isinstance(d, ast.Name) and d.id in (
                                    'staticmethod', 'classmethod')
                                for d in sub.decorator_list)
                            seen.setdefault(sub.name, []).append(
                                (sub, not static))
    out = {}
    for name, lst in seen.items():
        if name.startswith('__') or _is_test_name(name):
            continue
        sigs = set()
        bad = False
        for fn, is_method in lst:
            a = fn.args
            if a.vararg or a.kwarg or a.posonlyargs:
                bad = True
                break
            params = [x.arg for x in a.args]
            if is_method:
                params = params[1:]
            sigs.add((tuple(params), is_method, fn.name == '__init__'))
        # one definition, or several that agree on the whole signature
        if bad or len(sigs) != 1:
            continue
        params, is_method, is_ctor = next(iter(sigs))
        out[name] = (list(params), is_method, is_ctor)
    return out


def _class_signatures(trees):
    """{class name: {method name: parameter names after self}} for the
    methods a class defines itself (used for ``self.m(...)`` calls whose
    bare name is ambiguous across classes)."""
    out = {}
    for tree in trees.values():
        for node in tree.body:
            if not isinstance(node, ast.ClassDef):
                continue
            ms = {}
            for sub in node.body:
                if isinstance(sub, ast.FunctionDef):
                    a = sub.args
                    if a.vararg or a.kwarg or a.posonlyargs or any(
                            isinstance(d, ast.Name) and d.id in (
                                'staticmethod', 'classmethod', 'property')
                            for d in sub.decorator_list):
                        continue
                    ms[sub.name] = [x.arg for x in a.args][1:]
            out.setdefault(node.name, {}).update(ms)
    return out


def keywords_to_positional(trees):
    """``f(a, c=x)`` -> ``f(a, x)`` wherever the callee is known by a unique
    name and the keyword names the next positional parameter."""
    sigs = _signatures(trees)
    csigs = _class_signatures(trees)
    n = 0
    for tree in trees.values():
        # which class (if any) a call sits in
        owner = {}
        for node in tree.body:
            if isinstance(node, ast.ClassDef):
                for m in ast.walk(node):
                    if isinstance(m, ast.Call):
                        owner[id(m)] = node.name
        for call in ast.walk(tree):
            if not isinstance(call, ast.Call) or not call.keywords:
                continue
            if isinstance(call.func, ast.Attribute):
                name, via_attr = call.func.attr, True
            elif isinstance(call.func, ast.Name):
                name, via_attr = call.func.id, False
            else:
                continue
            sig = sigs.get(name)
            if not sig and via_attr and isinstance(
                    call.func.value, ast.Name) and \
                    call.func.value.id == 'self':
                own = csigs.get(owner.get(id(call)), {})
                if name in own:
                    sig = (own[name], True, False)
            if not sig:
                continue
            params, is_method, is_ctor = sig
            if is_method and not is_ctor and not via_attr:
                continue
            if not is_method and via_attr and not is_ctor:
                # module.function(...) is fine, obj.function unlikely
                pass
            if any(isinstance(a, ast.Starred) for a in call.args) or any(
                    k.arg is None for k in call.keywords):
                continue
            kw = {k.arg: k for k in call.keywords}
            if not set(kw) <= set(params):
                continue
            moved = False
            while len(call.args) < len(params) and \
                    params[len(call.args)] in kw:
                k = kw.pop(params[len(call.args)])
                call.args.append(k.value)
                call.keywords.remove(k)
                moved = True
            n += moved
    return n


def key_loops_to_items(trees):
    """``for k in d: v = d[k]; ...`` -> ``for k, v in d.items(): ...``"""
    n = 0
    for tree in trees.values():
        for loop in ast.walk(tree):
            if not isinstance(loop, ast.For) or not isinstance(
                    loop.target, ast.Name) or not loop.body:
                continue
            d = loop.iter
            if isinstance(d, ast.Call) and isinstance(
                    d.func, ast.Attribute) and d.func.attr == 'keys' and \
                    not d.args:
                d = d.func.value
            if not _simple(d) or isinstance(d, ast.Constant):
                continue
            first = loop.body[0]
            if not (isinstance(first, ast.Assign) and len(first.targets) == 1
                    and isinstance(first.targets[0], ast.Name)
                    and isinstance(first.value, ast.Subscript)
                    and ast.dump(first.value.value) == ast.dump(d)
                    and isinstance(first.value.slice, ast.Name)
                    and first.value.slice.id == loop.target.id):
                continue
            if len(loop.body) == 1:
                continue
            v = first.targets[0]
            loop.target = ast.copy_location(ast.Tuple(
                elts=[ast.Name(id=loop.target.id, ctx=ast.Store()),
                      ast.Name(id=v.id, ctx=ast.Store())],
                ctx=ast.Store()), loop.target)
            loop.iter = ast.copy_location(ast.Call(
                func=ast.Attribute(value=d, attr='items', ctx=ast.Load()),
                args=[], keywords=[]), loop.iter)
            ast.fix_missing_locations(loop.target)
            ast.fix_missing_locations(loop.iter)
            del loop.body[0]
            n += 1
    return n


def canonicalise(trees):
    """All canonical-form passes, repeated until nothing changes (one pass
    can expose work for another); returns {pass: number of rewrites}."""
    passes = [
        keywords_to_positional, key_loops_to_items,
        loop_element_unpacking, append_loops_to_comprehensions,
        expand_update_displays, comprehension_key_loops,
        index_reads_to_unpacking, propagate_pure_aliases, ifexp_statements,
        split_parallel_copies, sink_branch_temps, thread_none_tests,
        or_assignments, unroll_literal_loops, unnegate_ifs,
        inline_single_use_temps,
    ]
    total = {}
    _SCOPES.clear()
    for _round in range(4):
        changed = 0
        for p in passes:
            k = p(trees)
            total[p.__name__] = total.get(p.__name__, 0) + k
            changed += k
        if not changed:
            break
    _SCOPES.clear()
    return total


def unnegate_ifs(trees):
    """``if not c: A else: B`` -> ``if c: B else: A`` (both branches
    present, no elif chain involved)."""
    n = 0
    for tree in trees.values():
        for node in ast.walk(tree):
            if isinstance(node, ast.If) and node.orelse and isinstance(
                    node.test, ast.UnaryOp) and isinstance(
                    node.test.op, ast.Not) and not (
                    len(node.orelse) == 1 and isinstance(
                        node.orelse[0], ast.If)):
                node.test = node.test.operand
                node.body, node.orelse = node.orelse, node.body
                n += 1
    return n


_SCOPES = {}


def _fn_scopes(tree):
    """Function definitions of a module (cached per tree: the passes never
    add or remove function definitions)."""
    k = id(tree)
    hit = _SCOPES.get(k)
    if hit is None or hit[0] is not tree:
        hit = (tree, [n for n in ast.walk(tree) if isinstance(
            n, (ast.FunctionDef, ast.AsyncFunctionDef))])
        _SCOPES[k] = hit
    return hit[1]


def _blocks(fn):
    """Every statement list inside ``fn`` (not descending into nested
    function or class definitions)."""
    stack = [fn]
    while stack:
        n = stack.pop()
        for f in ('body', 'orelse', 'finalbody'):
            lst = getattr(n, f, None)
            if isinstance(lst, list) and lst and isinstance(
                    lst[0], ast.stmt):
                yield lst
                for s in lst:
                    if not isinstance(s, (ast.FunctionDef, ast.ClassDef,
                                          ast.AsyncFunctionDef)):
                        stack.append(s)
        if isinstance(n, ast.Try):
            for h in n.handlers:
                stack.append(h)
        if hasattr(n, 'cases'):
            for c in n.cases:
                stack.append(c)


def _header_exprs(st):
    if isinstance(st, (ast.Expr, ast.Return)):
        return [st.value] if st.value is not None else []
    if isinstance(st, ast.Assign):
        return [st.value] + list(st.targets)
    if isinstance(st, ast.AugAssign):
        return [st.value, st.target]
    if isinstance(st, ast.AnnAssign):
        return ([st.value] if st.value is not None else []) + [st.target]
    if isinstance(st, ast.If):
        return [st.test]
    if isinstance(st, ast.For):
        return [st.iter]
    if isinstance(st, ast.Raise):
        return [x for x in (st.exc, st.cause) if x is not None]
    if isinstance(st, ast.Assert):
        return [st.test]
    return []


def inline_single_use_temps(trees):
    """``t = e`` immediately followed by the only statement that reads ``t``
    (once, outside lambdas and comprehensions) -> ``e`` in place of ``t``;
    ``t = e; return t`` -> ``return e`` whatever else is called t."""
    total = 0
    for tree in trees.values():
        for fn in _fn_scopes(tree):
            for blk in _blocks(fn):
                i = 0
                while i + 1 < len(blk):
                    s, nxt = blk[i], blk[i + 1]
                    i += 1
                    if isinstance(s, ast.Assign) and len(s.targets) == 1 \
                            and isinstance(s.targets[0], ast.Name) and \
                            isinstance(nxt, ast.Return) and isinstance(
                                nxt.value, ast.Name) and \
                            nxt.value.id == s.targets[0].id:
                        nxt.value = s.value
                        blk.remove(s)
                        i -= 1
                        total += 1
            params = {a.arg for a in fn.args.args + fn.args.kwonlyargs
                      + fn.args.posonlyargs}
            if fn.args.vararg:
                params.add(fn.args.vararg.arg)
            if fn.args.kwarg:
                params.add(fn.args.kwarg.arg)
            for _round in range(6):
                stores, loads, banned = {}, {}, set(params)
                for n in ast.walk(fn):
                    if isinstance(n, ast.Name):
                        if isinstance(n.ctx, ast.Load):
                            loads[n.id] = loads.get(n.id, 0) + 1
                        else:
                            stores[n.id] = stores.get(n.id, 0) + 1
                    elif isinstance(n, (ast.Global, ast.Nonlocal)):
                        banned |= set(n.names)
                    elif isinstance(n, ast.ExceptHandler) and n.name:
                        banned.add(n.name)
                    elif n is not fn and isinstance(
                            n, (ast.FunctionDef, ast.AsyncFunctionDef,
                                ast.Lambda, ast.ClassDef)):
                        # names touched in nested scopes are left alone
                        for m in ast.walk(n):
                            if isinstance(m, ast.Name):
                                banned.add(m.id)
                            elif isinstance(m, ast.arg):
                                banned.add(m.arg)
                changed = False
                for blk in _blocks(fn):
                    i = 0
                    while i + 1 < len(blk):
                        s, nxt = blk[i], blk[i + 1]
                        i += 1
                        if not (isinstance(s, ast.Assign)
                                and len(s.targets) == 1
                                and isinstance(s.targets[0], ast.Name)):
                            continue
                        t = s.targets[0].id
                        if t in banned or stores.get(t) != 1 or \
                                loads.get(t) != 1:
                            continue
                        if any(isinstance(x, (ast.Yield, ast.YieldFrom,
                                              ast.Await, ast.NamedExpr,
                                              ast.Lambda))
                               for x in ast.walk(s.value)):
                            continue
                        # the single read must sit in the header of nxt,
                        # outside comprehensions
                        hit = None
                        pure = _no_calls(s.value)
                        for e in _header_exprs(nxt):
                            # (node, parent, field, index, conditionally
                            # evaluated?)
                            stack = [(e, None, None, None, False)]
                            while stack:
                                x, par, fld, idx, cnd = stack.pop()
                                if isinstance(x, (ast.ListComp, ast.SetComp,
                                                  ast.DictComp,
                                                  ast.GeneratorExp,
                                                  ast.Lambda)):
                                    continue
                                if isinstance(x, ast.Name) and x.id == t \
                                        and isinstance(x.ctx, ast.Load):
                                    hit = (x, par, fld, idx, cnd)
                                for f2, v in ast.iter_fields(x):
                                    if isinstance(v, ast.AST):
                                        c2 = cnd or (isinstance(
                                            x, ast.IfExp) and f2 in (
                                            'body', 'orelse'))
                                        stack.append((v, x, f2, None, c2))
                                    elif isinstance(v, list):
                                        for j, y in enumerate(v):
                                            if not isinstance(y, ast.AST):
                                                continue
                                            c2 = cnd or (isinstance(
                                                x, ast.BoolOp) and j > 0
                                            ) or (isinstance(
                                                x, ast.Compare) and
                                                f2 == 'comparators'
                                                and j > 0)
                                            stack.append((y, x, f2, j, c2))
                        if hit is None:
                            continue
                        x, par, fld, idx, cnd = hit
                        if cnd and not pure:
                            continue        # would become conditional
                        if isinstance(nxt, ast.For) and not pure:
                            continue        # keep phases apart
                        if par is None:
                            # the header expression is the name itself
                            for f2, v in ast.iter_fields(nxt):
                                if v is x:
                                    setattr(nxt, f2, s.value)
                                elif isinstance(v, list):
                                    for j, y in enumerate(v):
                                        if y is x:
                                            v[j] = s.value
                        elif idx is None:
                            setattr(par, fld, s.value)
                        else:
                            getattr(par, fld)[idx] = s.value
                        blk.remove(s)
                        i -= 1
                        changed = True
                        total += 1
                        loads[t] = 0
                if not changed:
                    break
    return total


def _branch_final_assigns(block, name, acc):
    """Collect the assignments ``name = ...`` that end every path through
    ``block``; False when some path does not end in one."""
    if not block:
        return False
    last = block[-1]
    if isinstance(last, ast.Assign) and len(last.targets) == 1 and \
            isinstance(last.targets[0], ast.Name) and \
            last.targets[0].id == name:
        acc.append(last)
        return True
    if isinstance(last, ast.If) and last.orelse:
        return _branch_final_assigns(last.body, name, acc) and \
            _branch_final_assigns(last.orelse, name, acc)
    return False


def sink_branch_temps(trees):
    """``if c: t = A else: t = B`` followed by ``x = t`` (t read nowhere
    else) -> ``if c: x = A else: x = B``; ``x = x`` is dropped and an
    ``if c: pass else: S`` becomes ``if not c: S``."""
    n = 0
    for tree in trees.values():
        for fn in _fn_scopes(tree):
            loads = {}
            for m in ast.walk(fn):
                if isinstance(m, ast.Name) and isinstance(m.ctx, ast.Load):
                    loads[m.id] = loads.get(m.id, 0) + 1
            for blk in _blocks(fn):
                i = 0
                while i + 1 < len(blk):
                    s, nxt = blk[i], blk[i + 1]
                    i += 1
                    if not (isinstance(s, ast.If) and s.orelse and
                            isinstance(nxt, ast.Assign) and
                            len(nxt.targets) == 1 and
                            isinstance(nxt.targets[0], ast.Name) and
                            isinstance(nxt.value, ast.Name)):
                        continue
                    t, x = nxt.value.id, nxt.targets[0].id
                    if loads.get(t) != 1 or t == x:
                        continue
                    acc = []
                    if not _branch_final_assigns([s], t, acc):
                        continue
                    # t must not be assigned anywhere else
                    others = [m for m in ast.walk(fn)
                              if isinstance(m, ast.Name) and m.id == t
                              and isinstance(m.ctx, ast.Store)]
                    if len(others) != len(acc):
                        continue
                    for a in acc:
                        a.targets[0].id = x
                    blk.remove(nxt)
                    n += 1
            # x = x  ->  dropped
            for blk in _blocks(fn):
                for st in list(blk):
                    if isinstance(st, ast.Assign) and len(st.targets) == 1 \
                            and isinstance(st.targets[0], ast.Name) and \
                            isinstance(st.value, ast.Name) and \
                            st.value.id == st.targets[0].id:
                        if len(blk) > 1:
                            blk.remove(st)
                        else:
                            blk[blk.index(st)] = ast.copy_location(
                                ast.Pass(), st)
            # if c: pass else: S  ->  if not c: S
            for m in ast.walk(fn):
                if isinstance(m, ast.If) and m.orelse and len(m.body) == 1 \
                        and isinstance(m.body[0], ast.Pass):
                    m.test = ast.copy_location(
                        ast.UnaryOp(op=ast.Not(), operand=m.test), m.test)
                    m.body, m.orelse = m.orelse, []
    return n


def loop_element_unpacking(trees):
    """``for t in L: a, b = t; ...`` -> ``for a, b in L: ...`` and
    ``for t in L: ... t[0] ... t[1] ...`` (t used only through constant
    indices 0..k-1) -> ``for t_0, t_1 in L: ... t_0 ... t_1 ...``."""
    n = 0
    for tree in trees.values():
        for fn in _fn_scopes(tree):
            fn_names = {m.id for m in ast.walk(fn) if isinstance(m, ast.Name)}
            for loop in ast.walk(fn):
                if not isinstance(loop, ast.For) or not isinstance(
                        loop.target, ast.Name) or not loop.body:
                    continue
                t = loop.target.id
                uses = [m for b in loop.body for m in ast.walk(b)
                        if isinstance(m, ast.Name) and m.id == t]
                outside = sum(1 for m in ast.walk(fn) if isinstance(
                    m, ast.Name) and m.id == t) - len(uses) - 1
                if outside > 0 or not uses:
                    continue
                first = loop.body[0]
                if len(uses) == 1 and isinstance(first, ast.Assign) and \
                        first.value is uses[0] and len(first.targets) == 1 \
                        and isinstance(first.targets[0], ast.Tuple) and all(
                            isinstance(e, ast.Name)
                            for e in first.targets[0].elts) and \
                        len(loop.body) > 1:
                    loop.target = first.targets[0]
                    del loop.body[0]
                    n += 1
                    continue
                # only t[<int>] uses
                parents = {}
                for b in loop.body:
                    for m in ast.walk(b):
                        for c in ast.iter_child_nodes(m):
                            parents[c] = m
                idx = set()
                ok = True
                for u in uses:
                    p = parents.get(u)
                    if isinstance(p, ast.Subscript) and p.value is u and \
                            isinstance(p.slice, ast.Constant) and \
                            isinstance(p.slice.value, int) and \
                            p.slice.value >= 0 and isinstance(
                                p.ctx, ast.Load):
                        idx.add(p.slice.value)
                    else:
                        ok = False
                if not ok or idx != set(range(len(idx))) or len(idx) < 2:
                    continue
                names = []
                for i in sorted(idx):
                    nm = '%s_%d' % (t, i)
                    while nm in fn_names:
                        nm += '_'
                    fn_names.add(nm)
                    names.append(nm)
                for u in uses:
                    p = parents[u]
                    new = ast.copy_location(
                        ast.Name(id=names[p.slice.value], ctx=ast.Load()), p)
                    gp = parents.get(p)
                    if gp is None:
                        continue
                    for f2, v in ast.iter_fields(gp):
                        if v is p:
                            setattr(gp, f2, new)
                        elif isinstance(v, list):
                            for j, y in enumerate(v):
                                if y is p:
                                    v[j] = new
                loop.target = ast.copy_location(ast.Tuple(
                    elts=[ast.Name(id=x, ctx=ast.Store()) for x in names],
                    ctx=ast.Store()), loop.target)
                ast.fix_missing_locations(loop.target)
                n += 1
    return n


def split_parallel_copies(trees):
    """``a, b = x, y`` with simple right-hand sides that do not mention the
    targets -> ``a = x; b = y``."""
    n = 0
    for tree in trees.values():
        for fn in _fn_scopes(tree):
            for blk in _blocks(fn):
                i = 0
                while i < len(blk):
                    st = blk[i]
                    i += 1
                    if not (isinstance(st, ast.Assign) and
                            len(st.targets) == 1 and
                            isinstance(st.targets[0], ast.Tuple) and
                            isinstance(st.value, ast.Tuple) and
                            len(st.targets[0].elts) == len(st.value.elts)
                            and all(isinstance(e, ast.Name)
                                    for e in st.targets[0].elts)
                            and all(_simple(e) for e in st.value.elts)):
                        continue
                    tn = {e.id for e in st.targets[0].elts}
                    vn = {m.id for e in st.value.elts for m in ast.walk(e)
                          if isinstance(m, ast.Name)}
                    if tn & vn:
                        continue
                    new = []
                    for t, v in zip(st.targets[0].elts, st.value.elts):
                        a = ast.Assign(targets=[t], value=v,
                                       type_comment=None)
                        ast.copy_location(a, st)
                        new.append(a)
                    j = blk.index(st)
                    blk[j:j + 1] = new
                    i = j + len(new)
                    n += 1
    return n


def thread_none_tests(trees):
    """``if c: x = None else: ...; x = (a, b)`` directly followed by
    ``if x is not None: T [else: E]`` -> T / E moved into the branches
    whose final assignment decides the test (None constant versus a
    tuple/list/dict display, which is never None)."""
    n = 0

    def known(v):
        if isinstance(v, ast.Constant) and v.value is None:
            return 'none'
        if isinstance(v, (ast.Tuple, ast.List, ast.Dict, ast.Set,
                          ast.ListComp, ast.DictComp, ast.SetComp,
                          ast.JoinedStr)):
            return 'value'
        if isinstance(v, ast.Constant):
            return 'value'
        return None

    def place(block, name, when_none, when_value):
        last = block[-1]
        if isinstance(last, ast.If) and last.orelse and not (
                isinstance(last, ast.Assign)):
            place(last.body, name, when_none, when_value)
            place(last.orelse, name, when_none, when_value)
            return
        k = known(last.value)
        extra = when_none if k == 'none' else when_value
        block.extend(copy.deepcopy(x) for x in extra)

    for tree in trees.values():
        for fn in _fn_scopes(tree):
            for blk in _blocks(fn):
                i = 0
                while i + 1 < len(blk):
                    s, t = blk[i], blk[i + 1]
                    i += 1
                    if not (isinstance(s, ast.If) and s.orelse and
                            isinstance(t, ast.If)):
                        continue
                    test = t.test
                    neg = False
                    if isinstance(test, ast.UnaryOp) and isinstance(
                            test.op, ast.Not):
                        test, neg = test.operand, True
                    if not (isinstance(test, ast.Compare) and
                            len(test.ops) == 1 and
                            isinstance(test.left, ast.Name) and
                            isinstance(test.comparators[0], ast.Constant)
                            and test.comparators[0].value is None and
                            isinstance(test.ops[0], (ast.Is, ast.IsNot))):
                        continue
                    x = test.left.id
                    acc = []
                    if not _branch_final_assigns([s], x, acc):
                        continue
                    if any(known(a.value) is None for a in acc):
                        continue
                    is_none_test = isinstance(test.ops[0], ast.Is) != neg
                    when_none = t.body if is_none_test else t.orelse
                    when_value = t.orelse if is_none_test else t.body
                    place([s], x, when_none, when_value)
                    blk.remove(t)
                    n += 1
                    # x = None that nothing reads any more is dropped
                    inside = {id(m) for m in ast.walk(s)}
                    read_outside = any(
                        isinstance(m, ast.Name) and m.id == x and
                        isinstance(m.ctx, ast.Load) and id(m) not in inside
                        for m in ast.walk(fn))
                    if not read_outside:
                        for a in acc:
                            if known(a.value) != 'none':
                                continue
                            for b2 in _blocks(s):
                                if a in b2:
                                    k = b2.index(a)
                                    later = any(
                                        isinstance(m, ast.Name) and
                                        m.id == x and
                                        isinstance(m.ctx, ast.Load)
                                        for y in b2[k + 1:]
                                        for m in ast.walk(y))
                                    if not later:
                                        if len(b2) > 1:
                                            b2.remove(a)
                                        else:
                                            b2[k] = ast.copy_location(
                                                ast.Pass(), a)
    return n


def ifexp_statements(trees):
    """``return A if c else B`` -> ``if c: return A else: return B`` (the
    same for a plain assignment of a conditional expression)."""
    n = 0
    for tree in trees.values():
        for fn in _fn_scopes(tree):
            for blk in _blocks(fn):
                for k, st in enumerate(list(blk)):
                    v = getattr(st, 'value', None)
                    if not isinstance(v, ast.IfExp):
                        continue
                    if isinstance(st, ast.Return):
                        a = ast.Return(value=v.body)
                        b = ast.Return(value=v.orelse)
                    elif isinstance(st, ast.Assign) and len(
                            st.targets) == 1 and isinstance(
                            st.targets[0], ast.Name):
                        a = ast.Assign(targets=[copy.deepcopy(
                            st.targets[0])], value=v.body,
                            type_comment=None)
                        b = ast.Assign(targets=[copy.deepcopy(
                            st.targets[0])], value=v.orelse,
                            type_comment=None)
                    else:
                        continue
                    new = ast.If(test=v.test, body=[a], orelse=[b])
                    for x in (a, b, new):
                        ast.copy_location(x, st)
                    ast.fix_missing_locations(new)
                    blk[blk.index(st)] = new
                    n += 1
    return n


def _no_calls(e):
    return not any(isinstance(x, (ast.Call, ast.Await, ast.Yield,
                                  ast.YieldFrom, ast.NamedExpr, ast.Lambda,
                                  ast.ListComp, ast.DictComp, ast.SetComp,
                                  ast.GeneratorExp))
                   for x in ast.walk(e))


def expand_update_displays(trees):
    """``X.update({k1: v1, k2: v2})`` as a statement, X without calls ->
    ``X[k1] = v1; X[k2] = v2`` (same order)."""
    n = 0
    for tree in trees.values():
        for fn in _fn_scopes(tree):
            for blk in _blocks(fn):
                for st in list(blk):
                    if not (isinstance(st, ast.Expr) and
                            isinstance(st.value, ast.Call)):
                        continue
                    c = st.value
                    if not (isinstance(c.func, ast.Attribute) and
                            c.func.attr == 'update' and len(c.args) == 1
                            and not c.keywords and
                            isinstance(c.args[0], ast.Dict) and
                            c.args[0].keys and
                            all(k is not None for k in c.args[0].keys)
                            and _no_calls(c.func.value)):
                        continue
                    new = []
                    for k, v in zip(c.args[0].keys, c.args[0].values):
                        a = ast.Assign(targets=[ast.Subscript(
                            value=copy.deepcopy(c.func.value), slice=k,
                            ctx=ast.Store())], value=v, type_comment=None)
                        ast.copy_location(a, st)
                        ast.fix_missing_locations(a)
                        new.append(a)
                    j = blk.index(st)
                    blk[j:j + 1] = new
                    n += 1
    return n


def comprehension_key_loops(trees):
    """``{k: d[k] for k in d if ...}`` -> ``{k: v for k, v in d.items()
    if ...}`` (any comprehension whose only use of ``d`` besides the
    iterable is ``d[k]``)."""
    n = 0
    for tree in trees.values():
        for comp in ast.walk(tree):
            if not isinstance(comp, (ast.ListComp, ast.SetComp, ast.DictComp,
                                     ast.GeneratorExp)):
                continue
            if len(comp.generators) != 1:
                continue
            g = comp.generators[0]
            if not isinstance(g.target, ast.Name) or not _simple(g.iter) \
                    or isinstance(g.iter, ast.Constant):
                continue
            k = g.target.id
            dtxt = ast.dump(g.iter)
            parts = list(g.ifs)
            if isinstance(comp, ast.DictComp):
                parts += [comp.key, comp.value]
            else:
                parts += [comp.elt]
            subs = []
            other = False
            for p in parts:
                for x in ast.walk(p):
                    if isinstance(x, ast.Subscript) and ast.dump(
                            x.value) == dtxt and isinstance(
                            x.slice, ast.Name) and x.slice.id == k:
                        subs.append(x)
            if not subs:
                continue
            allnames = {m.id for m in ast.walk(tree)
                        if isinstance(m, ast.Name)}
            v = k + '_value'
            while v in allnames:
                v += '_'

            class R(ast.NodeTransformer):
                def visit_Subscript(self, node):
                    if any(node is s for s in subs):
                        return ast.copy_location(
                            ast.Name(id=v, ctx=ast.Load()), node)
                    return self.generic_visit(node)
            r = R()
            g.ifs = [r.visit(x) for x in g.ifs]
            if isinstance(comp, ast.DictComp):
                comp.key = r.visit(comp.key)
                comp.value = r.visit(comp.value)
            else:
                comp.elt = r.visit(comp.elt)
            g.target = ast.copy_location(ast.Tuple(
                elts=[ast.Name(id=k, ctx=ast.Store()),
                      ast.Name(id=v, ctx=ast.Store())], ctx=ast.Store()),
                g.target)
            g.iter = ast.copy_location(ast.Call(func=ast.Attribute(
                value=g.iter, attr='items', ctx=ast.Load()), args=[],
                keywords=[]), g.iter)
            ast.fix_missing_locations(comp)
            n += 1
    return n


def propagate_pure_aliases(trees):
    """``t = self.a.b`` / ``t = x['k']`` (a read without calls, t assigned
    once, nothing in the function stores to what was read or to a prefix
    of it) -> every read of ``t`` becomes the expression itself."""
    n = 0
    for tree in trees.values():
        for fn in _fn_scopes(tree):
            params = {a.arg for a in fn.args.args + fn.args.kwonlyargs
                      + fn.args.posonlyargs}
            for _round in range(4):
                stores, store_txt, banned = {}, set(), set()
                for m in ast.walk(fn):
                    if isinstance(m, ast.Name) and not isinstance(
                            m.ctx, ast.Load):
                        stores[m.id] = stores.get(m.id, 0) + 1
                    if isinstance(m, (ast.Attribute, ast.Subscript)) and \
                            not isinstance(m.ctx, ast.Load):
                        store_txt.add(ast.unparse(m))
                    if isinstance(m, (ast.Global, ast.Nonlocal)):
                        banned |= set(m.names)
                    if m is not fn and isinstance(
                            m, (ast.FunctionDef, ast.AsyncFunctionDef,
                                ast.Lambda, ast.ClassDef)):
                        for y in ast.walk(m):
                            if isinstance(y, ast.Name):
                                banned.add(y.id)
                mutated = set()
                for m in ast.walk(fn):
                    if isinstance(m, ast.Call) and isinstance(
                            m.func, ast.Attribute) and m.func.attr in (
                            'pop', 'update', 'clear', 'append', 'remove',
                            'setdefault', 'insert', 'extend', 'popitem',
                            'sort', 'reverse', 'add', 'discard'):
                        mutated.add(ast.unparse(m.func.value))
                    if isinstance(m, ast.Delete):
                        for tg in m.targets:
                            if isinstance(tg, (ast.Subscript,
                                               ast.Attribute)):
                                mutated.add(ast.unparse(tg.value))
                changed = False
                for blk in _blocks(fn):
                    for st in list(blk):
                        if not (isinstance(st, ast.Assign) and
                                len(st.targets) == 1 and
                                isinstance(st.targets[0], ast.Name)):
                            continue
                        t = st.targets[0].id
                        e = st.value
                        if t in banned or t in params or \
                                stores.get(t) != 1:
                            continue
                        if not isinstance(e, (ast.Attribute, ast.Subscript)) \
                                or not _no_calls(e):
                            continue
                        # prefixes of e, and the names it reads
                        pre, cur = [], e
                        while isinstance(cur, (ast.Attribute,
                                               ast.Subscript)):
                            pre.append(ast.unparse(cur))
                            cur = cur.value
                        if not isinstance(cur, ast.Name):
                            continue
                        if any(p in store_txt for p in pre):
                            # allowed when every read of the alias comes
                            # before (or in the right-hand side of) the
                            # first statement that stores there
                            k0 = blk.index(st)
                            first_store = None
                            for j in range(k0 + 1, len(blk)):
                                if any(isinstance(m, (ast.Attribute,
                                                      ast.Subscript))
                                       and not isinstance(m.ctx, ast.Load)
                                       and ast.unparse(m) in pre
                                       for m in ast.walk(blk[j])):
                                    first_store = j
                                    break
                            if first_store is None:
                                continue    # stored elsewhere: give up
                            late = False
                            for j in range(first_store, len(blk)):
                                for m in ast.walk(blk[j]):
                                    if isinstance(m, ast.Name) and \
                                            m.id == t and isinstance(
                                                m.ctx, ast.Load):
                                        if j > first_store or not \
                                                isinstance(blk[j],
                                                           ast.Assign):
                                            late = True
                            outside = sum(
                                1 for m in ast.walk(fn)
                                if isinstance(m, ast.Name) and m.id == t
                                and isinstance(m.ctx, ast.Load)) - sum(
                                1 for y in blk for m in ast.walk(y)
                                if isinstance(m, ast.Name) and m.id == t
                                and isinstance(m.ctx, ast.Load))
                            if late or outside:
                                continue
                        names = {m.id for m in ast.walk(e)
                                 if isinstance(m, ast.Name)}
                        if t in names:
                            continue
                        # something along the access path is changed in
                        # place by a method call: leave the local alone
                        # (a Subscript read could see another element)
                        if isinstance(e, ast.Subscript) and (
                                set(pre) | {cur.id}) & mutated:
                            continue
                        # every other name read must be stable: self, a
                        # parameter that is not re-assigned, or a name
                        # assigned once (incl. loop variables)
                        if any(nm != 'self' and stores.get(nm, 0) > 1
                               for nm in names):
                            continue
                        if any(nm in params and stores.get(nm, 0) > 0
                               for nm in names):
                            continue
                        # attribute of self must not be re-bound here
                        reads = [m for m in ast.walk(fn)
                                 if isinstance(m, ast.Name) and m.id == t
                                 and isinstance(m.ctx, ast.Load)]
                        if not reads:
                            continue
                        # replace
                        class R(ast.NodeTransformer):
                            def visit_Name(self, node):
                                if node.id == t and isinstance(
                                        node.ctx, ast.Load):
                                    return ast.copy_location(
                                        copy.deepcopy(e), node)
                                return node
                        r = R()
                        for b2 in _blocks(fn):
                            for j, y in enumerate(b2):
                                if y is not st:
                                    b2[j] = r.visit(y)
                        if len(blk) > 1:
                            blk.remove(st)
                        else:
                            blk[blk.index(st)] = ast.copy_location(
                                ast.Pass(), st)
                        changed = True
                        n += 1
                        break
                    if changed:
                        break
                if not changed:
                    break
    return n


def append_loops_to_comprehensions(trees):
    """``for v in IT: X.append(E)`` (the whole loop body, optionally under
    one ``if``) -> ``X += [E for v in IT (if c)]``; then ``X = []`` directly
    followed by ``X += L`` -> ``X = L``."""
    n = 0
    for tree in trees.values():
        for fn in _fn_scopes(tree):
            for blk in _blocks(fn):
                for st in list(blk):
                    if not (isinstance(st, ast.For) and not st.orelse and
                            len(st.body) == 1):
                        continue
                    inner = st.body[0]
                    conds = []
                    if isinstance(inner, ast.If) and not inner.orelse and \
                            len(inner.body) == 1:
                        conds = [inner.test]
                        inner = inner.body[0]
                    if not (isinstance(inner, ast.Expr) and isinstance(
                            inner.value, ast.Call)):
                        continue
                    c = inner.value
                    if not (isinstance(c.func, ast.Attribute) and
                            c.func.attr == 'append' and
                            isinstance(c.func.value, ast.Name) and
                            len(c.args) == 1 and not c.keywords):
                        continue
                    x = c.func.value.id
                    # the list must not be read by the element or the
                    # iterable (a comprehension would see the old list)
                    if any(isinstance(m, ast.Name) and m.id == x
                           for e in [c.args[0], st.iter] + conds
                           for m in ast.walk(e)):
                        continue
                    comp = ast.ListComp(elt=c.args[0], generators=[
                        ast.comprehension(target=st.target, iter=st.iter,
                                          ifs=conds, is_async=0)])
                    new = ast.Expr(value=ast.Call(func=ast.Attribute(
                        value=ast.Name(id=x, ctx=ast.Load()), attr='extend',
                        ctx=ast.Load()), args=[comp], keywords=[]))
                    ast.copy_location(new, st)
                    ast.fix_missing_locations(new)
                    blk[blk.index(st)] = new
                    n += 1
                # X += [..]  ->  X.extend([..])   (certainly a list)
                for st in list(blk):
                    if isinstance(st, ast.AugAssign) and isinstance(
                            st.op, ast.Add) and isinstance(
                            st.target, ast.Name) and isinstance(
                            st.value, (ast.List, ast.ListComp)):
                        new = ast.Expr(value=ast.Call(func=ast.Attribute(
                            value=ast.Name(id=st.target.id, ctx=ast.Load()),
                            attr='extend', ctx=ast.Load()),
                            args=[st.value], keywords=[]))
                        ast.copy_location(new, st)
                        ast.fix_missing_locations(new)
                        blk[blk.index(st)] = new
                        n += 1
                # X = [] ; X.extend(L)  ->  X = L
                i = 0
                while i + 1 < len(blk):
                    a, b = blk[i], blk[i + 1]
                    i += 1
                    tgt = None
                    if isinstance(a, ast.Assign) and len(a.targets) == 1 \
                            and isinstance(a.targets[0], ast.Name):
                        tgt, val = a.targets[0], a.value
                    elif isinstance(a, ast.AnnAssign) and isinstance(
                            a.target, ast.Name) and a.value is not None:
                        tgt, val = a.target, a.value
                    if tgt is None or not (isinstance(val, ast.List) and
                                           not val.elts):
                        continue
                    if isinstance(b, ast.Expr) and isinstance(
                            b.value, ast.Call) and isinstance(
                            b.value.func, ast.Attribute) and \
                            b.value.func.attr == 'extend' and isinstance(
                            b.value.func.value, ast.Name) and \
                            b.value.func.value.id == tgt.id and \
                            len(b.value.args) == 1 and isinstance(
                            b.value.args[0], (ast.ListComp, ast.List)):
                        new = ast.Assign(targets=[ast.Name(
                            id=tgt.id, ctx=ast.Store())],
                            value=b.value.args[0], type_comment=None)
                        ast.copy_location(new, b)
                        ast.fix_missing_locations(new)
                        blk[i - 1:i + 1] = [new]
                        i -= 1
                        n += 1
    return n


def or_assignments(trees):
    """``if not x: x = e`` (no else) -> ``x = x or e``."""
    n = 0
    for tree in trees.values():
        for fn in _fn_scopes(tree):
            for blk in _blocks(fn):
                for k, st in enumerate(list(blk)):
                    if not (isinstance(st, ast.If) and not st.orelse and
                            len(st.body) == 1 and
                            isinstance(st.test, ast.UnaryOp) and
                            isinstance(st.test.op, ast.Not) and
                            isinstance(st.test.operand, ast.Name)):
                        continue
                    a = st.body[0]
                    x = st.test.operand.id
                    if not (isinstance(a, ast.Assign) and len(a.targets) == 1
                            and isinstance(a.targets[0], ast.Name)
                            and a.targets[0].id == x):
                        continue
                    new = ast.Assign(
                        targets=[ast.Name(id=x, ctx=ast.Store())],
                        value=ast.BoolOp(op=ast.Or(), values=[
                            ast.Name(id=x, ctx=ast.Load()), a.value]),
                        type_comment=None)
                    ast.copy_location(new, st)
                    ast.fix_missing_locations(new)
                    blk[blk.index(st)] = new
                    n += 1
    return n


def index_reads_to_unpacking(trees):
    """``t = f(..); a = t[0]; b = t[1]`` (t read nowhere else) ->
    ``a, b = f(..)``."""
    n = 0
    for tree in trees.values():
        for fn in _fn_scopes(tree):
            counts = {}
            for m in ast.walk(fn):
                if isinstance(m, ast.Name):
                    counts.setdefault(m.id, [0, 0])[
                        0 if isinstance(m.ctx, ast.Load) else 1] += 1
            for blk in _blocks(fn):
                i = 0
                while i < len(blk):
                    st = blk[i]
                    i += 1
                    if not (isinstance(st, ast.Assign) and
                            len(st.targets) == 1 and
                            isinstance(st.targets[0], ast.Name) and
                            isinstance(st.value, ast.Call)):
                        continue
                    t = st.targets[0].id
                    if counts.get(t, [0, 0])[1] != 1:
                        continue
                    j = blk.index(st) + 1
                    got = []
                    while j < len(blk):
                        s2 = blk[j]
                        if isinstance(s2, ast.Assign) and \
                                len(s2.targets) == 1 and isinstance(
                                    s2.targets[0], ast.Name) and \
                                isinstance(s2.value, ast.Subscript) and \
                                isinstance(s2.value.value, ast.Name) and \
                                s2.value.value.id == t and isinstance(
                                    s2.value.slice, ast.Constant) and \
                                s2.value.slice.value == len(got):
                            got.append(s2)
                            j += 1
                        else:
                            break
                    if len(got) < 2 or counts[t][0] != len(got):
                        continue
                    names = [g.targets[0].id for g in got]
                    if len(set(names)) != len(names) or t in names:
                        continue
                    st.targets = [ast.copy_location(ast.Tuple(
                        elts=[ast.Name(id=x, ctx=ast.Store())
                              for x in names], ctx=ast.Store()),
                        st.targets[0])]
                    ast.fix_missing_locations(st)
                    for g in got:
                        blk.remove(g)
                    n += 1
    return n


def unroll_literal_loops(trees):
    """``for x in (A, B): body`` over a literal tuple/list of at most four
    simple expressions, body without break/continue and without re-binding
    x -> body[x:=A]; body[x:=B]."""
    n = 0
    for tree in trees.values():
        for fn in _fn_scopes(tree):
            for blk in _blocks(fn):
                for st in list(blk):
                    if not (isinstance(st, ast.For) and not st.orelse and
                            isinstance(st.target, ast.Name) and
                            isinstance(st.iter, (ast.Tuple, ast.List)) and
                            1 <= len(st.iter.elts) <= 4 and
                            all(_simple(e) for e in st.iter.elts)):
                        continue
                    x = st.target.id
                    inner = [m for b in st.body for m in ast.walk(b)]
                    if any(isinstance(m, (ast.Break, ast.Continue,
                                          ast.Lambda, ast.FunctionDef))
                           for m in inner):
                        continue
                    if any(isinstance(m, ast.Name) and m.id == x and
                           not isinstance(m.ctx, ast.Load) for m in inner):
                        continue
                    after = sum(1 for m in ast.walk(fn)
                                if isinstance(m, ast.Name) and m.id == x) \
                        - sum(1 for m in inner if isinstance(m, ast.Name)
                              and m.id == x) - 1
                    if after > 0:
                        continue
                    new = []
                    for e in st.iter.elts:
                        sub = _Subst({x: e}, {})
                        new += [sub.visit(copy.deepcopy(b)) for b in st.body]
                    k = blk.index(st)
                    blk[k:k + 1] = new
                    n += 1
    return n
