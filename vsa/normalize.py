"""Normalisation applied to every parsed module before indexing.

*Helper inlining.*  Every rule of the analyser is anchored in functions that
were read by hand on the pinned tree; their names are frozen in
``pinned_functions.json``.  A private function that is **not** in that list is
new code, and the most common reason for new code next to an anchor is that a
block of the anchor was extracted into a helper.  Such a helper is inlined
into its call sites (and its definition dropped) so that the rules analyse the
same statements wherever they were moved to - for benign extractions this
keeps the rules silent, for breaking ones it keeps the broken statements in
view of the path rules.

A helper is inlined only when this can be done without changing the order of
effects in a way a rule could observe:

* private name (leading underscore), no decorators, plain positional
  parameters, no generator, no nested function, not recursive;
* at most one ``return``, which is the last top-level statement;
* every reference to its name in the package is a direct call
  ``<simple>.name(...)`` / ``name(...)`` in the same module whose enclosing
  statement is a simple statement or the test of an ``if`` and which is not
  under a lambda, comprehension, conditional expression or the right operand
  of a boolean operator.

Anything else is left alone (and the rules see the call as a call).  The list
of what was inlined is part of the evidence (``Repo.inlined``).
"""

import ast
import copy
import json
from pathlib import Path

_PINNED = None


def pinned_functions():
    global _PINNED
    if _PINNED is None:
        p = Path(__file__).with_name('pinned_functions.json')
        _PINNED = {tuple(x) for x in json.loads(p.read_text())}
    return _PINNED


def _is_test_name(name):
    return (name.startswith('test_') or name.startswith('Test')
            or name.startswith('Toy') or name.startswith('_test'))


def _simple(e):
    if isinstance(e, (ast.Name, ast.Constant)):
        return True
    if isinstance(e, ast.Attribute):
        return _simple(e.value)
    return False


class _Subst(ast.NodeTransformer):
    def __init__(self, mapping, rename):
        self.mapping = mapping    # name -> expression (loads only)
        self.rename = rename      # name -> new name

    def visit_Name(self, node):
        if node.id in self.mapping and isinstance(node.ctx, ast.Load):
            return copy.deepcopy(self.mapping[node.id])
        if node.id in self.rename:
            return ast.copy_location(
                ast.Name(id=self.rename[node.id], ctx=node.ctx), node)
        return node


def _assigned_names(fn):
    out = set()
    for n in ast.walk(fn):
        if isinstance(n, ast.Name) and isinstance(n.ctx, (ast.Store, ast.Del)):
            out.add(n.id)
        elif isinstance(n, ast.ExceptHandler) and n.name:
            out.add(n.name)
    return out


def _all_names(fn):
    out = {a.arg for a in fn.args.args + fn.args.kwonlyargs
           + fn.args.posonlyargs}
    for n in ast.walk(fn):
        if isinstance(n, ast.Name):
            out.add(n.id)
    return out


def _helper_ok(fn):
    if fn.decorator_list:
        return False
    a = fn.args
    if a.vararg or a.kwarg or a.kwonlyargs or a.posonlyargs:
        return False
    body = fn.body
    for n in ast.walk(fn):
        if n is fn:
            continue
        if isinstance(n, (ast.FunctionDef, ast.AsyncFunctionDef, ast.ClassDef,
                          ast.Yield, ast.YieldFrom, ast.Await, ast.Global,
                          ast.Nonlocal)):
            return False
    rets = [n for n in ast.walk(fn) if isinstance(n, ast.Return)]
    if len(rets) > 1:
        return False
    if rets and rets[0] is not body[-1]:
        return False
    return True


def _strip_doc(body):
    if (body and isinstance(body[0], ast.Expr)
            and isinstance(body[0].value, ast.Constant)
            and isinstance(body[0].value.value, str)):
        return body[1:]
    return body


class _Site:
    __slots__ = ('call', 'stmt', 'holder', 'field', 'index', 'caller')


def _find_sites(tree, name, is_method):
    """All references to ``name`` in ``tree``; (sites, ok)."""
    parents = {}
    for n in ast.walk(tree):
        for c in ast.iter_child_nodes(n):
            parents[c] = n
    sites, ok = [], True
    for n in ast.walk(tree):
        ref = None
        if is_method and isinstance(n, ast.Attribute) and n.attr == name:
            ref = n
        elif not is_method and isinstance(n, ast.Name) and n.id == name:
            ref = n
        elif isinstance(n, ast.Constant) and n.value == name:
            ok = False      # getattr(..., 'name') and the like
        if ref is None:
            continue
        p = parents.get(ref)
        if not (isinstance(p, ast.Call) and p.func is ref):
            ok = False
            continue
        if is_method and not _simple(ref.value):
            ok = False
            continue
        if any(isinstance(a, ast.Starred) for a in p.args) or any(
                k.arg is None for k in p.keywords):
            ok = False
            continue
        # climb to the statement
        cur, bad = p, False
        while not isinstance(cur, ast.stmt):
            up = parents.get(cur)
            if isinstance(up, (ast.Lambda, ast.ListComp, ast.SetComp,
                               ast.DictComp, ast.GeneratorExp, ast.IfExp)):
                bad = True
            if isinstance(up, ast.BoolOp) and up.values[0] is not cur:
                bad = True
            cur = up
        stmt = cur
        if isinstance(stmt, (ast.Expr, ast.Assign, ast.AnnAssign,
                             ast.AugAssign, ast.Return)):
            pass
        elif isinstance(stmt, ast.If):
            # only inside the test
            inside = any(x is p for x in ast.walk(stmt.test))
            if not inside:
                bad = True
        else:
            bad = True
        if bad:
            ok = False
            continue
        holder = parents.get(stmt)
        field = index = None
        for f, v in ast.iter_fields(holder):
            if isinstance(v, list):
                for i, x in enumerate(v):
                    if x is stmt:
                        field, index = f, i
        if field is None:
            ok = False
            continue
        caller = stmt
        while caller is not None and not isinstance(
                caller, (ast.FunctionDef, ast.AsyncFunctionDef)):
            caller = parents.get(caller)
        if caller is None:
            ok = False
            continue
        s = _Site()
        s.call, s.stmt, s.holder, s.field, s.index, s.caller = (
            p, stmt, holder, field, index, caller)
        sites.append(s)
    return sites, ok


def _replace_node(root, old, new):
    for n in ast.walk(root):
        for f, v in ast.iter_fields(n):
            if v is old:
                setattr(n, f, new)
                return True
            if isinstance(v, list):
                for i, x in enumerate(v):
                    if x is old:
                        v[i] = new
                        return True
    return False


def _bind(call, helper, is_method):
    params = [a.arg for a in helper.args.args]
    defaults = helper.args.defaults
    ndef = len(defaults)
    args = {}
    actual = list(call.args)
    if is_method:
        actual = [call.func.value] + actual
    if len(actual) > len(params):
        return None
    for p, a in zip(params, actual):
        args[p] = a
    for k in call.keywords:
        if k.arg not in params or k.arg in args:
            return None
        args[k.arg] = k.value
    for i, p in enumerate(params):
        if p not in args:
            j = i - (len(params) - ndef)
            if j < 0:
                return None
            args[p] = defaults[j]
    return args


def _inline_at(site, helper, is_method):
    call = site.call
    params = [a.arg for a in helper.args.args]
    args = _bind(call, helper, is_method)
    if args is None:
        return False
    assigned = _assigned_names(helper)
    caller_names = _all_names(site.caller)
    mapping, rename, prologue = {}, {}, []

    def fresh(base):
        n, k = base, 0
        while n in caller_names:
            k += 1
            n = '%s_h%d' % (base, k)
        caller_names.add(n)
        return n

    for p in params:
        a = args[p]
        if _simple(a) and p not in assigned:
            mapping[p] = a
        else:
            new = p if (isinstance(a, ast.Name) and a.id == p) else fresh(p)
            if new != p:
                rename[p] = new
            if not (isinstance(a, ast.Name) and a.id == new):
                asg = ast.Assign(
                    targets=[ast.Name(id=new, ctx=ast.Store())],
                    value=copy.deepcopy(a), type_comment=None)
                ast.copy_location(asg, site.stmt)
                ast.fix_missing_locations(asg)
                prologue.append(asg)
    # ``x = helper(...)`` whose helper ends in ``return local``: the local
    # simply becomes x (no alias is introduced)
    direct = None
    last = helper.body[-1]
    if isinstance(site.stmt, ast.Assign) and site.stmt.value is call and \
            len(site.stmt.targets) == 1 and isinstance(
                site.stmt.targets[0], ast.Name) and isinstance(
                last, ast.Return) and isinstance(last.value, ast.Name) and \
            last.value.id in assigned and last.value.id not in params:
        tname = site.stmt.targets[0].id
        used_in_args = any(isinstance(n, ast.Name) and n.id == tname
                           for a in args.values() for n in ast.walk(a))
        clash = tname in (_all_names(helper) - {last.value.id})
        if not used_in_args and not clash:
            direct = last.value.id
            if direct != tname:
                rename[direct] = tname
    for loc in sorted(assigned - set(params)):
        if loc == direct:
            continue
        if loc in caller_names:
            rename[loc] = fresh(loc)
        else:
            caller_names.add(loc)
    body = [copy.deepcopy(s) for s in _strip_doc(helper.body)]
    sub = _Subst(mapping, rename)
    body = [sub.visit(s) for s in body]
    ret = None
    if body and isinstance(body[-1], ast.Return):
        ret = body[-1].value
        body = body[:-1]
    lst = getattr(site.holder, site.field)
    if direct is not None:
        lst[site.index:site.index + 1] = prologue + body
    elif isinstance(site.stmt, ast.Expr) and site.stmt.value is call:
        new_stmts = prologue + body
        if ret is not None and not _simple(ret):
            e = ast.Expr(value=ret)
            ast.copy_location(e, site.stmt)
            new_stmts.append(e)
        if not new_stmts:
            p = ast.Pass()
            ast.copy_location(p, site.stmt)
            new_stmts = [p]
        lst[site.index:site.index + 1] = new_stmts
    else:
        if ret is None:
            ret = ast.copy_location(ast.Constant(value=None), call)
        _replace_node(site.stmt, call, ret)
        lst[site.index:site.index] = prologue + body
    return True


def inline_new_helpers(trees):
    """``trees``: {module name: ast.Module}.  Mutates the trees.  Returns a
    list of 'module.qual -> caller' strings describing what was inlined."""
    pinned = pinned_functions()
    done = []
    for _round in range(3):
        changed = False
        for modname, tree in trees.items():
            cands = []
            for node in tree.body:
                if isinstance(node, ast.FunctionDef):
                    cands.append((node.name, node, None))
                elif isinstance(node, ast.ClassDef):
                    for sub in node.body:
                        if isinstance(sub, ast.FunctionDef):
                            cands.append((node.name + '.' + sub.name, sub,
                                          node))
            for qual, fn, cls in cands:
                if (modname, qual) in pinned:
                    continue
                if not fn.name.startswith('_') or fn.name.startswith('__'):
                    continue
                if _is_test_name(fn.name) or (cls and _is_test_name(cls.name)):
                    continue
                if not _helper_ok(fn):
                    continue
                is_method = cls is not None
                if is_method and (not fn.args.args
                                  or fn.args.args[0].arg != 'self'):
                    continue
                # references elsewhere in the package forbid inlining
                other = False
                for m2, t2 in trees.items():
                    if m2 == modname:
                        continue
                    for n in ast.walk(t2):
                        if (isinstance(n, ast.Attribute)
                                and n.attr == fn.name) or (
                                isinstance(n, ast.Name)
                                and n.id == fn.name) or (
                                isinstance(n, ast.alias)
                                and n.name == fn.name):
                            other = True
                            break
                    if other:
                        break
                if other:
                    continue
                # a method of the same name in another class
                if is_method and sum(
                        1 for n in ast.walk(tree)
                        if isinstance(n, ast.FunctionDef)
                        and n.name == fn.name) > 1:
                    continue
                # detach the definition while looking for references
                holder = cls.body if cls else tree.body
                pos = holder.index(fn)
                del holder[pos]
                sites, ok = _find_sites(tree, fn.name, is_method)
                recursive = any(
                    (isinstance(n, ast.Attribute) and n.attr == fn.name)
                    or (isinstance(n, ast.Name) and n.id == fn.name)
                    for n in ast.walk(fn))
                if ok and any(_bind(s.call, fn, is_method) is None
                              for s in sites):
                    ok = False
                if not ok or not sites or recursive:
                    holder.insert(pos, fn)
                    continue
                good = True
                # inline from the last site to the first so that indices of
                # earlier statements in the same list stay valid
                for s in sorted(sites, key=lambda s: (
                        getattr(s.stmt, 'lineno', 0)), reverse=True):
                    # re-find the index (earlier inlining may have shifted)
                    lst = getattr(s.holder, s.field)
                    s.index = next(i for i, x in enumerate(lst)
                                   if x is s.stmt)
                    if not _inline_at(s, fn, is_method):
                        good = False
                        break
                if not good:
                    # partial inlining cannot be undone safely: signal it
                    raise RuntimeError('helper inlining failed half-way for '
                                       '%s.%s' % (modname, qual))
                if not holder:
                    holder.append(ast.Pass())
                done.append('%s.%s -> %s' % (
                    modname, qual,
                    ', '.join(sorted({s.caller.name for s in sites}))))
                changed = True
        if not changed:
            break
    return done
