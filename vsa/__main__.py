"""Command line: ``python -m vsa check <id> [--tier quick|thorough]``."""

import argparse
import json
import os
import sys
import traceback

from .loader import Repo, AnalysisError
from .report import Check


def clear_caches():
    """Drop the per-function caches (they pin the parsed trees)."""
    from . import callgraph, cfg, dataflow
    callgraph._cg_cache.clear()
    cfg._cache.clear()
    dataflow._reach_cache.clear()


def parse_tree(overlay=None, root=None):
    """Parsed and normalised tree to hand to several run_check calls, or an
    AnalysisError instance when it cannot be built."""
    try:
        return Repo(root=root, overlay=overlay)
    except AnalysisError as e:
        return e


def run_check(prop, tier='quick', overlay=None, write=True, quiet=False,
              root=None, repo=None):
    """Run one property's rules; returns the Check (status in .status;
    2 = analysis error, with .error set).  ``repo``: an already parsed tree
    to analyse (several properties on one variant share the parse)."""
    from .rules import RULES
    ck = None
    try:
        if isinstance(repo, AnalysisError):
            raise repo
        if repo is None:
            repo = Repo(root=root, overlay=overlay)
        ck = Check(prop, repo, tier)
        RULES[prop](ck)
        ck.finish(write=write, quiet=quiet)
        ck.error = None
        return ck
    except AnalysisError as e:
        if ck is None:
            ck = Check.__new__(Check)
            ck.violations = []
            ck.obligations = []
        ck.status = 2
        ck.error = 'ANALYSIS-ERROR property=%s %s' % (prop, e)
        ck.unlisted = []
        ck.listed = []
        if not quiet:
            print(ck.error)
        return ck
    except Exception as e:     # checker crash: never a violation
        if ck is None:
            ck = Check.__new__(Check)
            ck.violations = []
            ck.obligations = []
        ck.status = 2
        ck.error = 'ANALYSIS-ERROR property=%s checker crashed: %r' % (
            prop, e)
        ck.unlisted = []
        ck.listed = []
        if not quiet:
            print(ck.error)
            traceback.print_exc()
        return ck


def main(argv=None):
    ap = argparse.ArgumentParser(prog='vsa')
    sub = ap.add_subparsers(dest='cmd')
    c = sub.add_parser('check')
    c.add_argument('prop')
    c.add_argument('--tier', default=os.environ.get('VERIF_TIER') or 'quick')
    c.add_argument('--jobs', type=int, default=16)
    r = sub.add_parser('replay')
    r.add_argument('path')
    sub.add_parser('self-check')
    a = sub.add_parser('all')
    a.add_argument('--tier', default='quick')
    ap.add_argument('--self-check', action='store_true', dest='selfcheck')
    args = ap.parse_args(argv)

    if args.selfcheck or args.cmd == 'self-check':
        return self_check()
    if args.cmd == 'check':
        tier = args.tier if args.tier in ('quick', 'thorough') else 'quick'
        if tier == 'thorough':
            from .selftest import run_thorough
            return run_thorough(args.prop, args.jobs)
        ck = run_check(args.prop, tier)
        return ck.status
    if args.cmd == 'replay':
        rec = json.loads(open(args.path).read())
        ck = run_check(rec['property'], rec.get('tier', 'quick'),
                       write=False)
        keys = {(v['rule'], v['function'], v['construct'])
                for v in rec['violations']}
        still = [v for v in ck.violations
                 if (v.rule, v.function, v.construct) in keys]
        print('replay: %d of %d recorded violation(s) still present' % (
            len(still), len(keys)))
        return 1 if still else 0
    if args.cmd == 'all':
        from .rules import RULES
        worst = 0
        for prop in sorted(RULES):
            ck = run_check(prop, args.tier)
            worst = max(worst, ck.status)
        return worst
    ap.print_help()
    return 2


def self_check():
    """setup_cmd: import everything, parse the tree, resolve the anchors."""
    from .rules import RULES
    try:
        repo = Repo()
    except AnalysisError as e:
        print('ANALYSIS-ERROR', e)
        return 2
    print('vsa: parsed', repo.stats())
    print('vsa: rules for', ', '.join(sorted(RULES)))
    return 0


class _QuietPipe:
    """stdout that ignores a reader that went away (`... | head`): the exit
    status must not depend on who is listening."""

    def __init__(self, stream):
        self._s = stream
        self._dead = False

    def write(self, text):
        if self._dead:
            return len(text)
        try:
            return self._s.write(text)
        except BrokenPipeError:
            self._dead = True
            return len(text)

    def flush(self):
        if self._dead:
            return
        try:
            self._s.flush()
        except BrokenPipeError:
            self._dead = True

    def __getattr__(self, name):
        return getattr(self._s, name)


if __name__ == '__main__':
    sys.stdout = _QuietPipe(sys.stdout)
    try:
        code = main()
    except SystemExit:
        raise
    except Exception:      # pragma: no cover
        traceback.print_exc()
        print('ANALYSIS-ERROR checker crashed')
        code = 2
    sys.stdout.flush()
    os._exit(code or 0)
