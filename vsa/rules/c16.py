"""C16 - composites embed, merge and load the same way through every entry
point."""

import ast

from .. import astutil as A
from ..cfg import cfg_of, within
from ..dataflow import derives, expand, local_defs, reaching
from ..loader import enclosing_stmt
from .c15 import _name_agreement

EXPL = (
    'Ownership after merge, decided by an abstract interpretation of '
    'Composite.merge over a freshness lattice (Fresh / ShallowFresh / '
    'Shared, with the set of parameters or self attributes a container may '
    'share nested dictionaries with): no parameter-derived container is '
    'mutated, and what is deep-merged into self.* shares nothing with a '
    'parameter; every one of the five parts is merged into the attribute '
    'of the same name. Query methods (initial_state/default_state and '
    'their helpers) never pass something aliasing self.* or a parameter as '
    'the first (mutated) argument of deep_merge. Embedding agreement: the '
    'four parts are wrapped with assoc_in({}, path, .) at the same path in '
    'Composer.generate and Process.generate, and schema overrides are '
    'applied to processes and steps at the four construction sites. '
    'Entry-point agreement: each branch of Engine._make_store assigns all '
    'four parts, get_composite_from_store pairs every keyword with the '
    'same-named getter, and no call swaps like-named arguments. '
    'MetaComposer rejects overlapping keys before merging; Datum deep-'
    'copies the class defaults. Not decided: equality of trajectories.')

PARTS = ['processes', 'topology', 'steps', 'flow', 'state']
USER_CALLBACKS = {'ports_schema', 'initial_state', 'next_update',
                  'generate_processes', 'generate_steps',
                  'generate_topology', 'generate_flow'}
FRESH, SHALLOW, SHARED = 0, 1, 2


class Val:
    __slots__ = ('level', 'shares')

    def __init__(self, level=FRESH, shares=()):
        self.level = level
        self.shares = set(shares)

    def join(self, o):
        return Val(max(self.level, o.level), self.shares | o.shares)

    def __repr__(self):
        return '%s%s' % (['Fresh', 'ShallowFresh', 'Shared'][self.level],
                         sorted(self.shares) or '')


class Ownership:
    """Source-order abstract interpretation of one function."""

    def __init__(self, ck, fi, rule):
        self.ck, self.fi, self.rule = ck, fi, rule
        self.params = set(A.params_of(fi.node)) - {'self'}
        self.env = {}
        self.events = []     # (kind, stmt, target expr, target val, arg val)
        # locals that hold a function: name -> the callables it may name
        self.fn_alias = {}
        for n in A.walk_no_nested(fi.node):
            if isinstance(n, ast.Assign) and len(n.targets) == 1 and \
                    isinstance(n.targets[0], ast.Name):
                vals = [n.value]
                if isinstance(n.value, ast.IfExp):
                    vals = [n.value.body, n.value.orelse]
                if all(isinstance(v, (ast.Name, ast.Attribute))
                       for v in vals) and any(
                        isinstance(c.func, ast.Name) and
                        c.func.id == n.targets[0].id
                        for c in A.calls_in(fi.node)):
                    self.fn_alias.setdefault(n.targets[0].id, []).extend(
                        vals)

    def ev(self, e):
        if e is None:
            return Val()
        if isinstance(e, ast.Name):
            if e.id in self.env:
                v = self.env[e.id]
                return Val(v.level, v.shares)
            if e.id in self.params:
                return Val(SHARED, {e.id})
            return Val()
        if isinstance(e, ast.Attribute):
            if A.is_name(e.value, 'self'):
                return Val(SHARED, {'self.' + e.attr})
            b = self.ev(e.value)
            return Val(SHARED if b.shares else FRESH, b.shares)
        if isinstance(e, ast.Subscript):
            b = self.ev(e.value)
            return Val(SHARED if b.shares else FRESH, b.shares)
        if isinstance(e, ast.BoolOp):
            out = Val()
            for v in e.values:
                out = out.join(self.ev(v))
            return out
        if isinstance(e, ast.IfExp):
            return self.ev(e.body).join(self.ev(e.orelse))
        if isinstance(e, ast.Dict):
            out = Val()
            for v in e.values:
                out = out.join(self.ev(v))
            if out.shares:
                out.level = SHALLOW
            return out
        if isinstance(e, ast.Call) and isinstance(e.func, ast.Name) and \
                e.func.id in self.fn_alias:
            # a function chosen at run time: the weakest of the candidates
            out = None
            for cand in self.fn_alias[e.func.id]:
                c2 = ast.Call(func=cand, args=e.args, keywords=e.keywords)
                ast.copy_location(c2, e)
                v = self.ev(c2)
                out = v if out is None else out.join(v)
            return out
        if isinstance(e, ast.Call):
            name = A.call_name(e)
            recv = A.call_receiver(e)
            if name in ('deep_copy_internal', 'deepcopy'):
                return Val(FRESH)
            if name in ('dict', 'copy') and (e.args or recv is not None):
                src = e.args[0] if e.args else recv
                if name == 'copy' and recv is not None and A.is_name(
                        recv, 'copy') and e.args:
                    src = e.args[0]
                b = self.ev(src)
                return Val(SHALLOW if b.shares else FRESH, b.shares)
            if name == 'get' and recv is not None:
                b = self.ev(recv)
                d = self.ev(e.args[1]) if len(e.args) > 1 else Val()
                return Val(SHARED if b.shares else d.level,
                           b.shares | d.shares)
            if name == 'assoc_in' and len(e.args) == 3:
                b = self.ev(e.args[2])
                base = self.ev(e.args[0])
                return Val(SHALLOW if (b.shares or base.shares) else FRESH,
                           b.shares | base.shares)
            if name in ('deep_merge', 'deep_merge_check',
                        'deep_merge_combine_lists') and e.args:
                self.mutate('deep', e, e)
                return self.ev(e.args[0])
            if name in USER_CALLBACKS:
                # results of overridable hooks may be shared objects
                return Val(SHARED, {'result of %s()' % name})
            # other calls: assumed to return containers they own; merges
            # nested in their arguments still happen
            for a in list(e.args) + [k.value for k in e.keywords]:
                if any(isinstance(x, ast.Call) for x in ast.walk(a)):
                    self.ev(a)
            return Val()
        return Val()

    def mutate(self, kind, call, stmt):
        if kind == 'deep':
            tgt, arg = call.args[0], (call.args[1] if len(call.args) > 1
                                      else None)
        else:
            tgt, arg = A.call_receiver(call), (call.args[0] if call.args
                                               else None)
        tv, av = self.ev(tgt), self.ev(arg)
        self.events.append((kind, stmt, tgt, tv, av, arg))
        # effect on the target's sharing
        if isinstance(tgt, ast.Name):
            cur = self.env.get(tgt.id)
            if cur is None:
                cur = self.ev(tgt)
            nv = Val(cur.level, cur.shares | av.shares)
            if av.shares and nv.level == FRESH:
                nv.level = SHALLOW
            self.env[tgt.id] = nv

    def run(self):
        stmts = [n for n in A.walk_no_nested(self.fi.node)
                 if isinstance(n, ast.stmt)]
        stmts.sort(key=lambda s: (s.lineno, s.col_offset))
        for s in stmts:
            if isinstance(s, ast.Assign):
                v = self.ev(s.value)
                for t in s.targets:
                    if isinstance(t, ast.Name):
                        self.env[t.id] = v
            elif isinstance(s, ast.AnnAssign) and s.value is not None and \
                    isinstance(s.target, ast.Name):
                self.env[s.target.id] = self.ev(s.value)
            elif isinstance(s, ast.Expr) and isinstance(s.value, ast.Call):
                c = s.value
                nm = A.call_name(c)
                if nm in ('deep_merge', 'deep_merge_check',
                          'deep_merge_combine_lists'):
                    self.mutate('deep', c, s)
                elif nm == 'update' and A.call_receiver(c) is not None:
                    self.mutate('top', c, s)
                else:
                    self.ev(c)
            elif isinstance(s, ast.Return) and s.value is not None:
                self.ev(s.value)
        return self.events


def check(ck):
    ck.explanation = EXPL
    ck.technique = ('abstract interpretation over a freshness/ownership '
                    'lattice, sibling agreement of embedding sites, '
                    'swapped-argument detector, CFG dominance')
    ck.assume('functions other than the summarised copy / identity '
              'primitives return containers they own')
    r16_1(ck)
    r16_5(ck)
    r16_2(ck)
    r16_3(ck)
    r16_4(ck)
    r16_6(ck)
    r16_7(ck)
    r16_8(ck)
    from . import helpers as H
    ck.rule('R16.9', 'deep_merge / deep_merge_check / assoc_path, with which composites are merged and embedded, keep their recursion skeleton')
    H.deep_merge_shape(ck, 'R16.9')
    H.assoc_path_shape(ck, 'R16.9')
    H.deep_copy_internal_shape(ck, 'R16.9')
    r16_10(ck)
    r16_11(ck)
    from . import c10
    ck.shared('R16.12', 'the engine publishes the parts of the composite it '
              'was given, whatever they hold: in the composite branch of '
              'Engine._make_store each of processes, steps, flow and '
              'topology is the dictionary of the composite (an empty steps '
              'dictionary does not make the flow disappear - steps may '
              'live among the processes)',
              c10.r10_9)
    from . import c07
    ck.shared('R16.13', 'the store entry point sees the same state as the '
              'other two: with a pre-built store the initial state is laid '
              'over it before the views are built (children it creates '
              'under glob ports are visible from the first invocation, as '
              'they are when the store is generated from a composite)',
              c07.r07_7)


def r16_10(ck):
    ck.rule('R16.10', 'building an engine leaves the composite it is built '
            'from unchanged: Engine._make_store and Engine.__init__ never '
            'merge into, update or otherwise mutate a dictionary taken '
            'from the composite (or from the other arguments)')
    n = 0
    for q in ('Engine._make_store', 'Engine.__init__'):
        f = ck.fn(q, 'core.engine')
        pnames = set(A.params_of(f.node)) - {'self'}
        for c in A.calls_in(f.node, ('deep_merge', 'deep_merge_check',
                                     'deep_merge_combine_lists',
                                     'deep_merge_multi_update')):
            a0 = A.arg_of(c, 0)
            if a0 is None:
                continue
            n += 1
            from_arg = derives(
                f.node, a0, lambda x: isinstance(x, ast.Name)
                and x.id in pnames, at=c) and not (
                isinstance(a0, ast.Call) and A.call_name(a0) in (
                    'deep_copy_internal', 'deepcopy', 'copy', 'dict'))
            ck.require(not from_arg, 'R16.10', f, c,
                       'the dictionary merged into is owned by the engine',
                       '%s merges into %s, which belongs to an argument of '
                       'the engine: the composite is changed by building an '
                       'engine from it, and the next engine built from it '
                       '(or from the store generated from it) starts from '
                       'the merged state' % (q, A.unparse(a0)), c)
        for c in A.calls_in(f.node, ('update', 'setdefault', 'pop',
                                     'clear')):
            r = A.call_receiver(c)
            if r is None:
                continue
            root = r
            while isinstance(root, (ast.Subscript, ast.Attribute)):
                root = root.value
            if isinstance(root, ast.Name) and root.id in pnames and \
                    isinstance(r, (ast.Subscript, ast.Name)):
                n += 1
                ck.fail('R16.10', f, c,
                        '%s changes %s in place, which belongs to an '
                        'argument of the engine' % (q, A.unparse(r)), c,
                        what='arguments are not changed in place')
    ck.note('R16.10: %d mutating calls in the engine constructor path' % n)


def _part_sources(f, expr):
    """Which of the parts handed to Composite.merge (the parameters named
    like the parts, or composite['<part>'] / composite.get('<part>')) flow
    into the local ``expr`` names - through assignments, in-place updates
    and deep merges into it."""
    out = set()
    names = set(A.names_in(expr))
    work = list(names)
    seen = set()

    def scan(v):
        for x in ast.walk(v):
            if isinstance(x, ast.Name):
                if x.id in PARTS:
                    out.add(x.id)
                elif x.id not in seen:
                    work.append(x.id)
            if isinstance(x, ast.Subscript) and isinstance(
                    x.slice, ast.Constant) and x.slice.value in PARTS:
                out.add(x.slice.value)
            if isinstance(x, ast.Call) and A.call_name(x) == 'get' and \
                    x.args and isinstance(x.args[0], ast.Constant) and \
                    x.args[0].value in PARTS:
                out.add(x.args[0].value)
    while work:
        nm = work.pop()
        if nm in seen:
            continue
        seen.add(nm)
        if nm in PARTS:
            out.add(nm)
            continue
        for d in local_defs(f.node).get(nm, []):
            if d.value is not None and d.kind != 'param':
                scan(d.value)
        for c in A.calls_in(f.node):
            if A.call_name(c) in ('deep_merge', 'deep_merge_check',
                                  'deep_merge_combine_lists') and \
                    len(c.args) >= 2 and A.is_name(c.args[0], nm):
                scan(c.args[1])
    return out


def r16_1(ck):
    ck.rule('R16.1', 'merge freshness: Composite.merge mutates nothing '
            'that shares structure with a parameter, and what it deep-'
            'merges into self.* shares nothing with a parameter; each part '
            'is merged into the attribute of the same name')
    f = ck.fn('Composite.merge', 'core.composer')
    ow = Ownership(ck, f, 'R16.1')
    events = ow.run()
    params = ow.params
    n = 0
    merged_into = {}
    merged_from = {}
    for kind, stmt, tgt, tv, av, arg in events:
        n += 1
        tname = A.unparse(tgt)
        pshared = tv.shares & params
        if kind == 'deep':
            ck.require(not pshared, 'R16.1', f, stmt,
                       'the container mutated by the nested merge shares '
                       'nothing with a parameter',
                       'deep merge into `%s`, which shares nested '
                       'dictionaries with the argument(s) %s: the merged-in '
                       'composite (or the caller\'s dictionaries) is '
                       'mutated' % (tname, sorted(pshared)), stmt)
        else:
            direct = isinstance(tgt, ast.Name) and tgt.id in params
            ck.require(not direct, 'R16.1', f, stmt,
                       'no parameter is updated in place', None, stmt)
        if tname.startswith('self.') and kind == 'deep':
            part = tname[5:]
            merged_into[part] = stmt
            ashared = av.shares & params
            ck.require(not ashared, 'R16.1', f, stmt,
                       'what is merged into %s is fresh (shares nothing '
                       'with a parameter)' % tname,
                       '%s receives nested dictionaries shared with %s: a '
                       'later merge into this composite also changes the '
                       'composite that was merged in' % (
                           tname, sorted(ashared)), stmt)
            an = A.unparse(arg) if arg is not None else ''
            srcs = _part_sources(f, arg) if arg is not None else set()
            merged_from[part] = arg
            ck.require(part in srcs and not (srcs - {part}), 'R16.1', f,
                       stmt,
                       'the %s part is merged into self.%s' % (part, part),
                       'self.%s is merged from %s, which is built from the '
                       '%s given to merge' % (part, an, sorted(srcs)), stmt)
    for part in PARTS:
        ck.require(part in merged_into, 'R16.1', f,
                   'merge into self.' + part,
                   'the %s of the merged-in composite/arguments reach '
                   'self.%s' % (part, part),
                   'Composite.merge no longer merges the %s part: the '
                   'union is incomplete' % part)
    ck.floor('R16.1', n, 10, 'mutating operations in Composite.merge')
    # every part is embedded at `path` before it is merged into self
    for part in PARTS:
        ok = False
        src = merged_from.get(part)
        lname = src.id if isinstance(src, ast.Name) else 'merge_' + part
        for d in local_defs(f.node).get(lname, []):
            v = d.value
            # assoc_in({}, path, <the local the part was collected in>)
            if isinstance(v, ast.Call) and A.call_name(v) == 'assoc_in' \
                    and A.is_name(A.arg_of(v, 1), 'path') and isinstance(
                        A.arg_of(v, 2), ast.Name) and part in \
                    _part_sources(f, A.arg_of(v, 2)):
                ok = True
        ck.require(ok, 'R16.1', f, 'merge_%s at path' % part,
                   'the %s to merge are embedded at the given path' % part,
                   'the %s part is merged at the root instead of at `path`'
                   % part)


QUERY_FUNCS = [('Composite.initial_state', 'core.composer'),
               ('Composite.default_state', 'core.composer'),
               ('_get_composite_state', 'core.composer'),
               ('_get_composite_state_recur', 'core.composer'),
               ('Composite.generate_store', 'core.composer'),
               ('Composer.initial_state', 'core.composer')]


GEN_FUNCS = [('Composer.generate', 'core.composer'),
             ('Process.generate', 'core.process')]


def r16_11(ck):
    ck.rule('R16.11', 'generating does not write into the template: in '
            'Composer.generate / Process.generate the mutated (first) '
            'argument of a deep merge never shares nested dictionaries '
            'with self.* (the stored configuration) or with a parameter - '
            'a composer used several times yields the same composite each '
            'time')
    n = 0
    for q, m in GEN_FUNCS:
        f = ck.fn(q, m)
        ow = Ownership(ck, f, 'R16.11')
        for kind, stmt, tgt, tv, av, arg in ow.run():
            if kind != 'deep':
                continue
            n += 1
            bad = {s for s in tv.shares
                   if s.startswith('self.') or s in ow.params}
            ck.require(not bad, 'R16.11', f, stmt,
                       'the configuration merged into is a private copy',
                       'generate() deep-merges the per-call options into a '
                       'dictionary that shares nested dictionaries with %s: '
                       'options given to one generate() call stay in the '
                       'composer and every later composite generated from '
                       'it inherits them' % sorted(bad), stmt)
    ck.floor('R16.11', n, 2, 'configuration merges in generate()')


def r16_5(ck):
    ck.rule('R16.5', 'queries do not write: in initial_state / '
            'default_state and their helpers the mutated (first) argument '
            'of deep_merge never aliases self.* or a parameter')
    n = 0
    for q, m in QUERY_FUNCS:
        f = ck.fn(q, m)
        ow = Ownership(ck, f, 'R16.5')
        for kind, stmt, tgt, tv, av, arg in ow.run():
            n += 1
            bad = {s for s in tv.shares
                   if s.startswith('self.') or s in ow.params}
            ck.require(not bad, 'R16.5', f, stmt,
                       'the container mutated is owned by this call',
                       'asking for a state mutates %s (first argument of '
                       'the merge aliases it): the composite grows every '
                       'time it is queried' % sorted(bad), stmt)
    ck.floor('R16.5', n, 3, 'merges in query functions')


def _embedding(ck, f, rule, parts=('processes', 'steps', 'flow',
                                   'topology')):
    """The returned mapping embeds every part with assoc_in({}, path, .)."""
    found = {}
    for d in ast.walk(f.node):
        if isinstance(d, ast.Dict):
            for k, v in zip(d.keys, d.values):
                if isinstance(k, ast.Constant) and k.value in parts:
                    found.setdefault(k.value, v)
    # {key: g(value) for key, value in <literal dict>.items()}: the same
    # mapping written as data
    import copy as _copy
    for dc in ast.walk(f.node):
        if not (isinstance(dc, ast.DictComp) and len(dc.generators) == 1):
            continue
        g = dc.generators[0]
        if not (isinstance(g.iter, ast.Call) and A.call_name(g.iter) ==
                'items' and isinstance(g.target, ast.Tuple) and len(
                    g.target.elts) == 2 and not g.ifs and A.unparse(
                    dc.key) == A.unparse(g.target.elts[0])):
            continue
        src = expand(f.node, g.iter.func.value, enclosing_stmt(dc))
        if not isinstance(src, ast.Dict):
            continue
        vvar = A.unparse(g.target.elts[1])
        for k, v in zip(src.keys, src.values):
            if isinstance(k, ast.Constant) and k.value in parts:
                e = _copy.deepcopy(dc.value)
                for x in ast.walk(e):
                    for fld, val in ast.iter_fields(x):
                        if isinstance(val, ast.Name) and val.id == vvar:
                            setattr(x, fld, v)
                        elif isinstance(val, list):
                            for i2, y in enumerate(val):
                                if isinstance(y, ast.Name) and y.id == vvar:
                                    val[i2] = v
                for x in ast.walk(e):
                    for c2 in ast.iter_child_nodes(x):
                        c2._parent = x
                e._parent = getattr(dc, '_parent', None)
                found[k.value] = e
    for part in parts:
        v = found.get(part)
        ok = isinstance(v, ast.Call) and A.call_name(v) == 'assoc_in' and \
            len(v.args) == 3 and A.is_empty_const(v.args[0]) and A.is_name(
                v.args[1], 'path')
        if ok:
            # the embedded value is what generate_<part>() produced
            src = expand(f.node, v.args[2], enclosing_stmt(v))
            ok = isinstance(src, ast.Call) and A.call_name(src) == \
                'generate_' + part
        ck.require(ok, rule, f, v if v is not None else part,
                   "'%s' is embedded with assoc_in({}, path, %s)" % (
                       part, part),
                   "the '%s' of a generated composite are not embedded at "
                   'the requested path (%s): generated at a path, the '
                   'composite would keep them at the root' % (
                       part, A.unparse(v) if v is not None else 'missing'),
                   v)


def _overrides(ck, f, rule, procs_expr, steps_expr):
    """_override_schemas is applied to a structural copy of processes that
    includes the steps."""
    calls = [c for c in A.calls_in(f.node, '_override_schemas')]
    ck.require(bool(calls), rule, f, f.node.name,
               'schema overrides are applied',
               '%s no longer applies schema overrides' % f.qual)
    for c in calls:
        tgt = A.arg_of(c, 1, 'processes')
        ok = isinstance(tgt, ast.Name)
        if ok:
            def is_part(e, at, want):
                # 'self.steps' literally, or a local that holds what
                # generate_steps() returned
                if want.startswith('self.'):
                    return want in A.unparse(e)
                x = expand(f.node, e, enclosing_stmt(at))
                return any(isinstance(y, ast.Call) and A.call_name(y) ==
                           'generate_' + want for y in ast.walk(x))
            cp = any(isinstance(d.value, ast.Call) and A.call_name(
                d.value) in ('deep_copy_internal', 'deepcopy') and
                is_part(d.value, d.stmt, procs_expr)
                for d in local_defs(f.node).get(tgt.id, []))
            st = any(A.call_name(m) in ('deep_merge_check', 'deep_merge')
                     and A.is_name(A.arg_of(m, 0), tgt.id) and is_part(
                         A.arg_of(m, 1), m, steps_expr)
                     for m in A.calls_in(f.node))
            ok = cp and st
        ck.require(ok, rule, f, c,
                   'overrides reach processes and steps (on a structural '
                   'copy, so the published dictionaries are not merged)',
                   'schema overrides are not applied to processes + steps '
                   'in %s' % f.qual, c)


def r16_2(ck):
    ck.rule('R16.2', 'embedding agreement: Composer.generate and '
            'Process.generate embed all four parts at the same path and '
            'apply schema overrides to processes and steps; so do '
            'Composite.__init__ and Composite.merge')
    cg = ck.fn('Composer.generate', 'core.composer')
    pg = ck.fn('Process.generate', 'core.process')
    _embedding(ck, cg, 'R16.2')
    _embedding(ck, pg, 'R16.2')
    _overrides(ck, cg, 'R16.2', 'processes', 'steps')
    _overrides(ck, pg, 'R16.2', 'processes', 'steps')
    ci = ck.fn('Composite.__init__', 'core.composer')
    cm = ck.fn('Composite.merge', 'core.composer')
    _overrides(ck, ci, 'R16.2', 'self.processes', 'self.steps')
    _overrides(ck, cm, 'R16.2', 'self.processes', 'self.steps')
    # ... on every normal path: a merge that brings no new override still
    # puts new processes under the standing ones
    for f in (ci, cm, cg, pg):
        cfg = cfg_of(f.node)
        ov = {cfg.node(c) for c in A.calls_in(f.node, '_override_schemas')}
        ov.discard(None)
        ok = bool(ov) and cfg.must_pass(cfg.entry, cfg.exit, ov)
        ck.require(ok, 'R16.2', f, f.node.name,
                   'the schema overrides are applied on every path',
                   '%s can return without applying the schema overrides '
                   '(_override_schemas is skipped on some path): a process '
                   'merged in under a name that already carries an override '
                   'runs without it' % f.qual)
    # each embedded part is exactly what its hook returned
    for f in (cg, pg):
        rets = [r for r in ast.walk(f.node) if isinstance(r, ast.Return)]
        for part in ('processes', 'steps', 'flow', 'topology'):
            hook = 'generate_' + part
            for r in rets:
                uses = [n for n in ast.walk(r) if isinstance(n, ast.Name)
                        and n.id == part]
                for u in uses[:1]:
                    ds = reaching(f.node).at(r, part)
                    ok = bool(ds) and all(
                        isinstance(d.value, ast.Call) and A.call_name(
                            d.value) == hook and A.is_name(
                            A.call_receiver(d.value), 'self') for d in ds)
                    ck.require(ok, 'R16.2', f, 'embedded ' + part,
                               'the %s embedded are exactly what self.%s() '
                               'returned' % (part, hook),
                               'the %s of the composite are re-bound after '
                               'self.%s() (%s): what the composer declared '
                               'does not reach the composite on every path'
                               % (part, hook, '; '.join(sorted(
                                   A.short(d.stmt, 40) for d in ds))), r)
    # the four generate_* hooks are all consulted
    for f in (cg, pg):
        for hook in ('generate_processes', 'generate_steps',
                     'generate_topology', 'generate_flow'):
            ok = any(A.call_name(c) == hook and A.is_name(
                A.call_receiver(c), 'self') for c in A.calls_in(f.node))
            ck.require(ok, 'R16.2', f, hook,
                       '%s consults self.%s' % (f.qual, hook),
                       '%s no longer calls self.%s' % (f.qual, hook))
    # the override of Process.generate names the process
    for c in A.calls_in(pg.node, '_override_schemas'):
        a0 = A.arg_of(c, 0)
        ok = isinstance(a0, ast.Dict) and len(a0.keys) == 1 and \
            'self.name' in A.unparse(expand(
                pg.node, a0.keys[0], enclosing_stmt(c))) and \
            'schema_override' in A.unparse(a0.values[0])
        ck.require(ok, 'R16.2', pg, c,
                   "a process's own override is keyed by its name", None, c)


def r16_3(ck):
    ck.rule('R16.3', 'entry-point agreement: each branch of _make_store '
            'assigns all four parts; get_composite_from_store pairs every '
            'keyword with the same-named getter; no call swaps like-named '
            'arguments')
    ms = ck.fn('Engine._make_store', 'core.engine')
    cfg = cfg_of(ms.node)
    four = ['processes', 'steps', 'flow', 'topology']
    # group assignments by their guard set
    groups = {}
    for s in A.walk_no_nested(ms.node):
        if isinstance(s, ast.Assign):
            for t in s.targets:
                if isinstance(t, ast.Attribute) and A.is_name(
                        t.value, 'self') and t.attr in four:
                    g = frozenset(cfg.guards(cfg.node(s)))
                    groups.setdefault(g, {})[t.attr] = s
    branches = [g for g in groups if len(groups[g]) >= 2 and not (
        len(groups[g]) == 2 and set(groups[g]) == {'processes', 'steps'})]
    ck.floor('R16.3', len(branches), 3, 'entry-point branches')
    for g in branches:
        got = groups[g]
        miss = [p for p in four if p not in got]
        label = 'branch under ' + (', '.join(sorted(
            ' '.join(map(str, a)) for a in g)) or 'no guard')[:120]
        ck.require(not miss, 'R16.3', ms, label,
                   'the branch assigns processes, steps, flow and topology',
                   'an entry point of the engine does not set %s: engines '
                   'built through it would differ' % miss,
                   list(got.values())[0])
        for p, s in got.items():
            txt = A.unparse(s.value)
            ok = p in txt or ('get_' + p) in txt
            ck.require(ok, 'R16.3', ms, s,
                       'self.%s is loaded from the %s of its source' % (p, p),
                       'self.%s is assigned from %s' % (p, txt), s)
    gs = ck.fn('generate_state', 'core.store')
    for c in A.calls_in(ms.node, 'generate_state'):
        _name_agreement(ck, 'R16.3', ms, c, gs)
    gen = ck.fn('Store.generate', 'core.store')
    for c in A.calls_in(gs.node, 'generate'):
        _name_agreement(ck, 'R16.3', gs, c, gen)
    cst = ck.fn('Composite.generate_store', 'core.composer')
    for c in A.calls_in(cst.node, 'generate_state'):
        _name_agreement(ck, 'R16.3', cst, c, gs)
        for kw in c.keywords:
            if kw.arg in four:
                ck.require(A.unparse(kw.value) == 'self.' + kw.arg, 'R16.3',
                           cst, c, '%s=self.%s' % (kw.arg, kw.arg),
                           'generate_store passes %s=%s' % (
                               kw.arg, A.unparse(kw.value)), c)
    gc = ck.fn('get_composite_from_store', 'core.composer')
    n = 0
    for c in A.calls_in(gc.node, 'Composite'):
        for kw in c.keywords:
            n += 1
            want = {'state': 'get_value'}.get(kw.arg, 'get_' + kw.arg)
            ok = isinstance(kw.value, ast.Call) and A.call_name(
                kw.value) == want
            ck.require(ok, 'R16.3', gc, c,
                       '%s is loaded with store.%s()' % (kw.arg, want),
                       'get_composite_from_store loads `%s` with %s' % (
                           kw.arg, A.unparse(kw.value)), c)
    ck.floor('R16.3', n, 5, 'keyword/getter pairs')
    ci = ck.fn('Composite.__init__', 'core.composer')
    for d in ast.walk(ci.node):
        if isinstance(d, ast.Dict) and len(d.keys) >= 4:
            for k, v in zip(d.keys, d.values):
                if isinstance(k, ast.Constant) and k.value in PARTS:
                    ok = k.value in A.names_in(v)
                    ck.require(ok, 'R16.3', ci, d,
                               "config['%s'] comes from the %s argument" % (
                                   k.value, k.value),
                               "Composite config '%s' is built from %s" % (
                                   k.value, A.unparse(v)), d)
    for s in A.walk_no_nested(ci.node):
        if isinstance(s, ast.Assign) and isinstance(
                s.targets[0], ast.Name) and s.targets[0].id in PARTS and \
                isinstance(s.value, ast.Attribute) and A.is_name(
                    s.value.value, 'composite'):
            ck.require(s.value.attr == s.targets[0].id, 'R16.3', ci, s,
                       'a part loaded from a store keeps its name',
                       '%s is loaded from composite.%s' % (
                           s.targets[0].id, s.value.attr), s)
    # the engine writes the parallelised objects back into the Composite
    ok = all(any(isinstance(s, ast.Assign) and A.unparse(s.targets[0]) ==
                 "composite['%s']" % p and A.unparse(s.value) == 'self.' + p
                 for s in A.walk_no_nested(ms.node))
             for p in ('processes', 'steps'))
    ck.require(ok, 'R16.3', ms, "composite['processes'] = self.processes",
               'the composite the engine was built from receives the '
               'parallelised processes and steps', None)


def r16_4(ck):
    ck.rule('R16.4', 'MetaComposer._generate raises on intersecting key '
            'sets before updating; Datum builds from a deep copy of the '
            'class defaults')
    f = ck.fn('MetaComposer._generate', 'core.composer')
    cfg = cfg_of(f.node)
    raises_ = [r for r in A.walk_no_nested(f.node) if isinstance(r, ast.Raise)]
    ok = False
    # roles: the accumulated dictionary is the one returned; the new part is
    # what is merged into it with update()
    acc = {r.value.id for r in A.walk_no_nested(f.node)
           if isinstance(r, ast.Return) and isinstance(r.value, ast.Name)}
    acc_ups = [c for c in A.calls_in(f.node, 'update')
               if isinstance(A.call_receiver(c), ast.Name)
               and A.call_receiver(c).id in acc and c.args]
    newn = set()
    for c in acc_ups:
        newn |= A.names_in(c.args[0])
    for r in raises_:
        for cond, pol in cfg.guard_edges(cfg.node(r)):
            if pol is True and any(isinstance(x, ast.BinOp) and isinstance(
                    x.op, ast.BitAnd) for x in ast.walk(cond)) and \
                    A.names_in(cond) & acc and A.names_in(cond) & newn:
                ok = True
    ck.require(ok, 'R16.4', f, raises_[0] if raises_ else f.node.name,
               'overlapping keys of two composers raise',
               'MetaComposer no longer rejects composers that produce the '
               'same key: one silently replaces the other')
    ups = acc_ups
    tests = [n for n in A.walk_no_nested(f.node) if isinstance(n, ast.If)
             and any(isinstance(x, ast.Raise) for x in n.body)]
    ok = bool(ups) and bool(tests) and cfg.dominates(
        cfg.node(tests[0]), cfg.node(ups[0]))
    ck.require(ok, 'R16.4', f, ups[0] if ups else f.node.name,
               'the overlap test precedes the merge', None)
    d = ck.fn('Datum.__init__', 'library.datum')
    ok = any(A.call_name(c) == 'deepcopy' and 'self.defaults' in A.unparse(c)
             for c in A.calls_in(d.node))
    ck.require(ok, 'R16.4', d, d.node.name,
               'instances start from a deep copy of the class defaults',
               'Datum.__init__ shares the class-level defaults between '
               'instances')
    c = ck.fn('Composer.__init__', 'core.composer')
    ok = any(A.call_name(x) == 'deepcopy' and 'self.defaults' in A.unparse(x)
             for x in A.calls_in(c.node))
    ck.require(ok, 'R16.4', c, c.node.name,
               'a composer configuration starts from a deep copy of the '
               'class defaults', None)


def r16_6(ck, rule='R16.6'):
    ck.rule(rule, 'the store entry point keeps empty flow entries: a step '
            'whose flow entry is [] is recorded and read back as a flow '
            'step (tests use `is not None`, never truthiness)')
    gp = ck.fn('Store._generate_paths', 'core.store')
    cfg = cfg_of(gp.node)
    hit = False
    for s2 in A.walk_no_nested(gp.node):
        if isinstance(s2, ast.Assign) and isinstance(
                s2.targets[0], ast.Subscript) and A.subscript_key(
                s2.targets[0]) == '_flow':
            hit = True
            g = cfg.guards(cfg.node(s2))
            v = A.unparse(s2.value)
            ok = ('isnot', v, 'None') in g and ('truthy', v) not in g
            ck.require(ok, rule, gp, s2,
                       "'_flow' is recorded whenever the flow entry is not "
                       'None',
                       "'_flow' is recorded only under %s: a step with the "
                       'flow entry [] is stored without flow and a store '
                       'built from the composite runs it as a legacy '
                       'deriver' % sorted(a for a in g if v in str(a)), s2)
    ck.require(hit, rule, gp, gp.node.name,
               "_generate_paths records '_flow' on step nodes", None)
    gf = ck.fn('Store.get_flow', 'core.store')
    cfg = cfg_of(gf.node)
    for r in A.walk_no_nested(gf.node):
        if isinstance(r, ast.Return) and A.unparse(r.value) == 'self.flow':
            g = cfg.guards(cfg.node(r))
            ck.require(('isnot', 'self.flow', 'None') in g, rule, gf, r,
                       'a node returns its flow whenever it is not None',
                       'get_flow drops empty flow entries', r)
    for s2 in A.walk_no_nested(gf.node):
        if isinstance(s2, ast.Assign) and isinstance(
                s2.targets[0], ast.Subscript) and isinstance(
                s2.value, ast.Name):
            g = cfg.guards(cfg.node(s2))
            nm = s2.value.id
            ck.require(('isnot', nm, 'None') in g and ('truthy', nm)
                       not in g, rule, gf, s2,
                       "a child's flow is kept whenever it is not None",
                       "get_flow drops a child's empty flow entry", s2)
    ac = ck.fn('Store._apply_config', 'core.store')
    cfg = cfg_of(ac.node)
    for s2 in A.walk_no_nested(ac.node):
        if isinstance(s2, ast.Assign) and A.unparse(
                s2.targets[0]) == 'self.flow':
            g = cfg.guards(cfg.node(s2))
            bad = {a for a in g if a[0] in ('truthy', 'falsy')
                   and a[1] == 'flow'}
            ck.require(not bad, rule, ac, s2,
                       'the node keeps the flow entry it is configured '
                       'with, including []', 'a [] flow is not stored on '
                       'the node', s2)


def r16_7(ck):
    ck.rule('R16.7', 'schema overrides reach exactly the process they '
            'name: Process.get_schema merges overrides into a deep copy of '
            'what ports_schema() returned (which may be a shared object), '
            'and merge_overrides keeps a copy of the override (which may '
            'be shared between processes)')
    gs = ck.fn('Process.get_schema', 'core.process')
    ow = Ownership(ck, gs, 'R16.7')
    n = 0
    for kind, stmt, tgt, tv, av, arg in ow.run():
        n += 1
        bad = {x for x in tv.shares if x.startswith('result of')}
        ck.require(not bad, 'R16.7', gs, stmt,
                   'overrides are merged into a private copy of the ports '
                   'schema',
                   'schema overrides are merged into the very object that '
                   'ports_schema() returned: a process class that returns '
                   'a shared schema leaks the override of one instance to '
                   'all the others', stmt)
    ck.floor('R16.7', n, 1, 'merges in get_schema')
    # what is merged: both the stored override and the one handed in (a loop
    # over a literal tuple of the two counts for each element)
    merged = set()
    for c in A.calls_in(gs.node, 'deep_merge'):
        a = A.arg_of(c, 1, 'merge_dct')
        if a is None:
            continue
        srcs = [a]
        if isinstance(a, ast.Name):
            ds = [d for d in reaching(gs.node).at(enclosing_stmt(c), a.id)]
            if ds and all(d.kind == 'for' and isinstance(
                    d.value, (ast.Tuple, ast.List)) for d in ds):
                srcs = [e for d in ds for e in d.value.elts]
        for e in srcs:
            merged.add(A.unparse(expand(gs.node, e, enclosing_stmt(c))))
    pov = A.params_of(gs.node)[1] if len(A.params_of(gs.node)) > 1 else None
    ck.require('self.schema_override' in merged and pov in merged, 'R16.7',
               gs, gs.node.name,
               'get_schema merges both the stored schema_override and the '
               'override it is handed',
               'get_schema merges %s: an override would be ignored'
               % sorted(merged))
    # ... on every call: each value returned is assembled in this call
    # from ports_schema() (no answer remembered from an earlier call, which
    # would not see overrides merged in since)
    for r in A.walk_no_nested(gs.node):
        if not isinstance(r, ast.Return) or r.value is None:
            continue
        fresh = derives(gs.node, r.value, lambda x: isinstance(
            x, ast.Call) and A.call_name(x) == 'ports_schema', at=r)
        ck.require(fresh, 'R16.7', gs, r,
                   'the schema returned is assembled from ports_schema() '
                   'in this call',
                   'get_schema returns %s without assembling it from '
                   'ports_schema() and the overrides held now: an override '
                   'merged in after the process was first wired no longer '
                   'reaches it' % A.short(r.value, 40), r)
    mo = ck.fn('Process.merge_overrides', 'core.process')
    ow = Ownership(ck, mo, 'R16.7')
    m = 0
    for kind, stmt, tgt, tv, av, arg in ow.run():
        if kind != 'deep':
            continue
        m += 1
        bad = av.shares & ow.params
        ck.require(not bad, 'R16.7', mo, stmt,
                   'the override kept by the process shares nothing with '
                   'the one handed in',
                   'the override handed in (%s) is merged by reference: a '
                   'composer passes the same dictionaries to every process '
                   'it generates, so a later override for one composite is '
                   'written into them and reaches all the others' % sorted(
                       bad), stmt)
    ck.floor('R16.7', m, 1, 'merges in merge_overrides')


def r16_8(ck):
    ck.rule('R16.8', 'the store entry point reads back what was put in: '
            'get_processes keeps exactly the processes that are not steps, '
            'get_steps exactly the steps, both descend into every branch; '
            '_generate_paths stores each process with its topology, its '
            'flow entry and the schema including overrides')
    for q, pol in (('Store.get_processes', 'falsy'),
                   ('Store.get_steps', 'truthy')):
        f = ck.fn(q, 'core.store')
        cfg = cfg_of(f.node)
        stores = [s2 for s2 in A.walk_no_nested(f.node)
                  if isinstance(s2, ast.Assign) and isinstance(
                      s2.targets[0], ast.Subscript) and A.unparse(
                      s2.value).endswith('.value')]
        ok = False
        for s2 in stores:
            g = cfg.guards(cfg.node(s2))
            ok = any(a[0] == pol and a[1].endswith('.is_step()')
                     for a in g) and any(
                a[0] == 'isinstance' and 'Process' in a[2] for a in g)
        ck.require(ok, 'R16.8', f, stores[0] if stores else f.node.name,
                   '%s selects by %s is_step()' % (q, 'not' if pol ==
                                                   'falsy' else ''),
                   '%s no longer selects on is_step(): steps and processes '
                   'are mixed up when an engine is built from a store' % q)
        rec = [c for c in A.calls_in(f.node, f.name)
               if not A.is_name(A.call_receiver(c), 'self')]
        ck.require(bool(rec), 'R16.8', f, f.node.name,
                   'branches are descended into', None)
    r16_8_paths(ck)


def r16_8_paths(ck, rule='R16.8'):
    """_generate_paths stores each process with its own topology and
    distributes its current get_schema()."""
    if rule not in ck.rules:
        ck.rule(rule, '_generate_paths stores each process with its '
                'topology and the schema including overrides')
    gp = ck.fn('Store._generate_paths', 'core.store')
    cfg = cfg_of(gp.node)
    sch = None
    for d in ast.walk(gp.node):
        if isinstance(d, ast.Dict) and any(
                isinstance(k, ast.Constant) and k.value == '_topology'
                for k in d.keys):
            sch = d
    ok = False
    # roles: the loop over the processes argument gives (key, process); the
    # process's own topology is <topology argument>[key]
    gpp = A.params_of(gp.node)
    keyv = procv = None
    for lp in A.walk_no_nested(gp.node):
        if isinstance(lp, ast.For) and gpp[1] in A.names_in(lp.iter) and \
                isinstance(lp.target, ast.Tuple) and len(
                    lp.target.elts) == 2:
            keyv, procv = (A.unparse(e) for e in lp.target.elts)

    def own_topology(e, at):
        x = expand(gp.node, e, enclosing_stmt(at))
        return isinstance(x, ast.Subscript) and A.is_name(
            x.value, gpp[3]) and A.unparse(x.slice) == keyv
    if sch is not None and procv:
        kv = {k.value: v for k, v in zip(sch.keys, sch.values)
              if isinstance(k, ast.Constant)}
        ok = A.is_name(kv.get('_value'), procv) and kv.get(
            '_topology') is not None and own_topology(
            kv['_topology'], sch) and isinstance(
            kv.get('_updater'), ast.Constant) and \
            kv['_updater'].value == 'set'
    ck.require(ok, rule, gp, sch if sch is not None else gp.node.name,
               "a process node holds the process ('_value'), its own "
               "topology and the 'set' updater", None)
    sets = [s2 for s2 in A.walk_no_nested(gp.node)
            if isinstance(s2, ast.Assign) and A.unparse(
                s2.targets[0]) == '%s.schema' % procv]
    ports = [c for c in A.calls_in(gp.node, '_topology_ports')]
    ok = bool(sets) and bool(ports) and isinstance(
        sets[0].value, ast.Call) and A.call_name(
        sets[0].value) == 'get_schema' and cfg.dominates(
        cfg.node(sets[0]), cfg.node(ports[0])) and A.unparse(
        A.arg_of(ports[0], 0)) == '%s.schema' % procv and own_topology(
        A.arg_of(ports[0], 1), ports[0])
    # the recursion descends with the entries of this key: the nested
    # processes, THEIR flow (flow.get(key)) and THEIR topology
    def own_flow(e, at):
        x = expand(gp.node, e, enclosing_stmt(at))
        for y in ast.walk(x):
            if isinstance(y, ast.Call) and A.call_name(y) == 'get' and \
                    A.is_name(A.call_receiver(y), gpp[2]) and y.args and \
                    A.unparse(y.args[0]) == keyv:
                return True
            if isinstance(y, ast.Subscript) and A.is_name(
                    y.value, gpp[2]) and A.unparse(y.slice) == keyv:
                return True
        if isinstance(e, ast.Name):
            # assigned on both branches of `... if flow else None`
            ds = [d for d in reaching(gp.node).at(enclosing_stmt(at), e.id)]
            return bool(ds) and any(
                d.value is not None and any(
                    isinstance(y, ast.Call) and A.call_name(y) == 'get'
                    and A.is_name(A.call_receiver(y), gpp[2])
                    for y in ast.walk(d.value)) for d in ds) and all(
                d.value is not None and not A.is_name(d.value, gpp[2])
                for d in ds)
        return False
    recs = [c2 for c2 in A.calls_in(gp.node, gp.name)
            if not A.is_name(A.call_receiver(c2), 'self')
            or True]
    recs = [c2 for c2 in recs if c2 is not None and
            enclosing_stmt(c2) is not None]
    for c2 in A.calls_in(gp.node, '_generate_paths'):
        a0, a1, a2 = (A.arg_of(c2, 0, gpp[1]), A.arg_of(c2, 1, gpp[2]),
                      A.arg_of(c2, 2, gpp[3]))
        okr = procv is not None and A.is_name(a0, procv) and \
            a1 is not None and own_flow(a1, c2) and a2 is not None and \
            own_topology(a2, c2)
        ck.require(okr, rule, gp, c2,
                   'nested compartments are built from the nested '
                   'processes, their own flow entry and their own topology',
                   'the recursion of _generate_paths passes (%s, %s, %s): '
                   'nested steps are looked up in the flow of the wrong '
                   'level and lose their dependencies' % (
                       A.unparse(a0), A.unparse(a1), A.unparse(a2)), c2)
    for s2 in A.walk_no_nested(gp.node):
        if isinstance(s2, ast.Assign) and isinstance(
                s2.targets[0], ast.Subscript) and A.subscript_key(
                s2.targets[0]) == '_flow':
            ck.require(own_flow(s2.value, s2), rule, gp, s2,
                       "a step's '_flow' is the flow entry of its own key",
                       "the '_flow' recorded for a step is %s, not the "
                       'flow entry under its key' % A.unparse(s2.value), s2)
    ck.require(ok, rule, gp, ports[0] if ports else gp.node.name,
               "the ports are distributed from the process's get_schema() "
               '(overrides included) with its own topology',
               '_generate_paths does not distribute subprocess.get_schema() '
               'with the process topology')
