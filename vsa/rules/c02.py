"""C02 - the timestep handed to a process equals the interval it covers."""

import ast

from .. import astutil as A
from ..cfg import cfg_of
from ..dataflow import derives, expand
from ..loader import enclosing_stmt as A_stmt
from ..linear import Lin, eq, entails
from ..sched import SchedulerAnalysis, Tag

EXPL = (
    'Abstract interpretation of one generic iteration of the polling body '
    'of Engine.run_for over linear forms: on every abstract path that starts '
    'an update, the interval argument X handed to _process_update (and to '
    'update_condition), the due time F stored in the front entry and the '
    "entry's previous time P satisfy F - P == X (min() split into its two "
    'cases, round() transparent on the time grid). This is the property up '
    'to float rounding. Also decided: update() forces completion and checks '
    'it; the default timestep is the configured one.')


def check(ck):
    ck.explanation = EXPL
    ck.technique = ('abstract interpretation over linear forms with '
                    'Fourier-Motzkin entailment; CFG post-dominance')
    sa = SchedulerAnalysis(ck)
    r02_1(ck, sa)
    r02_2(ck)
    r02_4(ck)
    r02_5(ck, sa)
    r02_6(ck, sa)
    from . import c01, c09, c10
    ck.shared('R02.7', 'a process is scheduled from the moment it enters '
              'the simulation until it leaves: every process a structural '
              'update creates is reported to the engine, front entries of '
              'processes that left are dropped in every iteration (a new '
              'process at the same path starts afresh), and what one '
              'scheduler iteration collected is not acted on again in the '
              'next',
              lambda c: c01.r01_5(c, sa.rf), lambda c: c01.r01_14(c, sa.rf),
              c09.r09_9, c10.r10_4)


def entry_time_at_start(st, key):
    for e in st.events:
        if e[0] == 'new-entry' and e[2] == key:
            return e[3] if isinstance(e[3], Lin) else None
    return Lin.sym('pt')


def r02_1(ck, sa):
    ck.rule('R02.1', 'interval agreement: F - P == X on every abstract path '
            'that invokes a process (F stored due time, P previous entry '
            'time, X interval argument); subsumes contiguity (the base of '
            'the due time is the entry own time, not the clock)')
    f = sa.rf.fi
    n = 0
    seen = set()
    for st in sa.poll_states:
        invokes = [e for e in st.events if e[0] == 'invoke']
        for inv in invokes:
            n += 1
            call, X, key = inv[1], inv[2], inv[3]
            stores = [e for e in st.events
                      if e[0] == 'store-time' and e[2] == key]
            trace = ', '.join('%s=%s' % t for t in st.trace)
            if not stores:
                ck.fail('R02.1', f, call,
                        'an update is started but no due time is stored for '
                        'the entry on the path [%s]' % trace, call)
                continue
            F = stores[-1][3]
            P = entry_time_at_start(st, key)
            if not (isinstance(F, Lin) and isinstance(P, Lin)
                    and isinstance(X, Lin)):
                ck.fail('R02.1', f, call,
                        'interval or due time is not a linear expression of '
                        'the entry time / timestep / end time on the path '
                        '[%s]' % trace, call)
                continue
            ok = entails(st.facts, eq(F - P, X))
            what = ('F - P == X with F=%r, P=%r, X=%r' % (F, P, X))
            key2 = (A.unparse(call), ok, repr(F - P - X))
            if ok:
                ck.ok('R02.1', f, call, what + ' on [' + trace + ']', call)
            elif key2 not in seen:
                ck.fail('R02.1', f, call,
                        'the timestep handed to the process (%r) is not the '
                        'interval it covers (%r - %r) on the path [%s]'
                        % (X, F, P, trace), call, what=what)
            seen.add(key2)
            conds = [e for e in st.events if e[0] == 'cond']
            for c in conds:
                ok = isinstance(c[2], Lin) and entails(st.facts,
                                                       eq(c[2], X))
                ck.require(ok, 'R02.1', f, c[1],
                           'update_condition is asked about the same '
                           'interval that next_update receives',
                           'update_condition receives %r but next_update '
                           'receives %r' % (c[2], X), c[1])
    ck.floor('R02.1', n, 4, 'abstract paths that start an update')
    # _process_update forwards its interval argument unchanged
    pu = ck.fn('_process_update', 'core.engine')
    params = A.params_of(pu.node)
    sent = [c for c in A.calls_in(pu.node, 'send_command')
            if isinstance(A.arg_of(c, 0, 'command'), ast.Constant) and
            A.arg_of(c, 0, 'command').value == 'next_update']
    ck.require(bool(sent), 'R02.1', pu, pu.node.name,
               '_process_update sends the next_update command', None)
    for c in sent:
        args = A.arg_of(c, 1, 'args')
        if args is not None:
            args = expand(pu.node, args, A_stmt(c))
        ok = isinstance(args, ast.Tuple) and len(args.elts) == 2 and \
            A.is_name(args.elts[0], params[4]) and A.is_name(
                args.elts[1], params[3])
        ck.require(ok, 'R02.1', pu, c,
                   'next_update is sent (interval, states) in that order, '
                   'the arguments _process_update received',
                   'next_update command arguments are not the (interval, '
                   'states) that _process_update received', c)
    # _calculate_update (steps) forwards its interval to both
    cu = ck.fn('Engine._calculate_update', 'core.engine')
    cp = A.params_of(cu.node)
    for c in A.calls_in(cu.node, '_process_update'):
        ck.require(A.is_name(A.arg_of(c, 4, 'interval'), cp[3]),
                   'R02.1', cu, c,
                   '_calculate_update forwards its interval argument',
                   None, c)


def r02_2(ck):
    ck.rule('R02.2', 'completion: Engine.update runs run_for with '
            'force_complete=True and then _check_complete() on every normal '
            'path; _check_complete compares every front entry with the '
            'clock and requires an empty update')
    up = ck.fn('Engine.update', 'core.engine')
    cfg = cfg_of(up.node)
    runs = list(A.calls_in(up.node, 'run_for'))
    ck.require(len(runs) >= 1, 'R02.2', up, up.node.name,
               'update() delegates to run_for', 'update() no longer calls '
               'run_for')
    for r in runs:
        fc = A.arg_of(r, 1, 'force_complete')
        ok = isinstance(fc, ast.Constant) and fc.value is True
        ck.require(ok, 'R02.2', up, r, 'run_for is asked to force '
                   'completion', 'update() does not force completion', r)
        checks = [cfg.node(c) for c in A.calls_in(up.node,
                                                  '_check_complete')]
        rn = cfg.node(r)
        ok = bool(checks) and any(
            c is not None and cfg.postdominates(c, rn) and c != rn
            for c in checks)
        ck.require(ok, 'R02.2', up, r,
                   '_check_complete() follows run_for on every normal path',
                   'update() returns without checking that every process '
                   'completed', r)
    cc = ck.fn('Engine._check_complete', 'core.engine')
    loops = [n for n in A.walk_no_nested(cc.node) if isinstance(n, ast.For)
             and 'self.front' in A.unparse(n.iter)]
    ck.require(bool(loops), 'R02.2', cc, cc.node.name,
               '_check_complete visits every front entry',
               '_check_complete does not iterate over self.front')
    time_ok = upd_ok = False
    from ..engine_model import FrontModel
    fm = FrontModel(cc)
    for loop in loops:
        for a in A.walk_no_nested(loop):
            test = None
            if isinstance(a, ast.Assert):
                test = a.test
            elif isinstance(a, ast.If) and any(
                    isinstance(x, ast.Raise) for x in a.body):
                test = ast.UnaryOp(op=ast.Not(), operand=a.test)
            if test is None:
                continue
            for atom in A.cond_atoms(test, True):
                if atom[0] == '==' and 'self.global_time' in atom[1:] and \
                        any("['time']" in x for x in atom[1:]):
                    time_ok = True
                txt = ' '.join(str(x) for x in atom)
                if "['update']" in txt and (
                        atom[0] in ('falsy',) or (
                            atom[0] == '==' and ('0' in atom[1:]))):
                    upd_ok = True
    # the tests apply to every entry: nothing in the loop skips one (a test
    # of membership in process_paths skips nothing when front entries leave
    # with their process: every key of front is then a key of process_paths)
    from .c01 import front_leaves_with_process
    subset = front_leaves_with_process(
        ck.fn('Engine._delete_path', 'core.engine'))

    def vacuous(atoms):
        return subset and atoms and all(
            a[0] in ('in', 'notin') and a[2] == 'self.process_paths'
            for a in atoms)
    ccfg = cfg_of(cc.node)
    for loop in loops:
        entry = ccfg.loops[id(loop)]['body_entry']
        for a in A.walk_no_nested(loop):
            if isinstance(a, (ast.Assert, ast.Raise)):
                extra = ccfg.guards(ccfg.node(a)) - ccfg.guards(entry)
                if isinstance(a, ast.Raise):
                    continue
                ck.require(not extra or vacuous(extra), 'R02.2', cc, a,
                           'the completion test applies to every front '
                           'entry',
                           'the completion test is skipped for entries '
                           'under %s: a stale entry goes unnoticed'
                           % sorted(extra), a)
            if isinstance(a, ast.Continue) and not vacuous(
                    ccfg.guards(ccfg.node(a)) - ccfg.guards(entry)):
                ck.fail('R02.2', cc, a,
                        'front entries are skipped by _check_complete: a '
                        'stale or unfinished entry goes unnoticed', a)
    ck.require(time_ok, 'R02.2', cc, cc.node.name,
               "every entry's time must equal the clock",
               "_check_complete no longer asserts entry['time'] == "
               'self.global_time')
    ck.require(upd_ok, 'R02.2', cc, cc.node.name,
               "every entry's update slot must be empty",
               '_check_complete no longer asserts that no update is pending')


def r02_4(ck):
    ck.rule('R02.4', 'requested timestep: Process.calculate_timestep '
            "returns parameters['timestep']; _set_timestep defaults it to "
            'DEFAULT_TIME_STEP and lets time_step override it; __init__ '
            'calls _set_timestep on every path')
    ct = ck.fn('Process.calculate_timestep', 'core.process')
    rets = [r for r in A.walk_no_nested(ct.node) if isinstance(r, ast.Return)]
    ok = bool(rets) and all(
        r.value is not None and A.unparse(r.value) in (
            "self.parameters['timestep']", "self._parameters['timestep']")
        for r in rets)
    ck.require(ok, 'R02.4', ct, rets[0] if rets else ct.node.name,
               "the default timestep is parameters['timestep']",
               'calculate_timestep no longer returns the configured '
               'timestep')
    stp = ck.fn('Process._set_timestep', 'core.process')
    dflt = False
    override = False
    for c in A.calls_in(stp.node, 'setdefault'):
        if c.args and isinstance(c.args[0], ast.Constant) and \
                c.args[0].value == 'timestep' and len(c.args) == 2 and \
                A.unparse(c.args[1]) == 'DEFAULT_TIME_STEP':
            dflt = True
    for n in A.walk_no_nested(stp.node):
        if isinstance(n, ast.Assign) and isinstance(
                n.targets[0], ast.Subscript) and A.subscript_key(
                n.targets[0]) == 'timestep' and "'time_step'" in A.unparse(
                n.value):
            override = True
    ck.require(dflt, 'R02.4', stp, stp.node.name,
               'timestep defaults to DEFAULT_TIME_STEP',
               '_set_timestep no longer defaults to DEFAULT_TIME_STEP')
    ck.require(override, 'R02.4', stp, stp.node.name,
               'the time_step parameter overrides timestep',
               '_set_timestep no longer honours the time_step parameter')
    init = ck.fn('Process.__init__', 'core.process')
    cfg = cfg_of(init.node)
    calls = [cfg.node(c) for c in A.calls_in(init.node, '_set_timestep')]
    ok = any(c is not None and cfg.postdominates(c, cfg.entry)
             for c in calls)
    ck.require(ok, 'R02.4', init, init.node.name,
               'Process.__init__ calls _set_timestep on every path',
               'Process.__init__ can finish without _set_timestep')
    mod = ck.repo.module('core.process')
    v = mod.assigns.get('DEFAULT_TIME_STEP')
    ok = isinstance(v, ast.Constant) and isinstance(
        v.value, (int, float)) and v.value > 0
    ck.require(ok, 'R02.4', init, 'DEFAULT_TIME_STEP',
               'DEFAULT_TIME_STEP is a positive constant',
               'DEFAULT_TIME_STEP is not a positive constant')


def r02_5(ck, sa):
    ck.rule('R02.5', 'intervals start when the process enters the '
            'simulation: every front entry is created at the current '
            'global time (constructor and first sight in run_for); a '
            'forced call always gets a pass through the scheduler loop')
    from . import c01, c10, c03
    c01.r01_6(ck, sa.rf)
    # re-label the obligations of the shared rules under this property
    for o in ck.obligations:
        if o['rule'] == 'R01.6':
            o['rule'] = 'R02.5'
    for v in ck.violations:
        if v.rule == 'R01.6':
            v.rule = 'R02.5'
    ck.rules.pop('R01.6', None)
    c03.r03_3(ck, sa)
    for o in ck.obligations:
        if o['rule'] == 'R03.3':
            o['rule'] = 'R02.5'
    for v in ck.violations:
        if v.rule == 'R03.3':
            v.rule = 'R02.5'
    ck.rules.pop('R03.3', None)
    ck.floors = [fl for fl in ck.floors]


def r02_6(ck, sa):
    ck.rule('R02.6', 'the update is applied when its interval ends and the '
            'process is asked, not the wrapper: take under the due-time '
            'guard (C01 R01.3), scheduling members of a parallel process '
            'forwarded on every path (C13 R13.1), every process accounted '
            'for and quiet entries brought to the clock with every advance '
            '(C03 R03.1)')
    from . import c01, c03, c13
    c01.r01_3(ck, sa.rf)
    c13.r13_1(ck, only=('update_condition', 'next_update',
                        'calculate_timestep'), rule='R02.6')
    c03.r03_1(ck, sa)
    for o in ck.obligations:
        if o['rule'] in ('R01.3', 'R03.1'):
            o['rule'] = 'R02.6'
    for v in ck.violations:
        if v.rule in ('R01.3', 'R03.1'):
            v.rule = 'R02.6'
    for r in ('R01.3', 'R03.1'):
        ck.rules.pop(r, None)
