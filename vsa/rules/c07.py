"""C07 - a process sees exactly its declared variables, from the current
hierarchy."""

import ast

from .. import astutil as A
from ..cfg import cfg_of, within
from ..dataflow import derives, local_defs, reaching

EXPL = (
    'View expiry is raised by every structural operation and reaches the '
    'rebuild: for each structural key handled by Store.apply_update the '
    'handler sets view_expire on every path that performs the operation; '
    'the flag is folded from inner results, returned as the sixth element, '
    'returned by Engine.apply_update, accumulated with `or` over a batch / '
    'layer and followed by build_topology_views() before the next '
    'invocation. The view is keyed by the declared schema: keys of '
    'schema_topology come from the schema iteration (or, under a glob, from '
    'the children of the addressed node), output ports are masked, glob '
    'children are viewed through the declared sub-schema, paths resolve '
    'relative to self; every creator of children applies the declared '
    'sub-schema and defaults. Not decided: equality of the view with a '
    'projection of the hierarchy at run time.')

STRUCTURAL = {'_add': 'add', '_move': 'move', '_generate': 'insert',
              '_divide': 'divide', '_delete': 'delete'}


def check(ck):
    ck.explanation = EXPL
    ck.technique = ('CFG must-pass-through for the expiry flag, def-use of '
                    'the accumulator, key provenance in schema_topology, '
                    'sibling agreement of child creators')
    r07_1(ck)
    r07_2(ck)
    r07_4(ck)
    r07_5(ck)
    r07_6(ck)
    r07_7(ck)
    r07_8(ck)
    from . import c04, c09
    from ..engine_model import RunFor
    rf = RunFor(ck)
    ck.shared('R07.9', 'the states come from the current hierarchy: they '
              'are looked up afresh at every invocation (no store or view '
              'kept on the engine), and the outer links along which ".." '
              'wiring is resolved name the actual parent of every node',
              lambda c: c04.r04_3(c, rf), c09.r09_7)


def expire_name(fnode):
    """Name of the local that Store.apply_update returns as the sixth
    element of its result (the view-expiry flag); None when the 6-tuple
    returns do not agree on one local."""
    names = set()
    for r in A.walk_no_nested(fnode):
        if isinstance(r, ast.Return) and isinstance(r.value, ast.Tuple) and \
                len(r.value.elts) == 6:
            e = r.value.elts[5]
            names.add(e.id if isinstance(e, ast.Name) else None)
    if len(names) == 1 and None not in names:
        return names.pop()
    return None


def popped_keys(fnode, upd):
    """{key constant: (local name, stmt)} for X = update.pop('_k', None)."""
    out = {}
    for n in A.walk_no_nested(fnode):
        if isinstance(n, ast.Assign) and isinstance(n.value, ast.Call) and \
                A.call_name(n.value) == 'pop' and A.is_name(
                    A.call_receiver(n.value), upd) and n.value.args and \
                isinstance(n.value.args[0], ast.Constant) and isinstance(
                    n.value.args[0].value, str) and \
                n.value.args[0].value.startswith('_') and isinstance(
                    n.targets[0], ast.Name):
            out[n.value.args[0].value] = (n.targets[0].id, n)
    return out


def r07_1(ck):
    ck.rule('R07.1', 'expiry exhaustiveness: each structural key handled '
            'by Store.apply_update (_add, _move, _generate, _divide, '
            '_delete) sets view_expire on every path that performs the '
            'operation')
    f = ck.fn('Store.apply_update', 'core.store')
    cfg = cfg_of(f.node)
    upd = A.params_of(f.node)[1]
    popped = popped_keys(f.node, upd)
    n = 0
    rets = [cfg.node(r) for r in A.walk_no_nested(f.node)
            if isinstance(r, ast.Return)]
    rets = [r for r in rets if r is not None]
    expire = set()
    VE = expire_name(f.node) or 'view_expire'
    for s in A.walk_no_nested(f.node):
        if isinstance(s, ast.Assign) and any(
                A.is_name(t, VE) for t in s.targets):
            if isinstance(s.value, ast.Constant) and s.value.value is True:
                expire.add(cfg.node(s))
    for key, meth in sorted(STRUCTURAL.items()):
        if key not in popped:
            ck.fail('R07.1', f, "structural key '%s'" % key,
                    "Store.apply_update has no handler for '%s'" % key)
            continue
        var, stmt = popped[key]
        ops = [c for c in A.calls_in(f.node, meth)
               if A.is_name(A.call_receiver(c), 'self')]
        ops = [c for c in ops if ('isnot', var, 'None') in cfg.guards(
            cfg.node(c))]
        if not ops:
            ck.fail('R07.1', f, "handler of '%s'" % key,
                    "the handler of '%s' never calls self.%s" % (key, meth),
                    stmt)
            continue
        for c in ops:
            n += 1
            ok = cfg.must_pass(cfg.node(c), set(rets), expire)
            ck.require(ok, 'R07.1', f, "self.%s(...) in the '%s' handler"
                       % (meth, key),
                       'view_expire = True follows the operation on every '
                       'path to the return',
                       "after a '%s' operation the views are not marked "
                       'expired: processes keep reading the old hierarchy'
                       % key, c)
    ck.floor('R07.1', n, 5, 'structural operations in apply_update')


def r07_2(ck):
    ck.rule('R07.2', 'expiry propagation: the flag is folded from inner '
            'results and returned by Store.apply_update and '
            'Engine.apply_update; _send_updates and run_steps accumulate it '
            'with `or` and rebuild the views when set')
    f = ck.fn('Store.apply_update', 'core.store')
    cfg = cfg_of(f.node)
    # branch-section return: 6-tuple ending with view_expire
    ok = False
    for r in A.walk_no_nested(f.node):
        if isinstance(r, ast.Return) and isinstance(r.value, ast.Tuple) and \
                len(r.value.elts) == 6:
            ok = expire_name(f.node) is not None
            ck.require(ok, 'R07.2', f, r,
                       'the sixth element returned is the expiry flag',
                       'Store.apply_update does not return view_expire', r)
    ck.require(ok, 'R07.2', f, f.node.name,
               'Store.apply_update returns a 6-tuple with the expiry flag',
               'no 6-tuple return carrying view_expire')
    # inner fold
    inner_calls = [c for c in A.calls_in(f.node, 'apply_update')
                   if not A.is_name(A.call_receiver(c), 'self')]
    folded = False
    VE = expire_name(f.node) or 'view_expire'
    for c in inner_calls:
        st = c
        while not isinstance(st, ast.stmt):
            st = st._parent
        if isinstance(st, ast.Assign) and isinstance(
                st.targets[0], ast.Tuple) and len(
                st.targets[0].elts) == 6:
            iv = A.unparse(st.targets[0].elts[5])
            for s in A.walk_no_nested(f.node):
                if isinstance(s, ast.Assign) and any(
                        A.is_name(t, VE) for t in s.targets) \
                        and iv in A.names_in(s.value):
                    g = cfg.guards(cfg.node(s))
                    if ('truthy', iv) in g or isinstance(
                            s.value, ast.BoolOp):
                        folded = True
                if isinstance(s, ast.AugAssign) and A.is_name(
                        s.target, VE) and iv in A.names_in(
                        s.value):
                    folded = True
    ck.require(folded, 'R07.2', f, inner_calls[0] if inner_calls
               else f.node.name,
               "a child's expiry is folded into this node's flag",
               'the expiry flag of inner updates is dropped: structural '
               'changes below the root would not rebuild views')
    e = ck.fn('Engine.apply_update', 'core.engine')
    okret = False
    for c in A.calls_in(e.node, 'apply_update'):
        st = c
        while not isinstance(st, ast.stmt):
            st = st._parent
        if isinstance(st, ast.Assign) and isinstance(
                st.targets[0], ast.Tuple) and len(st.targets[0].elts) == 6:
            ev = A.unparse(st.targets[0].elts[5])
            rets = [r for r in A.walk_no_nested(e.node)
                    if isinstance(r, ast.Return)]
            cfge = cfg_of(e.node)
            after = [r for r in rets if cfge.dominates(cfge.node(st),
                                                       cfge.node(r))]
            okret = bool(after) and all(A.is_name(r.value, ev)
                                        for r in after)
    ck.require(okret, 'R07.2', e, e.node.name,
               'Engine.apply_update returns the expiry flag of the store',
               'Engine.apply_update does not return the view_expire '
               'reported by the store')
    n = 0
    for q in ('Engine._send_updates', 'Engine.run_steps'):
        g = ck.fn(q, 'core.engine')
        cfgg = cfg_of(g.node)
        for c in A.calls_in(g.node, 'apply_update'):
            n += 1
            st = c
            while not isinstance(st, ast.stmt):
                st = st._parent
            acc = None
            ok = False
            if isinstance(st, ast.Assign) and isinstance(
                    st.targets[0], ast.Name):
                tmp = st.targets[0].id
                loop = st._parent
                for s in A.walk_no_nested(g.node):
                    if isinstance(s, ast.Assign) and isinstance(
                            s.targets[0], ast.Name) and tmp in A.names_in(
                            s.value) and s is not st:
                        acc = s.targets[0].id
                        v = s.value
                        ok = isinstance(v, ast.BoolOp) and isinstance(
                            v.op, ast.Or) and acc in A.names_in(v)
                        if not ok and ('truthy', tmp) in cfgg.guards(
                                cfgg.node(s)) and isinstance(
                                v, ast.Constant):
                            ok = True
                    if isinstance(s, ast.AugAssign) and isinstance(
                            s.op, ast.BitOr) and tmp in A.names_in(s.value):
                        acc = A.unparse(s.target)
                        ok = True
                if tmp and acc is None and isinstance(
                        st.value, ast.BoolOp) and isinstance(
                        st.value.op, ast.Or) and tmp in A.names_in(
                        st.value):
                    acc, ok = tmp, True
            ck.require(ok, 'R07.2', g, st,
                       'the expiry flags of the batch are accumulated with '
                       '`or`',
                       'the expiry flag of an earlier update of the batch '
                       'is overwritten by a later one: views may not be '
                       'rebuilt', st)
            if acc:
                builds = [b for b in A.calls_in(g.node,
                                                'build_topology_views')]
                okb = any(('truthy', acc) in cfgg.guards(cfgg.node(b))
                          and not within(b, _loop_of(st, g.node))
                          for b in builds)
                ck.require(okb, 'R07.2', g,
                           builds[0] if builds else g.node.name,
                           'views are rebuilt after the batch when the '
                           'accumulated flag is set',
                           'build_topology_views() is not called under the '
                           'accumulated expiry flag')
                # initialised false before the loop
                ds = [d for d in local_defs(g.node).get(acc, [])
                      if isinstance(d.value, ast.Constant)
                      and d.value.value is False]
                ck.require(bool(ds), 'R07.2', g, acc,
                           'the accumulator starts False', None)
    ck.floor('R07.2', n, 2, 'apply sites accumulating the flag')
    btv = ck.fn('Store.build_topology_views', 'core.store')
    ok = any(A.call_name(c) == 'schema_topology'
             for c in A.calls_in(btv.node)) and any(
        A.call_name(c) == 'build_topology_views' and not A.is_name(
            A.call_receiver(c), 'self') for c in A.calls_in(btv.node))
    ck.require(ok, 'R07.2', btv, btv.node.name,
               'build_topology_views recomputes the view of every process '
               'below the node',
               'build_topology_views no longer recurses / recomputes '
               'schema_topology')
    cb = cfg_of(btv.node)
    for s2 in A.walk_no_nested(btv.node):
        if isinstance(s2, ast.Assign) and A.unparse(
                s2.targets[0]) == 'self.topology_view':
            g = cb.guards(cb.node(s2))
            extra = {a for a in g if not (
                a in (('truthy', 'self.leaf'),) or
                (a[0] == 'isinstance' and a[1] == 'self.value'))}
            ck.require(not extra, 'R07.2', btv, s2,
                       'every process view is recomputed on a rebuild (no '
                       'condition other than "this node holds a process")',
                       'the view of a process is only rebuilt under %s: a '
                       'stale view survives structural updates' % sorted(
                           extra), s2)
    for c in A.calls_in(btv.node, 'build_topology_views'):
        if not A.is_name(A.call_receiver(c), 'self'):
            g = cb.guards(cb.node(c))
            extra = {a for a in g if a != ('falsy', 'self.leaf')}
            lp = _loop_of(c, btv.node)
            ok2 = not extra and lp is not None and 'self.inner' in \
                A.unparse(lp.iter)
            ck.require(ok2, 'R07.2', btv, c,
                       'the rebuild visits every child of every branch',
                       'the rebuild skips children (guards %s)' % sorted(
                           extra), c)
    for c in A.calls_in(btv.node, 'schema_topology'):
        ok = A.unparse(A.call_receiver(c)) == 'self.outer' and 'schema' in \
            A.unparse(A.arg_of(c, 0)) and A.unparse(
                A.arg_of(c, 1)) == 'self.topology'
        ck.require(ok, 'R07.2', btv, c,
                   'the view is built from the parent of the process with '
                   "the process's schema and topology",
                   'the process view is not built as outer.schema_topology('
                   'process schema, process topology)', c)


from .c05 import _loop_of  # noqa: E402  (iterables belong to the outside)


def _PV(f):
    """Name of the local holding the topology path of the current entry in
    a topology reader (schema_topology, topology_state)."""
    from .c06 import topo_loop
    tl = topo_loop(f)
    return tl[2] if tl and tl[2] else 'path'


def r07_4(ck):
    ck.rule('R07.4', 'mask provenance: keys of the view come from the '
            'declared schema (or the children of a glob node), output ports '
            'are empty, glob children are viewed through the declared '
            'sub-schema, paths resolve relative to self')
    f = ck.fn('Store.schema_topology', 'core.store')
    cfg = cfg_of(f.node)
    params = A.params_of(f.node)
    schema, topo = params[1], params[2]
    loop = None
    for n in A.walk_no_nested(f.node):
        if isinstance(n, ast.For) and A.unparse(n.iter) == schema + \
                '.items()':
            loop = n
    ck.require(loop is not None, 'R07.4', f, f.node.name,
               'the view is built by iterating the declared schema',
               'schema_topology no longer iterates schema.items(): the '
               'view is not masked by the declared ports')
    if loop is None:
        return
    key = A.unparse(loop.target.elts[0])
    sub = A.unparse(loop.target.elts[1])
    g = cfg.guards(cfg.node(loop))
    ok = any(a[0] == 'falsy' and '_output' in a[1] and schema in a[1]
             for a in g)
    ck.require(ok, 'R07.4', f, loop,
               "a port flagged '_output' yields an empty view",
               "output-only ports are no longer masked: the schema loop is "
               "not guarded by `not schema.get('_output')`", loop)
    n = 0
    kinds = set()
    # the view under construction is the local the function returns
    views = {r.value.id for r in A.walk_no_nested(f.node)
             if isinstance(r, ast.Return) and isinstance(r.value, ast.Name)}
    for s in A.walk_no_nested(loop):
        if isinstance(s, ast.Assign) and isinstance(
                s.targets[0], ast.Subscript) and isinstance(
                s.targets[0].value, ast.Name) and \
                s.targets[0].value.id in views:
            n += 1
            k = A.unparse(s.targets[0].slice)
            sg = cfg.guards(cfg.node(s))
            glob = ('==', "'*'", key) in sg
            kinds.add('glob' if glob else 'plain')
            if glob:
                lp = _loop_of(s, loop)
                ok = lp is not None and lp is not loop and \
                    '.inner.items()' in A.unparse(lp.iter) and isinstance(
                        lp.target, ast.Tuple) and k == A.unparse(
                        lp.target.elts[0])
                ck.require(ok, 'R07.4', f, s,
                           'under a glob the keys are the current children '
                           'of the addressed node',
                           'glob view keyed by something other than the '
                           "node's current children", s)
                v = s.value
                ok = isinstance(v, ast.Call) and A.call_name(v) == \
                    'schema_topology' and A.is_name(A.arg_of(v, 0), sub)
                ck.require(ok, 'R07.4', f, s,
                           'a glob child is viewed through the declared '
                           'sub-schema',
                           'a glob child is viewed through %s instead of '
                           'the declared sub-schema: the process would see '
                           'undeclared variables' % A.unparse(
                               A.arg_of(v, 0)) if isinstance(v, ast.Call)
                           else 'glob child view is not a recursive '
                           'schema_topology call', s)
            else:
                ck.require(k == key, 'R07.4', f, s,
                           'view key is the declared port/variable name',
                           'a view entry is stored under %s, not the '
                           'declared key' % k, s)
                v = s.value
                ok = isinstance(v, ast.Call) and A.call_name(v) == \
                    'schema_topology' and A.is_name(A.arg_of(v, 0), sub)
                ck.require(ok, 'R07.4', f, s,
                           'the entry is the view of the wired node through '
                           'the declared sub-schema', None, s)
    ck.floor('R07.4', n, 2, 'stores into the view')
    ck.require(kinds == {'glob', 'plain'}, 'R07.4', f, loop,
               'the view has entries for glob children and for declared '
               'keys', 'the view is no longer filled for %s'
               % sorted({'glob', 'plain'} - kinds), loop)
    for c in A.calls_in(loop, ('get_path', 'outer_path')):
        a0 = A.arg_of(c, 0)
        if a0 is not None and _PV(f) in A.names_in(a0):
            ck.require(A.is_name(A.call_receiver(c), 'self'), 'R07.4', f, c,
                       'ports are resolved relative to the node the process '
                       'sits under',
                       'a port path is resolved from %s instead of self'
                       % A.unparse(A.call_receiver(c)), c)
    # leaf / '**' returns the node itself - and nothing else does
    ok = False
    schema_p = A.params_of(f.node)[1]
    for s in A.walk_no_nested(f.node):
        site = (isinstance(s, ast.Assign) and isinstance(
            s.targets[0], ast.Name) and s.targets[0].id in views
            and A.is_name(s.value, 'self')) or (
            isinstance(s, ast.Return) and A.is_name(s.value, 'self'))
        if not site:
            continue
        sg = cfg.guards(cfg.node(s))
        good = any(
            (a[0] == 'opaque' and a[2] == 'Or' and a[3] is True and
             'self.leaf' in a[1] and "'**'" in a[1]) or
            a == ('truthy', 'self.leaf') or
            (a[0] == '==' and "'**'" in a[1:] and schema_p in a[1:])
            for a in sg)
        ck.require(good, 'R07.4', f, s,
                   "the node itself is the view only for a leaf or the "
                   "'**' schema",
                   'the whole node is handed out as the view under %s: a '
                   'branch is then read with everything below it, also '
                   'variables the process did not declare' % sorted(sg), s)
        ok = ok or good
    ck.require(ok, 'R07.4', f, f.node.name,
               "a leaf (or '**') is viewed as the node itself", None)


def r07_8(ck):
    ck.rule('R07.8', 'view_values hands the process fresh dictionaries: for '
            'a Store the value, otherwise a newly built dict with one entry '
            'per key of the cached view, each converted recursively; the '
            'cached view (or a part of it) is never returned itself')
    f = ck.fn('view_values', 'core.store')
    cfg = cfg_of(f.node)
    p0 = A.params_of(f.node)[0]
    rets = [r for r in A.walk_no_nested(f.node) if isinstance(r, ast.Return)]
    ck.require(bool(rets), 'R07.8', f, f.node.name,
               'view_values returns the converted view', None)
    fresh_names = set()
    for r in rets:
        v = r.value
        g = cfg.guards(cfg.node(r))
        if isinstance(v, ast.Call) and A.call_name(v) == 'get_value' and \
                A.is_name(A.call_receiver(v), p0):
            ck.require(('isinstance', p0, 'Store') in g, 'R07.8', f, r,
                       'get_value() is asked of a Store only', None, r)
            continue
        ok = False
        if isinstance(v, ast.Name) and v.id != p0:
            ds = [d for d in reaching(f.node).at(r, v.id)
                  if d.kind != 'mutate']
            ok = bool(ds) and all(
                d.kind == 'assign' and (
                    (isinstance(d.value, ast.Dict) and not d.value.keys)
                    or isinstance(d.value, ast.DictComp)
                    or (isinstance(d.value, ast.Call) and A.call_name(
                        d.value) == 'dict' and not d.value.args))
                for d in ds)
            if ok:
                fresh_names.add(v.id)
        elif isinstance(v, ast.DictComp):
            ok = True
        ck.require(ok, 'R07.8', f, r,
                   'the returned dictionary is built afresh for this call',
                   'view_values returns %s: a dictionary of the cached '
                   'topology view is handed to the process, which may write '
                   'into it - later invocations then see what it wrote'
                   % A.unparse(v), r)
    # every key is converted, unconditionally, by the recursive call
    n = 0
    for lp in A.walk_no_nested(f.node):
        if isinstance(lp, ast.For) and p0 in A.names_in(lp.iter):
            for s2 in A.walk_no_nested(lp):
                if isinstance(s2, ast.Assign) and isinstance(
                        s2.targets[0], ast.Subscript) and isinstance(
                        s2.targets[0].value, ast.Name) and \
                        s2.targets[0].value.id in fresh_names:
                    n += 1
                    extra = cfg.guards(cfg.node(s2)) - cfg.guards(
                        cfg.loops[id(lp)]['body_entry'])
                    ck.require(not extra, 'R07.8', f, s2,
                               'every key of the view is converted', None,
                               s2)
                    ck.require(isinstance(s2.value, ast.Call) and
                               A.call_name(s2.value) == f.name, 'R07.8', f,
                               s2, 'entries are converted recursively',
                               'an entry of the view is handed on as it is '
                               '(%s)' % A.unparse(s2.value), s2)
    for dc in ast.walk(f.node):
        if isinstance(dc, ast.DictComp):
            n += 1
            ck.require(not any(g.ifs for g in dc.generators) and isinstance(
                dc.value, ast.Call) and A.call_name(dc.value) == f.name,
                'R07.8', f, dc, 'every key of the view is converted '
                'recursively', None, dc)
    ck.floor('R07.8', n, 1, 'conversions of view entries')


def r07_5(ck):
    ck.rule('R07.5', 'new children get the declared sub-schema and '
            'defaults: Store.add, Store.insert and Store.divide call '
            '_apply_subschema_path and apply_defaults on the created node')
    n = 0
    for q in ('Store.add', 'Store.insert', 'Store.divide'):
        f = ck.fn(q, 'core.store')
        cfg = cfg_of(f.node)
        n += 1
        subs = [c for c in A.calls_in(f.node, '_apply_subschema_path')
                if A.is_name(A.call_receiver(c), 'self')]
        dfl = list(A.calls_in(f.node, 'apply_defaults'))
        ck.require(bool(subs), 'R07.5', f, f.node.name,
                   q + ' applies the declared sub-schema to the new child',
                   q + ' no longer calls _apply_subschema_path: a new child '
                   'of a glob node lacks the declared variables')
        ck.require(bool(dfl), 'R07.5', f, f.node.name,
                   q + ' applies defaults to the new child',
                   q + ' no longer calls apply_defaults on the new child')
        # both on every normal path (or once per daughter in divide)
        for c in subs[:1] + dfl[:1]:
            lp = _loop_of(c, f.node)
            if lp is None:
                ok = cfg.postdominates(cfg.node(c), cfg.entry)
            else:
                ok = cfg.must_pass(cfg.loops[id(lp)]['body_entry'],
                                   cfg.loops[id(lp)]['header'],
                                   {cfg.node(c)})
            ck.require(ok, 'R07.5', f, c,
                       'reached on every path that creates the child',
                       None, c)
    ck.floor('R07.5', n, 3, 'child creators')
    asp = ck.fn('Store._apply_subschema_path', 'core.store')
    ok = any(A.call_name(c) == '_topology_ports'
             for c in A.calls_in(asp.node)) and any(
        A.call_name(c) == '_apply_subschema_path' and not A.is_name(
            A.call_receiver(c), 'self') for c in A.calls_in(asp.node))
    ck.require(ok, 'R07.5', asp, asp.node.name,
               '_apply_subschema_path distributes the subschema along the '
               'path', '_apply_subschema_path no longer applies the '
               'subschema / recurses')


def r07_6(ck):
    ck.rule('R07.6', 'views are rebuilt per step layer, so that steps of a '
            'later layer see the structural changes of an earlier one '
            '(shared with C05 R05.3)')
    from . import c05
    c05.r05_3(ck)
    OLD, NEW = ('R05.3',), 'R07.6'

    for o in ck.obligations:
        if o['rule'] in OLD:
            o['rule'] = NEW
    for v in ck.violations:
        if v.rule in OLD:
            v.rule = NEW
    for r in OLD:
        ck.rules.pop(r, None)


def r07_7(ck):
    ck.rule('R07.7', 'views are built after the hierarchy is complete and '
            'from declarations that belong to the declaring process: in the '
            'store entry point set_value(initial_state) precedes '
            'build_topology_views, generate_state builds views after '
            'generate; the sub-schema a store keeps is a copy of what a '
            'process declared (other processes are merged into it later); '
            'the states reach the wrapped process in the declared argument '
            'order (C13 R13.1)')
    ms = ck.fn('Engine._make_store', 'core.engine')
    cfg = cfg_of(ms.node)
    sets = [c for c in A.calls_in(ms.node, 'set_value')]
    builds = [c for c in A.calls_in(ms.node, 'build_topology_views')]
    ok = bool(sets) and bool(builds) and cfg.dominates(
        cfg.node(sets[0]), cfg.node(builds[0]))
    ck.require(ok, 'R07.7', ms, builds[0] if builds else ms.node.name,
               'the initial state is installed before the views are built',
               'with a pre-built store the views are cached before '
               'set_value(initial_state) creates the children named in the '
               'initial state: glob ports do not show them', None)
    gs = ck.fn('generate_state', 'core.store')
    c2 = cfg_of(gs.node)
    g1 = [c for c in A.calls_in(gs.node, 'generate')]
    b1 = [c for c in A.calls_in(gs.node, 'build_topology_views')]
    ok = bool(g1) and bool(b1) and c2.dominates(c2.node(g1[0]),
                                                c2.node(b1[0]))
    ck.require(ok, 'R07.7', gs, b1[0] if b1 else gs.node.name,
               'generate_state builds the views after generating the state',
               None)
    asc = ck.fn('Store._apply_subschema_config', 'core.store')
    param = A.params_of(asc.node)[1]
    n = 0
    for s2 in A.walk_no_nested(asc.node):
        if isinstance(s2, ast.Assign) and A.unparse(
                s2.targets[0]) == 'self.subschema':
            n += 1
            v = s2.value
            ok = isinstance(v, ast.Call) and A.call_name(v) == 'deep_merge' \
                and A.unparse(A.arg_of(v, 0)) == 'self.subschema'
            if ok:
                a1 = A.arg_of(v, 1)
                ok = isinstance(a1, ast.Call) and A.call_name(a1) in (
                    'deep_copy_internal', 'deepcopy') and param in \
                    A.names_in(a1)
            ck.require(ok, 'R07.7', asc, s2,
                       'the store keeps a copy of the declared sub-schema',
                       'the sub-schema kept by the store (%s) shares '
                       'dictionaries with the schema of the process that '
                       'declared it: the declarations of other processes '
                       'are merged into that process\'s schema and it is '
                       'shown variables it never declared' % A.short(v, 50),
                       s2)
    ck.floor('R07.7', n, 1, 'assignments of self.subschema')
    from . import c13
    c13.r13_1(ck, only=('update_condition', 'next_update',
                        'calculate_timestep'), rule='R07.7')
