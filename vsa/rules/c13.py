"""C13 - parallel processes are transparent and always shut down cleanly."""

import ast

from .. import astutil as A
from ..callgraph import callgraph
from ..cfg import cfg_of, within
from ..dataflow import derives, local_defs, reaching

EXPL = (
    'Proxy completeness (every public member of Process that is not in a '
    'frozen exception table is overridden in ParallelProcess by a body that '
    'forwards through run_command with the command string equal to the '
    'member name, listed in the command tables, with the parameters in '
    'signature order); command pairing (who may call send_command, '
    'run_command = send + fetch, every send_command override starts with '
    'the guarded pre-check); the pending-window rule over the call graph '
    '(no proxied member is used on a process taken from the hierarchy '
    'inside the functions reachable from the apply phase; the sites of the '
    'pinned tree are known findings); shutdown drains a pending command, '
    'joins and closes, is idempotent, and Engine.end reaches processes and '
    'steps; deletion ends workers; wrapping at construction and in '
    'apply_update. Not decided: trajectory equality serial vs parallel; '
    'OS-level reaping.')

# members of Process that need no proxy, one reason each
PROXY_EXCEPTIONS = {
    'parallel': 'flag answered by the wrapper itself (it is constructed '
                'with _parallel=True)',
    'send_command': 'transport',
    'get_command_result': 'transport',
    'run_command': 'transport (send + fetch)',
    'run_command_method': 'runs in the child only',
    'pre_send_command': 'transport pre-check',
    'generate': 'implemented in terms of proxied members (parameters, '
                'generate_processes/steps/topology/flow, schema_override)',
    'get_schema': 'implemented in terms of ports_schema and schema_override',
    'ports': 'implemented in terms of ports_schema',
    'default_state': 'implemented in terms of get_schema',
    'is_deriver': 'deprecated hook consulted only inside is_step, which is '
                  'proxied',
}


def check(ck):
    ck.explanation = EXPL
    ck.technique = ('writer/reader table agreement (proxy vs command '
                    'tables vs signatures), who-may-call, call-graph '
                    'reachability with a sends-command effect, CFG '
                    'dominance / must-pass-through')
    table = r13_1(ck)
    r13_2(ck)
    r13_3(ck, table)
    r13_4(ck)
    r13_5(ck)
    r13_6(ck)
    r13_7(ck)
    r13_8(ck)
    r13_9(ck)
    r13_11(ck)
    from . import c01
    from ..engine_model import RunFor
    rf = RunFor(ck)
    ck.shared('R13.10', 'nothing is fetched from a process that was ended: '
              'the front entry of a deleted process - with the Defer that '
              'points at its (ended) worker - is dropped before the next '
              'poll, whatever update it still holds',
              lambda c: c01.r01_5(c, rf))


def _tuple_consts(node):
    if isinstance(node, (ast.Tuple, ast.List)):
        return [e.value for e in node.elts if isinstance(e, ast.Constant)]
    return []


def _is_property(fn):
    return any(isinstance(d, ast.Name) and d.id == 'property'
               for d in fn.node.decorator_list)


def r13_1(ck, only=None, rule='R13.1'):
    ck.rule(rule, 'proxy table: each public member of Process is either '
            'a frozen exception or overridden in ParallelProcess by a '
            'run_command forwarder (command = member name, in the command '
            'tables, parameters in signature order)')
    P = ck.repo.cls('Process')
    PP = ck.repo.cls('ParallelProcess')
    meths = _tuple_consts(P.assigns.get('METHOD_COMMANDS'))
    reads = _tuple_consts(P.assigns.get('ATTRIBUTE_READ_COMMANDS'))
    writes = _tuple_consts(P.assigns.get('ATTRIBUTE_WRITE_COMMANDS'))
    ck.require(bool(meths) and bool(reads) and bool(writes), rule,
               P.methods['send_command'], 'command tables',
               'Process declares METHOD/ATTRIBUTE_READ/ATTRIBUTE_WRITE '
               'command tables', 'command tables not found')
    n = 0
    proxied = set()
    for key, fn in sorted(P.methods.items()):
        name = fn.name
        if name.startswith('_'):
            continue
        setter = key.endswith('.setter')
        if name in PROXY_EXCEPTIONS:
            continue
        if only is not None and name not in only:
            continue
        ov = PP.methods.get(key)
        if ov is None:
            ck.fail(rule, fn, 'Process.%s' % key,
                    'public member Process.%s is not proxied by '
                    'ParallelProcess (and is not a listed exception): the '
                    'wrapper would answer from its own empty state instead '
                    'of the child process' % key, fn.node)
            continue
        n += 1
        proxied.add(name)
        ck.functions.add(ov.fq)
        calls = [c for c in A.calls_in(ov.node, 'run_command')
                 if A.is_name(A.call_receiver(c), 'self')]
        if len(calls) != 1:
            ck.fail(rule, ov, ov.node.name,
                    'the override of %s does not forward through exactly '
                    'one self.run_command(...)' % key, ov.node)
            continue
        c = calls[0]
        cfo = cfg_of(ov.node)
        ck.require(cfo.postdominates(cfo.node(c), cfo.entry), rule, ov, c,
                   'the proxy forwards on every path (it never answers '
                   'from its own state)',
                   'the proxy of %s can return without asking the child '
                   'process: the wrapper answers from its own (empty) '
                   'state, so an overridden %s of the wrapped process is '
                   'ignored' % (key, name), c)
        cmd = A.arg_of(c, 0, 'command')
        want = ('set_' + name) if setter else name
        ok = isinstance(cmd, ast.Constant) and cmd.value == want
        ck.require(ok, rule, ov, c,
                   "the command string equals the member name ('%s')" % want,
                   "the proxy of %s sends command %s" % (
                       key, A.unparse(cmd)), c)
        if isinstance(cmd, ast.Constant):
            tbl = writes if setter else (reads if _is_property(fn)
                                         else meths)
            ck.require(cmd.value in tbl, rule, ov, c,
                       'the command is listed in the matching command table',
                       "command '%s' is not in the %s table: the child "
                       'would reject it' % (cmd.value, 'write' if setter
                                            else 'read' if _is_property(fn)
                                            else 'method'), c)
        params = A.params_of(fn.node)[1:]
        oparams = A.params_of(ov.node)[1:]
        args = A.arg_of(c, 1, 'args')
        if params:
            ok = isinstance(args, ast.Tuple) and [
                A.unparse(e) for e in args.elts] == oparams and \
                len(oparams) == len(params)
            ck.require(ok, rule, ov, c,
                       'the argument tuple lists the parameters in '
                       'signature order %s' % (tuple(params),),
                       'the proxy of %s sends %s for the signature %s: '
                       'arguments reach the child in the wrong order'
                       % (key, A.unparse(args), tuple(params)), c)
        else:
            ck.require(args is None or (isinstance(args, ast.Tuple) and
                                        not args.elts), rule, ov, c,
                       'no arguments for a parameterless member', None, c)
        if not setter:
            rets = [r for r in A.walk_no_nested(ov.node)
                    if isinstance(r, ast.Return)]
            ok = any(r.value is c or (r.value is not None and A.contains(
                r.value, c)) for r in rets) or name in (
                    'merge_overrides',)
            ck.require(ok, rule, ov, c,
                       'the proxy returns what the child answered', None, c)
    ck.floor(rule, n, 17 if only is None else len(only), 'proxied members')
    if only is not None:
        return proxied
    # every command in the tables has a member on Process
    for cmd in meths:
        ck.require(cmd in P.methods, rule, P.methods['send_command'],
                   "method command '%s'" % cmd,
                   'every method command names a Process method', None)
    for cmd in reads:
        ck.require(cmd in P.methods and _is_property(P.methods[cmd]),
                   rule, P.methods['send_command'],
                   "read command '%s'" % cmd,
                   'every read command names a Process property', None)
    return proxied


def r13_2(ck):
    ck.rule('R13.2', 'pairing: send_command is called only by run_command '
            '(send + fetch), _process_update (paired through the Defer), '
            'ParallelProcess.end and overrides delegating to super(); every '
            'send_command override starts with the guarded pre-check')
    allowed = {'Process.run_command', '_process_update',
               'Engine._process_update', 'ParallelProcess.end'}
    n = 0
    for fi in ck.repo.functions:
        if fi.is_test:
            continue
        for c in A.calls_in(fi.node, 'send_command'):
            n += 1
            recv = A.call_receiver(c)
            via_super = isinstance(recv, ast.Call) and A.is_name(
                recv.func, 'super')
            ok = fi.qual in allowed or (via_super and
                                        fi.name == 'send_command')
            ck.require(ok, 'R13.2', fi, c,
                       'send_command is used only by the paired callers',
                       'send_command is called from %s without a matching '
                       'get_command_result discipline' % fi.qual, c)
    ck.floor('R13.2', n, 3, 'send_command call sites')
    rc = ck.fn('Process.run_command', 'core.process')
    cfg = cfg_of(rc.node)
    s = [cfg.node(c) for c in A.calls_in(rc.node, 'send_command')]
    g = [c for c in A.calls_in(rc.node, 'get_command_result')]
    ok = len(s) == 1 and len(g) == 1 and cfg.dominates(
        s[0], cfg.node(g[0])) and any(
        isinstance(r, ast.Return) and r.value is not None and A.contains(
            r.value, g[0]) for r in A.walk_no_nested(rc.node))
    ck.require(ok, 'R13.2', rc, rc.node.name,
               'run_command sends once, then fetches once and returns the '
               'result', 'run_command is no longer send + fetch + return')
    if s:
        c = list(A.calls_in(rc.node, 'send_command'))[0]
        p = A.params_of(rc.node)[1:]
        ok = [A.unparse(a) for a in c.args] == p[:len(c.args)]
        ck.require(ok, 'R13.2', rc, c,
                   'run_command forwards (command, args, kwargs) unchanged',
                   None, c)
    sibs = [f for f in ck.repo.functions if f.name == 'send_command'
            and f.cls and not f.is_test]
    ck.floor('R13.2', len(sibs), 2, 'send_command implementations')
    for f in sibs:
        c = cfg_of(f.node)
        pre = [x for x in A.calls_in(f.node, 'pre_send_command')]
        ok = False
        if pre:
            pn = c.node(pre[0])
            g = c.guards(pn)
            ok = ('truthy', 'run_pre_check') in g
            # nothing is sent / run before the pre-check
            first_effects = [x for x in A.calls_in(f.node)
                             if A.call_name(x) in ('send', 'run_command_method',
                                                   'setattr', 'getattr')
                             or (A.call_name(x) == 'send_command')]
            test = pre[0]
            while not isinstance(test, ast.If):
                test = test._parent
            tn = c.node(test)
            ok = ok and all(c.dominates(tn, c.node(x))
                            for x in first_effects)
        ck.require(ok, 'R13.2', f, pre[0] if pre else f.node.name,
                   'the override begins with the run_pre_check-guarded '
                   'pre_send_command',
                   '%s no longer runs the pending-command pre-check before '
                   'sending: a second command could be sent to a busy '
                   'process unnoticed' % f.qual)
        for x in A.calls_in(f.node, 'send_command'):
            recv = A.call_receiver(x)
            if isinstance(recv, ast.Call) and A.is_name(recv.func, 'super'):
                v = A.arg_of(x, 3, 'run_pre_check')
                ck.require(isinstance(v, ast.Constant) and v.value is False,
                           'R13.2', f, x,
                           'delegation to super() disables the second '
                           'pre-check', None, x)
    pre = ck.fn('Process.pre_send_command', 'core.process')
    c = cfg_of(pre.node)
    raises_ = [r for r in A.walk_no_nested(pre.node) if isinstance(r, ast.Raise)]
    ok = any(('truthy', 'self._pending_command') in c.guards(c.node(r))
             for r in raises_) and any(
        isinstance(s, ast.Assign) and A.unparse(s.targets[0]) ==
        'self._pending_command' for s in A.walk_no_nested(pre.node))
    ck.require(ok, 'R13.2', pre, pre.node.name,
               'pre_send_command raises when a command is pending and '
               'records the new one',
               'pre_send_command no longer refuses a second pending command')
    for q in ('Process.get_command_result',
              'ParallelProcess.get_command_result'):
        f = ck.fn(q, 'core.process')
        c = cfg_of(f.node)
        clr = [s for s in A.walk_no_nested(f.node)
               if isinstance(s, ast.Assign) and A.unparse(
                   s.targets[0]) == 'self._pending_command' and isinstance(
                   s.value, ast.Constant) and s.value.value is None]
        rs = [r for r in A.walk_no_nested(f.node) if isinstance(r, ast.Raise)]
        ok = bool(clr) and any(('falsy', 'self._pending_command') in
                               c.guards(c.node(r)) for r in rs)
        ck.require(ok, 'R13.2', f, f.node.name,
                   'fetching clears the pending command and refuses a fetch '
                   'with nothing pending', None)


def window_functions(ck):
    cg = callgraph(ck.repo)
    roots = [ck.fn('Engine._send_updates', 'core.engine'),
             ck.fn('Engine.run_steps', 'core.engine'),
             ck.fn('Engine.apply_update', 'core.engine')]
    fam = {'Process'} | {c.name for c in ck.repo.subclasses(
        'Process', include_tests=True)}
    seen = cg.reachable(roots, stop=lambda f: f.cls in fam)
    return cg, seen, fam


# sites that look like violations of R13.3 but are not, one reason each
PENDING_EXCEPTIONS = {
    ('Store._apply_config', 'self.value.is_step()'):
        'evaluated only on nodes that carry a flow; those are configured '
        'at their creation by _generate_paths with a process that was just '
        'handed in, and no structural handler re-configures an existing '
        'step node',
}


def r13_3(ck, proxied):
    ck.rule('R13.3', 'pending window: inside the functions reachable from '
            'the apply phase (_send_updates, run_steps, apply_update) no '
            'proxied member is called or read on a process taken from the '
            'hierarchy (<Store>.value.<member>), because other processes '
            'of the batch may still have an unfetched command')
    cg, seen, fam = window_functions(ck)
    ck.note('pending window W: %d functions reachable from the apply phase'
            % len(seen))
    n_sites = 0
    for fq, (f, parent, call) in sorted(seen.items()):
        if f.cls in fam or f.is_test:
            continue
        ck.functions.add(f.fq)
        for n in ast.walk(f.node):
            if not (isinstance(n, ast.Attribute) and n.attr in proxied):
                continue
            base = n.value
            if not (isinstance(base, ast.Attribute) and
                    base.attr == 'value'):
                continue
            par = getattr(n, '_parent', None)
            # the construct is named without the local that holds the
            # store: <store>.value.<member>
            root = base.value
            rtxt = 'self' if A.is_name(root, 'self') else (
                '<store>' if isinstance(root, ast.Name) else A.unparse(root))
            construct = '%s.value.%s' % (rtxt, n.attr)
            if isinstance(par, ast.Call) and par.func is n:
                construct += '()'
            if isinstance(getattr(n, 'ctx', None), ast.Store):
                construct += ' = ...'
            n_sites += 1
            key = (f.qual, construct)
            if key in PENDING_EXCEPTIONS:
                ck.ok('R13.3', f, construct,
                      'frozen exception: ' + PENDING_EXCEPTIONS[key], n)
                continue
            chain = ' -> '.join(cg.path_to(seen, fq))
            ck.fail('R13.3', f, construct,
                    'a command is sent to a process taken from the '
                    'hierarchy while updates of other processes may still '
                    'be in flight (reached via %s): with a parallel process '
                    'this raises "command ... is still pending"' % chain, n,
                    what='no proxied member used on <Store>.value inside '
                    'the pending window')
    ck.floor('R13.3', n_sites, 1, 'candidate sites in the pending window')
    ck.floor('R13.3', len(seen), 20, 'functions in the pending window')


def r13_4(ck):
    ck.rule('R13.4', 'shutdown: end() is idempotent, drains a pending '
            'command before sending end, joins and closes the worker and '
            'marks itself ended on every normal path; __del__ calls end; '
            'Engine.end reaches every leaf of processes and steps')
    f = ck.fn('ParallelProcess.end', 'core.process')
    cfg = cfg_of(f.node)
    sends = [c for c in A.calls_in(f.node, 'send_command')
             if c.args and isinstance(c.args[0], ast.Constant) and
             c.args[0].value == 'end']
    ck.require(len(sends) == 1, 'R13.4', f, f.node.name,
               "end() sends the 'end' command once",
               "end() does not send exactly one 'end' command")
    if not sends:
        return
    sn = cfg.node(sends[0])
    early = [r for r in A.walk_no_nested(f.node) if isinstance(r, ast.Return)
             and ('truthy', 'self._ended') in cfg.guards(cfg.node(r))]
    ok = bool(early) and all(cfg.dominates(_test_of(cfg, r), sn)
                             for r in early)
    # ... or everything end() does sits under `if not self._ended:`
    if not ok:
        ok = ('falsy', 'self._ended') in cfg.guards(sn)
    ck.require(ok, 'R13.4', f, early[0] if early else f.node.name,
               'end() returns early when the process was already ended',
               'end() is no longer idempotent: a second end() (e.g. from '
               '__del__) would send to a closed pipe')
    drains = set()
    for c in A.calls_in(f.node, 'get_command_result'):
        g = cfg.guards(cfg.node(c))
        if ('truthy', 'self._pending_command') in g:
            drains.add(cfg.node(c))
    skip = set()
    for n, info in cfg.info.items():
        if info['kind'] == 'edge' and info.get('cond') is not None and \
                info['pol'] is False:
            ta = A.cond_atoms(info['cond'], True)
            if ta and ta <= {('truthy', 'self._pending_command'),
                             ('isnot', 'self._pending_command', 'None')}:
                skip.add(n)
    bypass = isinstance(A.arg_of(sends[0], 3, 'run_pre_check'),
                        ast.Constant)
    ok = (bool(drains) and cfg.must_pass(cfg.entry, sn, drains | skip)) \
        or bypass
    ck.require(ok, 'R13.4', f, sends[0],
               "a pending command is drained before 'end' is sent",
               "end() sends 'end' through the pending-command pre-check "
               'without draining an update in flight: ending (or deleting) '
               'a process with an update in flight raises and leaks the '
               'worker', sends[0])
    for nm in ('join', 'close'):
        cs = [c for c in A.calls_in(f.node, nm)
              if 'self.multiprocess' in A.unparse(c.func)]
        ok = bool(cs) and cfg.postdominates(cfg.node(cs[0]), sn)
        ck.require(ok, 'R13.4', f, cs[0] if cs else 'multiprocess.' + nm,
                   'the worker is %sed after the end command on every '
                   'normal path' % nm,
                   'end() no longer calls multiprocess.%s(): the worker '
                   'process is not reaped' % nm)
    flags = [s for s in A.walk_no_nested(f.node) if isinstance(s, ast.Assign)
             and A.unparse(s.targets[0]) == 'self._ended' and isinstance(
                 s.value, ast.Constant) and s.value.value is True]
    ok = bool(flags) and cfg.postdominates(cfg.node(flags[0]), sn)
    ck.require(ok, 'R13.4', f, flags[0] if flags else 'self._ended',
               '_ended is set on every normal exit after the end command',
               'end() does not mark the process as ended')
    d = ck.fn('ParallelProcess.__del__', 'core.process')
    ok = any(A.is_name(A.call_receiver(c), 'self')
             for c in A.calls_in(d.node, 'end'))
    ck.require(ok, 'R13.4', d, d.node.name, '__del__ ends the worker',
               '__del__ no longer calls end()')
    # the child loop stops on 'end'
    h = ck.fn('_handle_parallel_process', 'core.process')
    ch = cfg_of(h.node)
    ok = any(isinstance(s, ast.Assign) and isinstance(
        s.value, ast.Constant) and s.value.value is False and any(
        a[0] == '==' and "'end'" in a[1:] for a in ch.guards(ch.node(s)))
        for s in A.walk_no_nested(h.node)) or any(
        isinstance(s, ast.Break) and any(
            a[0] == '==' and "'end'" in a[1:]
            for a in ch.guards(ch.node(s)))
        for s in A.walk_no_nested(h.node))
    ck.require(ok, 'R13.4', h, h.node.name,
               "the child loop stops when it receives 'end'",
               "the child no longer stops on the 'end' command")
    e = ck.fn('Engine.end', 'core.engine')
    for reg in ('self.processes', 'self.steps'):
        ok = False
        for c in A.calls_in(e.node, 'apply_func_to_leaves'):
            if A.unparse(A.arg_of(c, 0)) == reg and \
                    '_end_process_if_parallel' in A.unparse(A.arg_of(c, 1)):
                ok = cfg_of(e.node).postdominates(
                    cfg_of(e.node).node(c), cfg_of(e.node).entry)
        ck.require(ok, 'R13.4', e, 'ender applied to ' + reg,
                   'Engine.end ends every parallel leaf of ' + reg,
                   'Engine.end no longer ends the parallel workers in %s'
                   % reg)
    ep = ck.fn('Engine._end_process_if_parallel', 'core.engine')
    ce = cfg_of(ep.node)
    ok = any(any(a[0] == 'truthy' and a[1].endswith('.parallel')
                 for a in ce.guards(ce.node(c)))
             for c in A.calls_in(ep.node, 'end'))
    ck.require(ok, 'R13.4', ep, ep.node.name,
               'a parallel process is ended', None)
    al = ck.fn('apply_func_to_leaves', 'library.dict_utils')
    ap = A.params_of(al.node)
    # the function is applied to a non-dict root; every value of a dict root
    # is visited recursively with the same function
    leaf = [c for c in A.calls_in(al.node)
            if isinstance(c.func, ast.Name) and c.func.id == ap[1]
            and len(c.args) == 1 and A.is_name(c.args[0], ap[0])]
    rec = []
    for c in A.calls_in(al.node, al.name):
        lp = c
        while lp is not None and not isinstance(lp, ast.For):
            lp = getattr(lp, '_parent', None)
        if lp is None or ap[0] not in A.names_in(lp.iter):
            continue
        child = A.arg_of(c, 0, ap[0])
        fa = A.arg_of(c, 1, ap[1])
        if A.is_name(fa, ap[1]) and child is not None and (
                A.names_in(child) & A.names_in(lp.target)
                or A.unparse(child).startswith(ap[0] + '[')):
            rec.append(c)
    ok = bool(leaf) and bool(rec)
    ck.require(ok, 'R13.4', al, al.node.name,
               'apply_func_to_leaves visits every leaf', None)


def _test_of(cfg, stmt):
    p = stmt
    while p is not None and not isinstance(p, ast.If):
        p = p._parent
    return cfg.node(p) if p is not None else None


def r13_5(ck):
    ck.rule('R13.5', 'deletion ends workers: every del of a child in '
            'Store._delete_path is preceded by recursive_end_process on '
            'that child (unless the caller only detaches, which only '
            'Store.move does); recursive_end_process reaches every '
            'ParallelProcess below')
    f = ck.fn('Store._delete_path', 'core.store')
    cfg = cfg_of(f.node)
    dels = [d for d in A.walk_no_nested(f.node) if isinstance(d, ast.Delete)]
    ck.floor('R13.5', len(dels), 1, 'del statements in _delete_path')
    ends = {cfg.node(c): c for c in A.calls_in(f.node,
                                               'recursive_end_process')}
    flagp = None
    skip = set()
    for n, info in cfg.info.items():
        if info['kind'] == 'edge' and isinstance(info.get('cond'), ast.Name) \
                and info['cond'].id in A.params_of(f.node) and \
                info['pol'] is False:
            skip.add(n)
            flagp = info['cond'].id
    for d in dels:
        t = d.targets[0]
        from ..dataflow import expand
        from ..loader import enclosing_stmt
        same = {n for n, c in ends.items()
                if A.unparse(expand(f.node, A.arg_of(c, 0),
                                    enclosing_stmt(c))) == A.unparse(
                    expand(f.node, t, d))}
        ok = bool(same) and cfg.must_pass(cfg.entry, cfg.node(d),
                                          same | skip)
        ck.require(ok, 'R13.5', f, d,
                   'the child is handed to recursive_end_process before it '
                   'is removed',
                   'a subtree is removed without ending the parallel '
                   'processes in it: their workers are leaked', d)
    if flagp:
        for fi in ck.repo.functions:
            if fi.is_test:
                continue
            for c in A.calls_in(fi.node, '_delete_path'):
                v = A.arg_of(c, 1, flagp)
                if v is None:
                    continue
                ok = fi.qual == 'Store.move'
                ck.require(ok, 'R13.5', fi, c,
                           'only Store.move detaches without ending '
                           'workers',
                           '%s removes a subtree with %s=%s: its workers '
                           'are not ended' % (fi.qual, flagp, A.unparse(v)),
                           c)
    # empty-path branch is not used by any caller
    for fi in ck.repo.functions:
        if fi.is_test or fi.cls != 'Store':
            continue
        for c in A.calls_in(fi.node, '_delete_path'):
            a0 = A.arg_of(c, 0, 'path')
            ok = False
            e = a0
            if isinstance(e, ast.Name):
                ds = reaching(fi.node).at(c, e.id)
                ok = bool(ds) and all(
                    isinstance(d.value, ast.Tuple) and d.value.elts or
                    (d.value is not None and 'source' in A.unparse(d.value))
                    for d in ds)
            elif isinstance(e, ast.Tuple) and e.elts:
                ok = True
            ck.require(ok, 'R13.5', fi, c,
                       '_delete_path is called with a non-empty path (the '
                       'empty-path branch, which ends nothing, is unused)',
                       '_delete_path may be called with an empty path, '
                       'which clears the node without ending workers', c)
    r = ck.fn_opt('Store.recursive_end_process', 'core.store')
    if r is None:
        # the store-side helper is gone: what matters is decided above
        # (every `del X.inner[k]` preceded by ending the workers below it)
        dp = ck.fn('Store._delete_path', 'core.store')
        ck.fail('R13.5', dp, dp.node.name,
                'Store.recursive_end_process no longer exists: deleting a '
                'subtree in the store does not end the parallel processes '
                'below it any more (ending them elsewhere, from the paths '
                'reported to the engine, also ends the workers of a subtree '
                'that was only moved)')
        return
    cr = cfg_of(r.node)
    ok_end = any(any(a[0] == 'isinstance' and 'ParallelProcess' in a[2]
                     for a in cr.guards(cr.node(c)))
                 for c in A.calls_in(r.node, 'end'))
    rec = [c for c in A.calls_in(r.node, 'recursive_end_process')]
    ok_rec = bool(rec) and any(
        isinstance(l, ast.For) and '.inner' in A.unparse(l.iter)
        for l in A.walk_no_nested(r.node))
    ck.require(ok_end, 'R13.5', r, r.node.name,
               'a ParallelProcess found in the subtree is ended',
               'recursive_end_process no longer ends ParallelProcess '
               'values')
    ck.require(ok_rec, 'R13.5', r, r.node.name,
               'the whole subtree is visited',
               'recursive_end_process no longer recurses into the children')


def r13_6(ck):
    ck.rule('R13.6', 'wrapping: processes and steps are parallelised at '
            'construction and when added by structural updates; '
            '_parallelize_processes wraps exactly the processes flagged '
            'parallel that are not wrapped yet')
    ms = ck.fn('Engine._make_store', 'core.engine')
    for reg in ('self.processes', 'self.steps'):
        ok = any(isinstance(s, ast.Assign) and A.unparse(
            s.targets[0]) == reg and any(
            A.call_name(c) == '_parallelize_processes' and A.unparse(
                A.arg_of(c, 0)) == reg for c in A.calls_in(s.value))
            for s in A.walk_no_nested(ms.node))
        ck.require(ok, 'R13.6', ms, reg,
                   reg + ' is parallelised at construction',
                   reg + ' is no longer passed through '
                   '_parallelize_processes at construction')
    ea = ck.fn('Engine.apply_update', 'core.engine')
    from .c10 import local_kind
    for kind in ('process', 'step'):
        ok = False
        for d in [x for lst in local_defs(ea.node).values() for x in lst]:
            if local_kind(ea.node, d.name) == kind and d.value is not \
                    None and any(A.call_name(c) == '_parallelize_processes'
                                 for c in A.calls_in(d.value)):
                ok = True
        ck.require(ok, 'R13.6', ea, kind + '_updates',
                   'new %s objects from structural updates are parallelised'
                   % kind,
                   'new %s objects created by structural updates are not '
                   'wrapped: a process flagged parallel would run serially '
                   'in the main process' % kind)
    pp = ck.fn('Engine._parallelize_processes', 'core.engine')
    cfg = cfg_of(pp.node)
    wraps = [c for c in A.calls_in(pp.node, 'ParallelProcess')]
    ok = False
    for w in wraps:
        g = cfg.guards(cfg.node(w))
        p = A.params_of(pp.node)[1]
        ok = ('truthy', p + '.parallel') in g and (
            'notisinstance', p, 'ParallelProcess') in g and (
            'isinstance', p, 'Process') in g and A.is_name(
                A.arg_of(w, 0), p)
    ck.require(ok, 'R13.6', pp, wraps[0] if wraps else pp.node.name,
               'a Process flagged parallel and not yet wrapped is wrapped',
               '_parallelize_processes no longer wraps parallel processes '
               '(guard changed or constant-folded away)')
    rec = [c for c in A.calls_in(pp.node, '_parallelize_processes')]
    ck.require(bool(rec), 'R13.6', pp, pp.node.name,
               'nested dictionaries are traversed', None)
    # the wrapped object is returned / stored
    rets = [r for r in A.walk_no_nested(pp.node) if isinstance(r, ast.Return)]
    p1 = A.params_of(pp.node)[1]

    def fine(v):
        if A.is_name(v, p1):
            return True
        if isinstance(v, ast.Call) and A.call_name(v) == \
                'ParallelProcess' and A.is_name(A.arg_of(v, 0), p1):
            return True
        if isinstance(v, (ast.DictComp, ast.Dict)) and any(
                isinstance(x, ast.Call) and A.call_name(x) ==
                '_parallelize_processes' for x in ast.walk(v)):
            return True
        return False
    ok = bool(rets) and all(r.value is not None and fine(r.value)
                            for r in rets)
    ck.require(ok, 'R13.6', pp, rets[0] if rets else pp.node.name,
               'the (possibly wrapped) object is returned', None)


def r13_7(ck):
    ck.rule('R13.7', 'fetch before apply: in _send_updates and run_steps '
            'no deferred result is fetched inside the loop that applies '
            'updates - applying an update can delete (end) a parallel '
            'process whose own result is still to be fetched in the same '
            'batch')
    n = 0
    for q in ('Engine._send_updates', 'Engine.run_steps'):
        f = ck.fn(q, 'core.engine')
        for loop in A.walk_no_nested(f.node):
            if not isinstance(loop, ast.For):
                continue
            appl = [c for c in A.calls_in(loop, 'apply_update')
                    if A.is_name(A.call_receiver(c), 'self')]
            if not appl:
                continue
            # innermost loop containing the apply call
            inner = appl[0]
            while not isinstance(inner, ast.For):
                inner = inner._parent
            if inner is not loop:
                continue
            n += 1
            gets = [c for c in A.calls_in(loop, 'get')
                    if not c.args and not c.keywords]
            # a lazy iterable (generator expression, map) fetches inside
            # the loop as well
            if isinstance(loop.iter, ast.Name):
                for d in local_defs(f.node).get(loop.iter.id, []):
                    v = d.value
                    lazy = isinstance(v, ast.GeneratorExp) or (
                        isinstance(v, ast.Call) and A.call_name(v) in (
                            'map', 'zip', 'filter', 'iter'))
                    if lazy:
                        gets += [c for c in A.calls_in(v, 'get')
                                 if not c.args and not c.keywords] or [v]
            elif isinstance(loop.iter, ast.GeneratorExp):
                gets += [loop.iter]
            ck.require(not gets, 'R13.7', f, loop,
                       'the apply loop fetches nothing (results were '
                       'collected before it)',
                       'a deferred result is fetched (%s) inside the loop '
                       'that applies updates: an earlier update of the '
                       'batch may already have deleted and ended that '
                       'parallel process, and the fetch raises' % (
                           A.short(gets[0], 30) if gets else ''), loop)
    ck.floor('R13.7', n, 2, 'apply loops')


def r13_8(ck):
    ck.rule('R13.8', "the worker answers every command except 'end' with "
            'exactly one message: one run_command and one send of its '
            'result per loop iteration; the process it runs is the wrapped '
            'one')
    h = ck.fn('_handle_parallel_process', 'core.process')
    cfg = cfg_of(h.node)
    loops = [l for l in A.walk_no_nested(h.node)
             if isinstance(l, ast.While)]
    ck.require(len(loops) == 1, 'R13.8', h, h.node.name,
               'the worker serves commands in one loop', None)
    if not loops:
        return
    lp = loops[0]
    recvs = [c for c in A.calls_in(lp, 'recv')]
    runs = [c for c in A.calls_in(lp, 'run_command')]
    sends = [c for c in A.calls_in(lp, 'send')]
    ck.require(len(recvs) == 1 and len(runs) == 1 and len(sends) == 1,
               'R13.8', h, lp,
               'one recv, one run_command and one send per iteration',
               'the worker loop has %d recv / %d run_command / %d send '
               'calls: commands and answers get out of step' % (
                   len(recvs), len(runs), len(sends)), lp)
    if len(runs) == 1 and len(sends) == 1:
        proc = A.params_of(h.node)[1]
        # the three names the received message is unpacked into
        got = None
        for s2 in A.walk_no_nested(lp):
            if isinstance(s2, ast.Assign) and recvs and A.contains(
                    s2.value, recvs[0]) and isinstance(
                    s2.targets[0], ast.Tuple):
                got = [A.unparse(e) for e in s2.targets[0].elts]
        ok = A.is_name(A.call_receiver(runs[0]), proc) and got is not None \
            and len(got) == 3 and [
                A.unparse(a) for a in runs[0].args] == got
        ck.require(ok, 'R13.8', h, runs[0],
                   'the received (command, args, kwargs) is run on the '
                   'wrapped process', None, runs[0])
        a0 = A.arg_of(sends[0], 0)
        ok = derives(h.node, a0, lambda x: x is runs[0], at=sends[0])
        ck.require(ok, 'R13.8', h, sends[0],
                   'what is sent back is the result of that command',
                   'the worker sends back %s, not the result of the '
                   'command' % A.unparse(a0), sends[0])
        g_run = cfg.guards(cfg.node(runs[0]))
        g_send = cfg.guards(cfg.node(sends[0]))
        ck.require(g_run == g_send and any(
            a[0] == '!=' and "'end'" in a[1:] for a in g_run), 'R13.8', h,
            sends[0],
            "run and send happen together, for every command but 'end'",
            'run_command and send are not under the same condition '
            "(command != 'end')", sends[0])
    pp = ck.fn('ParallelProcess.__init__', 'core.process')
    tgt = [c for c in A.calls_in(pp.node, 'Process')
           if any(k.arg == 'target' for k in c.keywords)]
    ok = False
    for c in tgt:
        t = A.arg_of(c, None, 'target')
        a = A.arg_of(c, None, 'args')
        ok = A.is_name(t, '_handle_parallel_process') and isinstance(
            a, ast.Tuple) and len(a.elts) == 3 and A.is_name(
            a.elts[1], A.params_of(pp.node)[1])
    ck.require(ok, 'R13.8', pp, tgt[0] if tgt else pp.node.name,
               'the worker is started on the wrapped process with the '
               'child end of the pipe', None)
    st = [c for c in A.calls_in(pp.node, 'start')]
    ck.require(bool(st), 'R13.8', pp, pp.node.name,
               'the worker is started at construction', None)
    # workers may start OS processes of their own (a process that embeds an
    # engine with parallel processes, a pool): they are not daemonic
    for c in tgt:
        dm = A.arg_of(c, None, 'daemon')
        ok = dm is None or (isinstance(dm, ast.Constant) and
                            dm.value in (False, None))
        ck.require(ok, 'R13.8', pp, c,
                   'the worker is not a daemonic process',
                   'the worker is started with daemon=%s: a daemonic '
                   'process may not have children, so a process that '
                   'itself uses multiprocessing can no longer be run in '
                   'parallel' % (A.unparse(dm) if dm is not None else ''), c)
    for s2 in A.walk_no_nested(pp.node):
        if isinstance(s2, ast.Assign) and isinstance(
                s2.targets[0], ast.Attribute) and \
                s2.targets[0].attr == 'daemon':
            ok = isinstance(s2.value, ast.Constant) and not s2.value.value
            ck.require(ok, 'R13.8', pp, s2,
                       'the worker is not a daemonic process',
                       'the worker is made daemonic: it may not have '
                       'children of its own', s2)


def r13_11(ck):
    ck.rule('R13.11', 'Store.divide asks the mother for what a daughter '
            'inherits only when that daughter does not bring its own: the '
            'mother is asked for its processes (which asks every process '
            'is_step(), a command for a parallel one) inside the daughters '
            'loop under the "not given by the daughter" test - a division '
            'whose daughters bring their processes sends no command to the '
            'processes of the mother, which may have updates in flight')
    from .roles import loops_over_field, spec_field
    dv = ck.fn('Store.divide', 'core.store')
    cfg = cfg_of(dv.node)
    loops = loops_over_field(dv.node, 'daughters')
    n = 0
    for c in A.calls_in(dv.node, ('get_processes', 'get_steps')):
        n += 1
        inside = [lp for lp in loops if within(c, lp)]
        ok = bool(inside)
        if ok:
            lp = inside[0]
            tv = lp.target.elts[0] if isinstance(
                lp.target, ast.Tuple) else lp.target
            dname = A.unparse(tv)
            g = cfg.guards(cfg.node(c)) - cfg.guards(
                cfg.loops[id(lp)]['body_entry'])
            ok = any(a[0] == 'notin' and a[2] == dname for a in g)
        ck.require(ok, 'R13.11', dv, c,
                   'the mother is asked for its processes only for a '
                   'daughter that brings none',
                   'Store.divide collects the processes of the mother '
                   'unconditionally (%s): also when every daughter brings '
                   'its own, each process of the mother is asked is_step() '
                   '- a parallel process with an update in flight answers '
                   "with RuntimeError '... is still pending' and the "
                   'division is left half applied' % A.short(c, 60), c)
    ck.floor('R13.11', n, 1, 'lookups of the mother processes in divide')


def r13_9(ck):
    ck.rule('R13.9', 'the hierarchy and the engine hold the same (wrapped) '
            'objects: every process and step reported by a structural '
            'update is parallelised, written back into its store node and '
            'registered (shared with C10 R10.2)')
    from . import c10
    c10.r10_2(ck)
    for o in ck.obligations:
        if o['rule'] == 'R10.2':
            o['rule'] = 'R13.9'
    for v in ck.violations:
        if v.rule == 'R10.2':
            v.rule = 'R13.9'
    ck.rules.pop('R10.2', None)
