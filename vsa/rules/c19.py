"""C19 - timeline events fire exactly once, on time, whatever order they
are listed in."""

import ast

from .. import astutil as A
from ..cfg import cfg_of, within
from ..dataflow import derives, local_defs, reaching

EXPL = (
    'The event list is never mutated while it is iterated (rule applied to '
    'every process class of the repository); the value bound to '
    'self.timeline derives from a sort primitive keyed on the event time, '
    'and events with equal times are merged with dict.update, not '
    'replaced; any list splice L[:a] + [x] + L[b:] has a == b; the '
    'attributes written by what is reachable from ports_schema are '
    'disjoint from the ones next_update mutates (every process class); '
    'the timeline is initialised by the constructor; an event fires under '
    'clock >= event time and is removed from the list exactly once on that '
    'path; add_timeline wires the process own ports.')

MUTATORS = {'pop', 'remove', 'insert', 'append', 'extend', 'clear', 'sort',
            'reverse', 'popitem', 'update', 'setdefault', 'add', 'discard'}


def check(ck):
    ck.explanation = EXPL
    ck.technique = ('mutation-under-iteration rule, sort-primitive '
                    'provenance, slice-complement rule, attribute-effect '
                    'disjointness over the class hierarchy, CFG guards')
    ck.assume('the engine ticks the timeline process as any other process '
              '(C01/C02)')
    procs = process_classes(ck)
    r19_1(ck, procs)
    r19_2(ck)
    r19_3(ck, procs)
    r19_4(ck)
    r19_5(ck)
    r19_6(ck)
    from . import helpers as H
    ck.rule('R19.7', 'nested_set builds the update of one variable: walk keys[:-1] with setdefault, store under keys[-1]')
    H.nested_set_shape(ck, 'R19.7')
    from . import c08
    ck.rule('R19.8', "an event reaches its variable as a set: the "
            "'_updater': 'set' carried by the update is honoured whatever "
            'updater the variable declares, the value carried is used as '
            'it is, and the updates of two ports that fall due together '
            'are combined without losing one (deep_merge_multi_update '
            'keeps its recursion skeleton)')
    ck.shared('R19.8', "an event reaches its variable as a set: the "
              "'_updater': 'set' carried by the update is honoured "
              'whatever updater the variable declares and the updates of '
              'two ports that fall due together are combined without '
              'losing one',
              c08.r08_1, c08.r08_11,
              lambda c: H.deep_merge_shape(c, 'R19.8',
                                           'deep_merge_multi_update'))


def process_classes(ck):
    out = []
    for ci in ck.repo.subclasses('Process', include_tests=False):
        out.append(ci)
    return sorted(out, key=lambda c: (c.module, c.name))


def mutations_of_expr(node, text):
    """Statements/calls inside ``node`` that mutate the container whose
    source text is ``text``."""
    out = []
    for n in ast.walk(node):
        if isinstance(n, ast.Call) and isinstance(n.func, ast.Attribute) \
                and n.func.attr in MUTATORS and A.unparse(
                    n.func.value) == text:
            out.append(n)
        elif isinstance(n, (ast.Assign, ast.AugAssign)):
            for t in A.assigned_targets(n):
                if isinstance(t, ast.Subscript) and A.unparse(
                        t.value) == text:
                    out.append(n)
        elif isinstance(n, ast.Delete):
            for t in n.targets:
                if isinstance(t, ast.Subscript) and A.unparse(
                        t.value) == text:
                    out.append(n)
    return out


def r19_1(ck, procs):
    ck.rule('R19.1', 'no mutation under iteration: a for-loop over a list '
            'does not pop/remove/insert/append/delete on that same list '
            '(helpers of the same class inlined one level)')
    n = 0
    for ci in procs:
        for key, m in sorted(ci.methods.items()):
            for loop in A.walk_no_nested(m.node):
                if not isinstance(loop, ast.For):
                    continue
                it = loop.iter
                # for x in L / enumerate(L) / L[:] is a copy (fine)
                if isinstance(it, ast.Call) and A.is_name(
                        it.func, 'enumerate') and it.args:
                    it = it.args[0]
                if not isinstance(it, (ast.Name, ast.Attribute)):
                    continue
                text = A.unparse(it)
                n += 1
                muts = []
                for b in loop.body:
                    muts += mutations_of_expr(b, text)
                    # one level of self.helper() inlining
                    for c in A.calls_in(b):
                        if isinstance(c.func, ast.Attribute) and A.is_name(
                                c.func.value, 'self') and text.startswith(
                                    'self.'):
                            h = ck.repo.method(ci.name, c.func.attr)
                            if h is not None and h.node is not m.node:
                                muts += mutations_of_expr(h.node, text)
                ck.functions.add(m.fq)
                # mutating and leaving the loop at once is fine
                bad = []
                cfg = cfg_of(m.node)
                for mu in muts:
                    st = mu
                    while not isinstance(st, ast.stmt):
                        st = st._parent
                    node = cfg.node(st)
                    hdr = cfg.loops[id(loop)]['header']
                    if node is not None and cfg.reach_without(
                            node, hdr, set(),
                            within=cfg.loop_nodes(loop) | {hdr}):
                        bad.append(mu)
                ck.require(not bad, 'R19.1', m, loop,
                           'the list iterated is not mutated in the loop',
                           'the loop iterates `%s` and `%s` mutates it: '
                           'elements are skipped (several events due in one '
                           'tick lose every second one)' % (
                               text, A.short(bad[0], 60) if bad else ''),
                           loop)
    ck.floor('R19.1', n, 5, 'loops over named containers in process '
             'classes')


def r19_2(ck):
    ck.rule('R19.2', 'order by a sort primitive: self.timeline is bound to '
            'the result of sorted()/list.sort() keyed on the event time; '
            'same-time events are merged with dict.update; list splices '
            'are complementary')
    ci = ck.repo.cls('TimelineProcess')
    binds = []
    for m in ci.methods.values():
        for s in A.walk_no_nested(m.node):
            if isinstance(s, ast.Assign) and any(
                    A.is_self_attr(t, 'timeline') for t in s.targets):
                binds.append((m, s))
    ck.require(bool(binds), 'R19.2', ci.methods['next_update'],
               'self.timeline', 'the timeline attribute is initialised',
               'self.timeline is never assigned')
    for m, s in binds:
        ck.functions.add(m.fq)

        def is_sort(x):
            if isinstance(x, ast.Call) and A.is_name(x.func, 'sorted'):
                return True
            return False
        sorted_ok = derives(m.node, s.value, is_sort, at=s)
        if not sorted_ok and isinstance(s.value, ast.Name):
            # in-place: timeline.sort(...) before the binding
            cfg = cfg_of(m.node)
            for c in A.calls_in(m.node, 'sort'):
                if A.is_name(A.call_receiver(c), s.value.id) and \
                        cfg.dominates(cfg.node(c), cfg.node(s)):
                    sorted_ok = True
        ck.require(sorted_ok, 'R19.2', m, s,
                   'the list bound to self.timeline is the result of a '
                   'sort',
                   'self.timeline is bound to %s, which does not come from '
                   'sorted()/list.sort(): events listed out of order fire '
                   'late or never' % A.short(s.value, 60), s)
        if sorted_ok:
            for c in [x for x in ast.walk(m.node) if is_sort(x)]:
                key = A.arg_of(c, None, 'key')
                ok = key is None or (
                    isinstance(key, ast.Lambda) and isinstance(
                        key.body, ast.Subscript) and A.unparse(
                        key.body.slice) == '0') or (
                    isinstance(key, ast.Call) and A.call_name(
                        key) == 'itemgetter' and [
                        A.unparse(a) for a in key.args] == ['0'])
                rev = A.arg_of(c, None, 'reverse')
                ok = ok and (rev is None or (isinstance(rev, ast.Constant)
                                             and rev.value is False))
                ck.require(ok, 'R19.2', m, c,
                           'the sort key is the event time (element 0), '
                           'ascending',
                           'the timeline is sorted by %s' % A.unparse(c), c)
        # merge of same-time events
        merged = False
        replaced = None
        for c in A.calls_in(m.node, 'update'):
            recv = A.call_receiver(c)
            if isinstance(recv, ast.Call) and A.call_name(recv) in (
                    'setdefault', 'get') or isinstance(recv, ast.Subscript):
                merged = True
        for s2 in A.walk_no_nested(m.node):
            if isinstance(s2, ast.Assign) and isinstance(
                    s2.targets[0], ast.Subscript) and isinstance(
                    s2.targets[0].value, ast.Name) and derives(
                    m.node, s.value, lambda x, nm=s2.targets[0].value.id:
                    A.is_name(x, nm), at=s):
                lp = s2._parent
                if isinstance(lp, ast.For) and 'timeline' in A.unparse(
                        lp.iter):
                    replaced = s2
        # the dictionary that collects same-time events must be a new one,
        # not the caller's
        aliased = None
        for s3 in A.walk_no_nested(m.node):
            if isinstance(s3, ast.Assign) and isinstance(
                    s3.targets[0], ast.Subscript) and isinstance(
                    s3.targets[0].value, ast.Name) and derives(
                    m.node, s.value, lambda x, nm=s3.targets[0].value.id:
                    A.is_name(x, nm), at=s):
                v3 = s3.value
                fresh = isinstance(v3, ast.Dict) or (
                    isinstance(v3, ast.Call) and A.call_name(v3) in (
                        'dict', 'copy', 'deepcopy'))
                lp3 = s3
                while lp3 is not None and not isinstance(lp3, ast.For):
                    lp3 = getattr(lp3, '_parent', None)
                if lp3 is not None and not fresh and merged:
                    aliased = s3
        ck.require(aliased is None, 'R19.2', m,
                   aliased if aliased is not None else s,
                   'same-time events are merged into a new dictionary',
                   "the merged event aliases the caller's dictionary (%s) "
                   'and a later same-time event is merged INTO it: an '
                   'event dictionary reused at another time fires with '
                   'the extra changes' % (A.short(aliased, 50)
                                          if aliased is not None else ''),
                   aliased if aliased is not None else s)
        ck.require(merged and replaced is None, 'R19.2', m,
                   replaced if replaced is not None else s,
                   'events with equal times are merged with dict.update',
                   'events that share a time replace each other instead of '
                   'being merged', replaced if replaced is not None else s)
    # slice complement (G4) anywhere in the class
    for m in ci.methods.values():
        for b in ast.walk(m.node):
            if isinstance(b, ast.BinOp) and isinstance(b.op, ast.Add):
                parts = _flatten_add(b)
                sl = [p for p in parts if isinstance(p, ast.Subscript) and
                      isinstance(p.slice, ast.Slice)]
                if len(sl) == 2 and A.same(sl[0].value, sl[1].value) and \
                        sl[0].slice.upper is not None and \
                        sl[1].slice.lower is not None and \
                        getattr(b, '_parent', None).__class__ is not \
                        ast.BinOp:
                    ok = A.same(sl[0].slice.upper, sl[1].slice.lower)
                    ck.require(ok, 'R19.2', m, b,
                               'a list splice L[:a] + [x] + L[b:] has a == b',
                               'list splice with %s and %s drops or '
                               'duplicates an element' % (
                                   A.unparse(sl[0]), A.unparse(sl[1])), b)


def _flatten_add(b):
    if isinstance(b, ast.BinOp) and isinstance(b.op, ast.Add):
        return _flatten_add(b.left) + _flatten_add(b.right)
    return [b]


def attr_effects(ck, ci, meth, depth=3, _seen=None):
    """(assigned, mutated) self attributes by a method and the self-methods
    it calls."""
    _seen = _seen if _seen is not None else set()
    m = ck.repo.method(ci.name, meth)
    if m is None or m.fq in _seen:
        return set(), set()
    _seen.add(m.fq)
    assigned, mutated = set(), set()
    for n in A.walk_no_nested(m.node):
        if isinstance(n, (ast.Assign, ast.AugAssign, ast.AnnAssign)):
            for t in A.assigned_targets(n):
                if isinstance(t, ast.Attribute) and A.is_name(
                        t.value, 'self'):
                    assigned.add(t.attr)
                elif isinstance(t, ast.Subscript):
                    ch = A.attr_chain(t.value)
                    if ch and ch[0] == 'self' and len(ch) >= 2:
                        mutated.add(ch[1])
        elif isinstance(n, ast.Delete):
            for t in n.targets:
                ch = A.attr_chain(t.value) if isinstance(
                    t, ast.Subscript) else None
                if ch and ch[0] == 'self' and len(ch) >= 2:
                    mutated.add(ch[1])
        elif isinstance(n, ast.Call) and isinstance(n.func, ast.Attribute):
            if n.func.attr in MUTATORS:
                ch = A.attr_chain(n.func.value)
                if ch and ch[0] == 'self' and len(ch) >= 2:
                    mutated.add(ch[1])
            if A.is_name(n.func.value, 'self') and depth > 0:
                a, mu = attr_effects(ck, ci, n.func.attr, depth - 1, _seen)
                assigned |= a
                mutated |= mu
    return assigned, mutated


def r19_3(ck, procs):
    ck.rule('R19.3', 'schema purity: what ports_schema (and the methods it '
            'calls) writes on self is disjoint from what next_update '
            'mutates; the timeline is initialised in the constructor')
    n = 0
    for ci in procs:
        if ck.repo.method(ci.name, 'ports_schema') is None or \
                ck.repo.method(ci.name, 'next_update') is None:
            continue
        if ci.name in ('ParallelProcess',):
            continue
        n += 1
        sa, sm = attr_effects(ck, ci, 'ports_schema')
        na, nm = attr_effects(ck, ci, 'next_update')
        clash = (sa | sm) & (na | nm)
        m = ck.repo.method(ci.name, 'ports_schema')
        ck.functions.add(m.fq)
        ck.require(not clash, 'R19.3', m, '%s.ports_schema writes self.%s'
                   % (ci.name, ', self.'.join(sorted(clash)) or '-'),
                   'ports_schema does not re-initialise state that '
                   'next_update consumes',
                   '%s.ports_schema (re)writes self.%s, which next_update '
                   'mutates: every schema query (view rebuilds, topology '
                   'generation) rewinds the process' % (
                       ci.name, ', self.'.join(sorted(clash))), m.node)
    ck.floor('R19.3', n, 10, 'process classes with ports_schema and '
             'next_update')
    tp = ck.repo.cls('TimelineProcess')
    init = tp.methods.get('__init__')
    ok = False
    if init is not None:
        a, mu = attr_effects(ck, tp, '__init__')
        ok = 'timeline' in a
    ck.require(ok, 'R19.3', init or tp.methods['next_update'],
               'TimelineProcess.__init__',
               'the timeline is built once, by the constructor',
               'the constructor of TimelineProcess no longer initialises '
               'self.timeline')


def r19_4(ck):
    ck.rule('R19.4', "add_timeline wires the timeline process's own ports")
    f = ck.fn('add_timeline', 'core.composition')
    ok = False
    for d in ast.walk(f.node):
        if isinstance(d, ast.DictComp):
            it = d.generators[0].iter
            if isinstance(it, ast.Call) and A.call_name(it) == 'ports' and \
                    A.unparse(d.key) == A.unparse(d.generators[0].target):
                v = d.value
                ok = isinstance(v, ast.Call) and A.call_name(v) == 'get' \
                    and A.unparse(v.args[0]) == A.unparse(d.key) and \
                    A.unparse(v.args[1]).replace(' ', '') == '(%s,)' % \
                    A.unparse(d.key)
    ck.require(ok, 'R19.4', f, f.node.name,
               "every port of the timeline process is wired (to the given "
               'path or to (port,))',
               'add_timeline no longer builds the topology from '
               'timeline_process.ports()')
    ok = any(A.call_name(c) == 'TimelineProcess' for c in A.calls_in(f.node))
    ck.require(ok, 'R19.4', f, f.node.name,
               'a TimelineProcess is created from the given timeline', None)


def r19_5(ck):
    ck.rule('R19.5', 'due test and single consumption: an event fires '
            'under clock >= event time and is removed from the list '
            'exactly once on that path')
    tp = ck.repo.cls('TimelineProcess')
    f = tp.methods['next_update']
    ck.functions.add(f.fq)
    cfg = cfg_of(f.node)
    # the statements that turn an event into an update
    uses = [c for c in A.calls_in(f.node, ('nested_set',
                                           'deep_merge_combine_lists'))]
    ck.require(bool(uses), 'R19.5', f, f.node.name,
               'due events are turned into set-updates',
               'next_update no longer builds updates from events')
    timev = None
    for d in [x for lst in local_defs(f.node).values() for x in lst]:
        if d.value is not None and "['time']" in A.unparse(d.value):
            timev = d.name
    fired = 0
    for u in uses[:1]:
        node = cfg.node(u)
        ok = False
        strict = False
        for a in cfg.guards(node):
            # the clock: a local read from [...]['time'], or that read
            # itself
            if a[0] in ('<=', '<') and (a[2] == timev or (
                    timev is None and a[2].endswith("['time']"))):
                src = a[1]
                if 'timeline' in src or any(
                        d.kind == 'for' and 'timeline' in A.unparse(d.value)
                        for d in local_defs(f.node).get(src, [])):
                    ok = a[0] == '<='
                    strict = a[0] == '<'
        ck.require(ok, 'R19.5', f, u,
                   'an event fires when clock >= event time',
                   'events fire under %s instead of clock >= event time: '
                   'an event due exactly now is delayed to the next tick'
                   % ('a strict comparison' if strict else
                      'an unrecognised condition'), u)
        fired += 1
    # the head of the timeline is looked at only when there is one: every
    # read of self.timeline[0] is guarded by the list being non-empty
    for sub in ast.walk(f.node):
        if isinstance(sub, ast.Subscript) and A.unparse(
                sub.value) == 'self.timeline' and A.unparse(
                sub.slice) == '0' and isinstance(sub.ctx, ast.Load):
            st = sub
            test = None
            while st is not None and not isinstance(st, ast.stmt):
                if isinstance(getattr(st, '_parent', None), ast.BoolOp):
                    test = st._parent
                st = getattr(st, '_parent', None)
            ok = False
            if test is not None and isinstance(test.op, ast.And):
                idx = next((i for i, v in enumerate(test.values)
                            if A.contains(v, sub)), 0)
                ok = any(A.unparse(v) in ('self.timeline',
                                          'len(self.timeline) > 0')
                         for v in test.values[:idx])
            if not ok and st is not None and cfg.node(st) is not None:
                ok = ('truthy', 'self.timeline') in cfg.guards(cfg.node(st))
            ck.require(ok, 'R19.5', f, sub,
                       'the head event is read only while events are left',
                       'self.timeline[0] is read without checking that the '
                       'timeline still has events: after the last event '
                       'fired the next tick raises IndexError and the '
                       'simulation stops', sub)
    # removal exactly once per fired event
    pops = []
    for c in A.calls_in(f.node, ('pop', 'remove')):
        if A.unparse(A.call_receiver(c)) == 'self.timeline':
            pops.append(c)
    for d in A.walk_no_nested(f.node):
        if isinstance(d, ast.Delete) and 'self.timeline' in A.unparse(d):
            pops.append(d)
    ck.require(bool(pops), 'R19.5', f, f.node.name,
               'a fired event is removed from the timeline',
               'fired events are never removed: they fire again on every '
               'tick')
    if pops and uses:
        loop = None
        p = uses[0]
        while p is not None and p is not f.node:
            if isinstance(p, (ast.While, ast.For)) and any(
                    within(x, p) for x in pops):
                loop = p
            p = p._parent
        if loop is not None:
            hdr = cfg.loops[id(loop)]['header']
            entry = cfg.loops[id(loop)]['body_entry']
            body = cfg.loop_nodes(loop)
            pn = {cfg.node(x) for x in pops if within(x, loop)}
            once = cfg.must_pass(entry, hdr, pn, within=body | {hdr})
            twice = any(cfg.reach_without(a, pn - {a}, {hdr},
                                          within=body | {hdr}) for a in pn)
            ck.require(once and not twice, 'R19.5', f, loop,
                       'each pass that fires an event removes exactly one '
                       'event',
                       'a fired event is %s' % (
                           'removed twice (the next event is lost)'
                           if twice else 'not removed on every path'), loop)
            for x in pops:
                if isinstance(x, ast.Call) and A.call_name(x) == 'pop':
                    ok = x.args and isinstance(
                        x.args[0], ast.Constant) and x.args[0].value == 0
                    ck.require(ok, 'R19.5', f, x,
                               'the event removed is the head (the earliest '
                               'one)', 'pop(%s) does not remove the head '
                               'of the sorted timeline' % (
                                   A.unparse(x.args[0]) if x.args else ''),
                               x)
        else:
            ck.fail('R19.5', f, pops[0],
                    'the removal is not in the loop that fires the events',
                    pops[0])
    # per-event updates are combined deeply into the returned update
    rets0 = [r for r in A.walk_no_nested(f.node) if isinstance(r, ast.Return)]
    if rets0 and isinstance(rets0[0].value, ast.Name):
        un = rets0[0].value.id
        shallow = [c for c in A.calls_in(f.node, 'update')
                   if A.is_name(A.call_receiver(c), un)]
        ck.require(not shallow, 'R19.5', f,
                   shallow[0] if shallow else f.node.name,
                   'the changes of the events of one tick are combined with '
                   'a deep merge',
                   'the update of a later event is combined with a shallow '
                   'dict.update: when two events are due in one tick the '
                   "earlier event's changes under the same port are "
                   'dropped', shallow[0] if shallow else None)
        deep = [c for c in A.calls_in(f.node, ('deep_merge_combine_lists',
                                               'deep_merge'))
                if A.is_name(A.arg_of(c, 0), un)]
        ck.require(bool(deep), 'R19.5', f, f.node.name,
                   'event changes are merged into the returned update',
                   'no deep merge into the returned update')
    # the update always advances the process clock
    rets = [r for r in A.walk_no_nested(f.node) if isinstance(r, ast.Return)]
    ok = bool(rets) and derives(
        f.node, rets[0].value, lambda x: isinstance(x, ast.Dict) and
        "'time'" in A.unparse(x) and A.params_of(f.node)[1] in
        A.names_in(x), at=rets[0])
    ck.require(ok, 'R19.5', f, rets[0] if rets else f.node.name,
               "every tick advances the timeline's clock by the timestep",
               "next_update no longer adds the timestep to global.time")


def r19_6(ck):
    ck.rule('R19.6', 'what an event sets is what arrives: the merge used to '
            'combine the changes of the events of one tick lets a later '
            'value replace an earlier one; ports are told apart by list '
            'membership, never by a substring test; the value of a set '
            "update is used as it is (C08 R08.11)")
    f = ck.fn('deep_merge_combine_lists', 'library.dict_utils')
    cfg = cfg_of(f.node)
    dct, mrg = A.params_of(f.node)[:2]
    over = [s2 for s2 in A.walk_no_nested(f.node)
            if isinstance(s2, ast.Assign) and isinstance(
                s2.targets[0], ast.Subscript) and A.is_name(
                s2.targets[0].value, dct)]
    keep = [c for c in A.calls_in(f.node, 'setdefault')
            if A.is_name(A.call_receiver(c), dct)]
    ok = bool(over) and not keep
    ck.require(ok, 'R19.6', f, keep[0] if keep else f.node.name,
               'a scalar that is already present is overwritten by the '
               'later value',
               'deep_merge_combine_lists keeps the value that is already '
               'there (setdefault): when two events of one tick set the '
               'same variable the earlier value wins and the later event '
               'is lost', keep[0] if keep else None)
    for s2 in over:
        v = s2.value
        ok = mrg in A.names_in(v) or any(
            d.kind == 'for' for d in local_defs(f.node).get(
                A.unparse(v), []))
        ck.require(ok, 'R19.6', f, s2,
                   'the value written comes from the dictionary merged in',
                   None, s2)
    tp = ck.repo.cls('TimelineProcess')
    n = 0
    for m in tp.methods.values():
        for cmp_ in ast.walk(m.node):
            if isinstance(cmp_, ast.Compare) and len(cmp_.ops) == 1 and \
                    isinstance(cmp_.ops[0], (ast.In, ast.NotIn)):
                n += 1
                right = cmp_.comparators[0]
                is_str = isinstance(right, ast.Constant) and isinstance(
                    right.value, str)
                if isinstance(right, ast.Name):
                    ds = [d for d in local_defs(m.node).get(right.id, [])]
                    is_str = bool(ds) and all(
                        isinstance(d.value, ast.Constant) and isinstance(
                            d.value.value, str) for d in ds)
                ck.require(not is_str, 'R19.6', m, cmp_,
                           'membership is tested against a collection',
                           '`%s` tests membership in a STRING (substring '
                           'semantics): every port whose name is a '
                           'substring of it is treated like the clock port '
                           'and silently left out of the schema' %
                           A.unparse(cmp_), cmp_)
    ck.floor('R19.6', n, 1, 'membership tests in TimelineProcess')
    from . import c08
    c08.r08_11(ck, rule='R19.6')
