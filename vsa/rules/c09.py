"""C09 - structural updates change the hierarchy exactly as specified."""

import ast

from .. import astutil as A
from ..callgraph import callgraph
from ..cfg import cfg_of, within
from ..dataflow import derives, derives_must, expand, local_defs, reaching
from ..loader import enclosing_stmt
from .c07 import popped_keys, STRUCTURAL
from .roles import spec_field, loops_over_field

EXPL = (
    'Order, guards and pairing inside the structural handlers of '
    'Store.apply_update: structural keys are popped before the generic '
    'inner-key loop and carried out in the order add, move, generate, '
    'divide, inner keys, delete; add rejects an existing key before any '
    'write and installs the given state after sub-schema and defaults; '
    'user-supplied locations are normalised (convert_path or an explicit '
    'str/tuple discrimination); every _delete_path in a reporter is paired '
    'with a reported deletion and removes exactly the named child; divide '
    'builds each daughter with generate and removes the mother after the '
    'daughters loop; ParallelProcess.end is unreachable from Store.move '
    '(context-sensitive call graph); every Store attached to a parent gets '
    'that parent as outer. One known finding: tuple-path _delete is a '
    'no-op. Not decided: frame conditions over run-time hierarchies.')


def check(ck):
    ck.explanation = EXPL
    ck.technique = ('CFG ordering and dominance between handler blocks, '
                    'guard provenance, call/report pairing by '
                    'must-pass-through, context-sensitive call-graph '
                    'reachability, tree-link consistency')
    r09_1(ck)
    r09_2_8(ck)
    r09_3(ck)
    r09_4(ck)
    r09_5(ck)
    r09_6(ck)
    r09_7(ck)
    r09_9(ck)
    r09_10(ck)
    r09_11(ck)
    r09_12(ck)
    from . import c05, c10
    ck.shared('R09.14', 'what a structural update creates, moves or removes '
              'is handed to the engine as it is: moved and generated steps '
              'keep their flow entry (an empty one included), the views are '
              'rebuilt when any update of a batch was structural, and the '
              'front entries of removed processes are dropped - nothing '
              'that left the hierarchy changes a node afterwards',
              c05.r05_6, c07_r07_2, c10.r10_12)
    from . import helpers as H
    ck.rule('R09.13', 'dict_to_paths, with which inserted and divided subtrees are reported, keeps its recursion skeleton')
    H.dict_to_paths_shape(ck, 'R09.13')


def c07_r07_2(ck):
    from . import c07
    c07.r07_2(ck)


def _stmt(x):
    while not isinstance(x, ast.stmt):
        x = x._parent
    return x


def r09_1(ck):
    ck.rule('R09.1', 'handler order: structural keys popped before the '
            'inner-key loop; operations run in the order _add, _move, '
            '_generate, _divide, inner keys, _delete')
    f = ck.fn('Store.apply_update', 'core.store')
    cfg = cfg_of(f.node)
    upd = A.params_of(f.node)[1]
    popped = popped_keys(f.node, upd)
    inner_loop = None
    for n in A.walk_no_nested(f.node):
        if isinstance(n, ast.For) and A.unparse(n.iter) == upd + '.items()':
            inner_loop = n
    ck.require(inner_loop is not None, 'R09.1', f, f.node.name,
               'remaining keys are applied to the children in a loop over '
               'the update items',
               'no loop over update.items() applies the inner keys')
    if inner_loop is None:
        return
    ln = cfg.node(inner_loop)
    for key, (var, stmt) in sorted(popped.items()):
        if key not in STRUCTURAL:
            continue
        ck.require(cfg.dominates(cfg.node(stmt), ln), 'R09.1', f, stmt,
                   "'%s' is removed from the update before the inner-key "
                   'loop' % key,
                   "'%s' is not popped before the inner keys are applied: "
                   'it would be treated as a child name' % key, stmt)
    order = ['_add', '_move', '_generate', '_divide', None, '_delete']
    nodes = []
    for key in order:
        if key is None:
            nodes.append(('inner keys', ln))
            continue
        if key not in popped:
            continue
        var = popped[key][0]
        # every place where the operation is carried out on this node,
        # under whatever guard
        ops = [c for c in A.calls_in(f.node, STRUCTURAL[key])
               if A.is_name(A.call_receiver(c), 'self')]
        for c in ops:
            nodes.append((key, cfg.node(c)))
    n = 0
    for i in range(len(nodes)):
        for j in range(i + 1, len(nodes)):
            (ka, a), (kb, b) = nodes[i], nodes[j]
            if ka == kb:
                continue
            n += 1
            fwd = cfg.reach_without(a, b, set())
            back = cfg.reach_without(b, a, set())
            ck.require(fwd and not back, 'R09.1', f,
                       '%s before %s' % (ka, kb),
                       'operation order is respected',
                       "'%s' can be carried out after '%s' (required: "
                       'additions and moves first, deletions last)' % (
                           ka, kb), inner_loop)
    ck.floor('R09.1', n, 10, 'ordered pairs of operations')
    # the inner loop applies value to self.inner[key] only for known keys
    calls = [c for c in A.calls_in(inner_loop, 'apply_update')]
    ok = len(calls) == 1
    if ok:
        k = A.unparse(inner_loop.target.elts[0])
        v = A.unparse(inner_loop.target.elts[1])
        g = cfg.guards(cfg.node(calls[0]))
        recv = A.call_receiver(calls[0])
        ok = ('in', k, 'self.inner') in g and A.is_name(
            A.arg_of(calls[0], 0), v) and derives(
            f.node, recv, lambda x: isinstance(x, ast.Subscript) and
            A.unparse(x) == 'self.inner[%s]' % k, at=calls[0])
    ck.require(ok, 'R09.1', f, calls[0] if calls else inner_loop,
               'each remaining key is applied to the child of that name '
               'with its own value', 'inner keys are not routed to '
               'self.inner[key].apply_update(value, ...)', inner_loop)


def r09_2_8(ck):
    ck.rule('R09.2', 'add rejects an existing key before any write')
    ck.rule('R09.8', 'add installs the given state on the created node '
            'after sub-schema and defaults')
    f = ck.fn('Store.add', 'core.store')
    cfg = cfg_of(f.node)
    added = A.params_of(f.node)[1]
    raises_ = [n for n in A.walk_no_nested(f.node) if isinstance(n, ast.Raise)]
    ok = False
    guard_test = None
    for r in raises_:
        for cond, pol in cfg.guard_edges(cfg.node(r)):
            for a in A.cond_atoms(cond, pol):
                if a[0] != 'in':
                    continue
                try:
                    k = ast.parse(a[1], mode='eval').body
                    cont = ast.parse(a[2], mode='eval').body
                except SyntaxError:
                    continue
                k_ok = derives(f.node, k, lambda x: isinstance(
                    x, ast.Subscript) and A.is_name(x.value, added) and
                    A.subscript_key(x) == 'key', at=r)
                c_ok = derives_must(f.node, cont, lambda x: A.unparse(x) ==
                                    'self.inner', at=r)
                if k_ok and c_ok:
                    ok = True
                    guard_test = _stmt(cond)
    ck.require(ok, 'R09.2', f, raises_[0] if raises_ else f.node.name,
               "adding a key that is already a child raises",
               'Store.add no longer rejects a key that already exists: the '
               'existing child would be silently reused/overwritten')
    writes = [c for c in A.calls_in(f.node, ('_establish_path', 'set_value',
                                             'apply_defaults',
                                             '_apply_subschema_path'))]
    if guard_test is not None:
        tn = cfg.node(guard_test)
        ok = all(cfg.dominates(tn, cfg.node(w)) for w in writes)
        ck.require(ok, 'R09.2', f, guard_test,
                   'the existence test precedes every write', None,
                   guard_test)
    sets = [c for c in A.calls_in(f.node, 'set_value')]
    ok = False
    for c in sets:
        a0 = A.arg_of(c, 0, 'value')
        from_state = derives(f.node, a0, lambda x: isinstance(
            x, ast.Subscript) and A.is_name(x.value, added) and
            A.subscript_key(x) == 'state', at=c)
        recv = A.call_receiver(c)
        on_target = derives(f.node, recv, lambda x: isinstance(
            x, ast.Call) and A.call_name(x) == '_establish_path', at=c)
        reach = cfg.postdominates(cfg.node(c), cfg.node(writes[0])) \
            if writes else False
        after = all(cfg.dominates(cfg.node(w), cfg.node(c))
                    for w in A.calls_in(f.node, ('_apply_subschema_path',
                                                 'apply_defaults')))
        if from_state and on_target and reach and after:
            ok = True
    ck.require(ok, 'R09.8', f, sets[0] if sets else f.node.name,
               "the created node receives set_value(added['state']) after "
               'sub-schema and defaults were applied',
               "Store.add does not install the given state on the new node")
    est = [c for c in A.calls_in(f.node, '_establish_path')]
    ok = bool(est) and derives(f.node, A.arg_of(est[0], 0), lambda x:
                               isinstance(x, ast.Subscript) and A.is_name(
                                   x.value, added) and
                               A.subscript_key(x) == 'key', at=est[0])
    ck.require(ok, 'R09.8', f, est[0] if est else f.node.name,
               'the child is created under the given key', None)


def r09_3(ck):
    ck.rule('R09.3', 'location operands are normalised: delete keys and '
            'move sources/targets reach their use as a path through '
            'convert_path or an explicit str/tuple discrimination')
    f = ck.fn('Store.delete', 'core.store')
    key = A.params_of(f.node)[1]
    cfg = cfg_of(f.node)
    for c in A.calls_in(f.node, '_delete_path'):
        a0 = A.arg_of(c, 0, 'path')
        norm = derives(f.node, a0, lambda x: isinstance(x, ast.Call) and
                       A.call_name(x) == 'convert_path', at=c)
        disc = False
        if isinstance(a0, ast.Name):
            ds = reaching(f.node).at(c, a0.id)
            if len(ds) > 1:
                disc = any(any(a[0] in ('isinstance', 'notisinstance')
                               and a[1] == key for a in cfg.guards(
                                   cfg.node(d.stmt))) for d in ds)
            blame = sorted(ds, key=lambda d: d.stmt.lineno)[0].stmt \
                if ds else c
        else:
            blame = c
        # (the construct is named by its role; the statement is in the
        # message position)
        ck.require(norm or disc, 'R09.3', f,
                   'path handed to _delete_path, built from the key',
                   'the delete key is normalised to a path (a tuple names a '
                   'path, a string a child)',
                   "Store.delete wraps its key unconditionally: the "
                   "documented tuple form ('a',) names a child that cannot "
                   'exist, so nothing is deleted', blame)
    m = ck.fn('Store.move', 'core.store')
    cfgm = cfg_of(m.node)
    mv = A.params_of(m.node)[1]
    for field, var in (('source', None), ('target', None)):
        defs = [d for lst in local_defs(m.node).values() for d in lst
                if d.value is not None and isinstance(
                    d.value, ast.Subscript) and A.is_name(
                    d.value.value, mv) and A.subscript_key(d.value) == field]
        ok = False
        # the operand under its local name(s), or read in place
        raw = "%s['%s']" % (mv, field)
        for nm in [d.name for d in defs] + [raw]:
            tests = [n for n in A.walk_no_nested(m.node)
                     if isinstance(n, ast.If) and any(
                         a[0] == 'isinstance' and a[1] == nm
                         for a in A.cond_atoms(n.test, True))]
            conv = [c for c in A.calls_in(m.node, 'convert_path')
                    if nm in A.names_in(c) or raw in A.unparse(c)]
            ok = ok or bool(tests) or bool(conv)
        ck.require(ok, 'R09.3', m, "move['%s']" % field,
                   'the %s location accepts a key or a path' % field,
                   "move['%s'] is used without str/tuple normalisation"
                   % field)


def r09_4(ck):
    ck.rule('R09.4', 'deletion pairing: every _delete_path(p) in a reporter '
            'is paired with deletions.append(here + p); _delete_path '
            'removes exactly target.inner[path[-1]]')
    n = 0
    for q in ('Store.delete', 'Store.move', 'Store.divide'):
        f = ck.fn(q, 'core.store')
        cfg = cfg_of(f.node)
        rets = {cfg.node(r) for r in A.walk_no_nested(f.node)
                if isinstance(r, ast.Return)}
        lists = set()
        for c in A.calls_in(f.node, '_delete_path'):
            if not A.is_name(A.call_receiver(c), 'self'):
                continue
            n += 1
            p = A.unparse(A.arg_of(c, 0, 'path'))
            apps = []
            cands = []
            # the reported list is whatever the function returns: a local
            # list grown with append/extend/+=, or a list literal
            lists = set()
            listnames = {nm for nm, ds in local_defs(f.node).items()
                         if any(d.kind == 'assign' and isinstance(
                             d.value, ast.List) for d in ds)}
            for r in A.walk_no_nested(f.node):
                if not isinstance(r, ast.Return) or r.value is None:
                    continue
                lists |= A.names_in(r.value) & listnames
                tops = [r.value]
                if isinstance(r.value, ast.Tuple):
                    tops = list(r.value.elts)
                elif isinstance(r.value, ast.Dict):
                    tops = list(r.value.values)
                for t in tops:
                    if isinstance(t, ast.List):
                        for e2 in t.elts:
                            cands.append((r, e2))
            for a in A.calls_in(f.node):
                if A.call_name(a) in ('append', 'extend') and a.args and \
                        A.unparse(A.call_receiver(a)) in lists:
                    arg = a.args[0]
                    if A.call_name(a) == 'extend' and isinstance(
                            arg, (ast.List, ast.Tuple)):
                        for e2 in arg.elts:
                            cands.append((a, e2))
                    else:
                        cands.append((a, arg))
            for s2 in A.walk_no_nested(f.node):
                if isinstance(s2, ast.Assign) and isinstance(
                        s2.targets[0], ast.Name) and \
                        s2.targets[0].id in lists and isinstance(
                        s2.value, ast.List) and s2.value.elts:
                    for e2 in s2.value.elts:
                        cands.append((s2, e2))
                if isinstance(s2, ast.AugAssign) and isinstance(
                        s2.target, ast.Name) and s2.target.id in lists \
                        and isinstance(s2.value, (ast.List, ast.Tuple)):
                    for e2 in s2.value.elts:
                        cands.append((s2, e2))
            for a, arg in cands:
                at = enclosing_stmt(a)
                has_p = derives(f.node, arg, lambda x: A.unparse(x) == p,
                                at=at)
                has_here = derives(
                    f.node, arg, lambda x: (isinstance(x, ast.Call) and
                                            A.call_name(x) == 'path_for')
                    or (q == 'Store.delete' and A.is_name(
                        x, A.params_of(f.node)[2])), at=at)
                if has_p and has_here:
                    apps.append(cfg.node(a))
            ok = bool(apps) and cfg.must_pass(
                cfg.node(c), rets - set(apps), set(apps))
            ck.require(ok, 'R09.4', f, c,
                       'the deleted path is reported as an absolute path',
                       'a subtree is removed with _delete_path(%s) but the '
                       'deletion is not reported to the engine: its '
                       'processes would keep running' % p, c)
        # every exit returns the list (or a list literal)
        for r in A.walk_no_nested(f.node):
            if isinstance(r, ast.Return):
                ck.require(r.value is not None and (
                    any(isinstance(x, ast.List) for x in ast.walk(r.value))
                    or (A.names_in(r.value) & lists)), 'R09.4', f, r,
                    'the deletions are returned', None, r)
    ck.floor('R09.4', n, 3, 'reporter _delete_path sites')
    dp = ck.fn('Store._delete_path', 'core.store')
    path = A.params_of(dp.node)[1]
    dels = [d for d in A.walk_no_nested(dp.node) if isinstance(d, ast.Delete)]
    ok = False
    for d in dels:
        t = d.targets[0]
        if isinstance(t, ast.Subscript) and isinstance(
                t.value, ast.Attribute) and t.value.attr == 'inner':
            key_ok = derives(dp.node, t.slice, lambda x: A.unparse(x) ==
                             path + '[-1]', at=d)
            tgt_ok = derives(dp.node, t.value.value, lambda x: isinstance(
                x, ast.Call) and A.call_name(x) == 'get_path' and A.unparse(
                    A.arg_of(x, 0)) == path + '[:-1]', at=d)
            ok = key_ok and tgt_ok
            ck.require(ok, 'R09.4', dp, d,
                       '_delete_path removes inner[path[-1]] of the node at '
                       'path[:-1]',
                       '_delete_path deletes something other than the named '
                       'child', d)
    ck.require(bool(dels), 'R09.4', dp, dp.node.name,
               '_delete_path deletes a child', None)


def r09_5(ck):
    ck.rule('R09.5', 'divide: each daughter is built by self.generate at '
            'its own key inside the daughters loop; the mother is removed '
            'after the loop on every path')
    f = ck.fn('Store.divide', 'core.store')
    cfg = cfg_of(f.node)
    gens = [c for c in A.calls_in(f.node, 'generate')
            if A.is_name(A.call_receiver(c), 'self')]
    ck.require(len(gens) == 1, 'R09.5', f, f.node.name,
               'daughters are built with self.generate',
               'Store.divide no longer builds daughters with generate')
    if not gens:
        return
    g = gens[0]
    loop = None
    p = g
    while p is not None and p is not f.node:
        if isinstance(p, ast.For):
            loop = p
            break
        p = p._parent
    ck.require(loop is not None and spec_field(f.node, loop.iter, 'daughters', loop),
               'R09.5', f, g, 'generate runs once per listed daughter',
               'daughter generation is not inside the loop over the listed '
               'daughters', g)
    if loop is None:
        return
    ok = cfg.must_pass(cfg.loops[id(loop)]['body_entry'],
                       cfg.loops[id(loop)]['header'], {cfg.node(g)})
    ck.require(ok, 'R09.5', f, g, 'every daughter is generated', None, g)
    a0 = A.arg_of(g, 0, 'path')
    ok = derives(f.node, a0, lambda x: isinstance(x, ast.Subscript) and
                 A.subscript_key(x) == 'key', at=g)
    ck.require(ok, 'R09.5', f, g,
               "each daughter is generated under its own 'key'", None, g)
    dps = [c for c in A.calls_in(f.node, '_delete_path')
           if A.is_name(A.call_receiver(c), 'self')]
    done = [x for x in cfg.g.successors(cfg.loops[id(loop)]['header'])
            if cfg.info[x].get('pol') == 'done']
    ok = len(dps) == 1 and cfg.dominates(done[0], cfg.node(dps[0])) and \
        cfg.postdominates(cfg.node(dps[0]), cfg.entry)
    ck.require(ok, 'R09.5', f, dps[0] if dps else f.node.name,
               'the mother is removed after the daughters were built, on '
               'every path',
               'Store.divide does not remove the mother after building the '
               'daughters')
    if dps:
        a0 = A.arg_of(dps[0], 0, 'path')
        ok = derives(f.node, a0, lambda x: isinstance(x, ast.Subscript) and
                     A.subscript_key(x) == 'mother', at=dps[0])
        ck.require(ok, 'R09.5', f, dps[0],
                   "the node removed is the named 'mother'", None, dps[0])


def r09_6(ck):
    ck.rule('R09.6', 'move does not end workers: ParallelProcess.end is not '
            'reachable from Store.move (call graph with constant '
            'propagation of boolean arguments)')
    cg = callgraph(ck.repo)
    mv = ck.fn('Store.move', 'core.store')
    end = ck.fn('ParallelProcess.end', 'core.process')
    # frozen exception: Store.apply_update is not expanded.  An update that
    # is applied on the way (the optional move['update'], or the merge of
    # values into an existing target in add_node) may itself delete
    # children; those are deletions by request, not part of the move.
    seen = cg.reachable_ctx(
        [mv], stop=lambda f: f.qual == 'Store.apply_update')
    hits = [k for k in seen if k[0] == end.fq]
    for f, _, _ in seen.values():
        ck.functions.add(f.fq)
    if hits:
        chain = ' -> '.join(cg.path_to_ctx(seen, hits[0]))
        ck.fail('R09.6', mv, 'reaches ParallelProcess.end',
                'moving a subtree shuts down its parallel processes '
                'although they stay in the hierarchy: ' + chain, mv.node,
                what='ParallelProcess.end unreachable from Store.move')
    else:
        ck.ok('R09.6', mv, 'reaches ParallelProcess.end',
              'ParallelProcess.end unreachable from Store.move (%d '
              'context-qualified functions explored)' % len(seen))
    # positive control: deletion must reach it
    dl = ck.fn('Store.delete', 'core.store')
    seen2 = cg.reachable_ctx([dl])
    ok = any(k[0] == end.fq for k in seen2)
    ck.require(ok, 'R09.6', dl, 'reaches ParallelProcess.end',
               'positive control: ParallelProcess.end IS reachable from '
               'Store.delete (the resolver sees the path)',
               'the call graph no longer finds delete -> ... -> '
               'ParallelProcess.end: the negative result for move would be '
               'vacuous')
    # move re-attaches the same node object
    cfg = cfg_of(mv.node)
    an = [c for c in A.calls_in(mv.node, 'add_node')]
    ok = len(an) == 1
    if ok:
        c = an[0]
        src = A.arg_of(c, 1, 'node')
        ok = derives(mv.node, src, lambda x: isinstance(x, ast.Call) and
                     A.call_name(x) == 'get_path', at=c)
    ck.require(ok, 'R09.6', mv, an[0] if an else mv.node.name,
               'the subtree attached at the target is the source node '
               'itself (values, processes and wiring intact)',
               'Store.move does not re-attach the source node object')
    dps = [c for c in A.calls_in(mv.node, '_delete_path')]
    ok = bool(dps) and bool(an) and cfg.dominates(cfg.node(an[0]),
                                                  cfg.node(dps[0]))
    ck.require(ok, 'R09.6', mv, dps[0] if dps else mv.node.name,
               'the source is detached after it was attached at the target',
               None)
    if dps and an:
        ok = cfg.must_pass(cfg.node(an[0]), cfg.exit,
                           {cfg.node(c) for c in dps})
        ck.require(ok, 'R09.6', mv, dps[0],
                   'the source is detached by the move itself, on every '
                   'path, before the next operation of the update runs',
                   'Store.move can return with the moved subtree still '
                   'attached at its source (detaching is conditional / left '
                   'to the caller): a later operation of the same update '
                   'that addresses the freed key (a _generate of that key) '
                   'then works on the moved node', dps[0])


def r09_7(ck):
    ck.rule('R09.7', 'attach keeps the tree linked: every Store stored into '
            "some node's inner gets that node as outer")
    n = 0
    for fi in ck.repo.functions:
        if fi.is_test or fi.cls != 'Store':
            continue
        for s in A.walk_no_nested(fi.node):
            owner, val = None, None
            if isinstance(s, ast.Assign) and isinstance(
                    s.targets[0], ast.Subscript) and isinstance(
                    s.targets[0].value, ast.Attribute) and \
                    s.targets[0].value.attr == 'inner':
                owner, val = s.targets[0].value.value, s.value
            elif isinstance(s, ast.Expr) and isinstance(
                    s.value, ast.Call) and A.call_name(s.value) == \
                    'update' and isinstance(
                        A.call_receiver(s.value), ast.Attribute) and \
                    A.call_receiver(s.value).attr == 'inner' and \
                    s.value.args and isinstance(s.value.args[0], ast.Dict):
                owner = A.call_receiver(s.value).value
                val = s.value.args[0].values[0]
            if owner is None:
                continue
            n += 1
            ot = A.unparse(owner)
            ctor = val
            if isinstance(val, ast.Name):
                ds = reaching(fi.node).at(s, val.id)
                if len(ds) == 1 and next(iter(ds)).value is not None:
                    ctor = next(iter(ds)).value
            ok = False
            if isinstance(ctor, ast.Call) and A.is_name(ctor.func, 'Store'):
                o = A.arg_of(ctor, 1, 'outer')
                ok = o is not None and A.unparse(o) == ot
            else:
                # re-parenting: <val>.outer = <owner> in the same block
                vt = A.unparse(val)
                for s2 in A.walk_no_nested(fi.node):
                    if isinstance(s2, ast.Assign) and A.unparse(
                            s2.targets[0]) == vt + '.outer' and A.unparse(
                            s2.value) == ot and s2._parent is s._parent:
                        ok = True
            ck.require(ok, 'R09.7', fi, s,
                       'the attached Store has the owner of the inner '
                       'dictionary as outer',
                       'a Store is put into %s.inner without %s becoming '
                       'its outer: path_for()/top() of the subtree break'
                       % (ot, ot), s)
    ck.floor('R09.7', n, 7, 'attach sites')


def r09_9(ck):
    ck.rule('R09.9', 'every listed operation is carried out: the loops over '
            'the entries of _add, _move, _generate and _delete have no '
            'break/return and reach the operation in every iteration (an '
            'absent key may be skipped with continue)')
    f = ck.fn('Store.apply_update', 'core.store')
    cfg = cfg_of(f.node)
    upd = A.params_of(f.node)[1]
    popped = popped_keys(f.node, upd)
    n = 0
    for key, meth in sorted(STRUCTURAL.items()):
        if key == '_divide' or key not in popped:
            continue
        var = popped[key][0]
        loops = [l for l in A.walk_no_nested(f.node)
                 if isinstance(l, ast.For) and A.is_name(l.iter, var)]
        ck.require(len(loops) == 1, 'R09.9', f, "loop over '%s' entries"
                   % key, "the entries of '%s' are visited in one loop "
                   'over the list itself' % key,
                   "the '%s' list is not iterated as given (%d loops over "
                   'it)' % (key, len(loops)))
        for lp in loops:
            n += 1
            body = cfg.loop_nodes(lp)
            hdr = cfg.loops[id(lp)]['header']
            entry = cfg.loops[id(lp)]['body_entry']
            ops = {cfg.node(c) for c in A.calls_in(lp, meth)
                   if A.is_name(A.call_receiver(c), 'self')}
            brk = cfg.loops[id(lp)]['breaks']
            rets = [x for x in body
                    if isinstance(cfg.info[x]['stmt'], ast.Return)]
            ck.require(not brk and not rets, 'R09.9', f, lp,
                       "no break/return in the loop over '%s' entries" % key,
                       "a break/return in the loop over the '%s' entries "
                       'drops the remaining operations of the update' % key,
                       lp)
            # continue is allowed only for keys that are not children
            skips = set()
            for x in body:
                st = cfg.info[x]['stmt']
                if isinstance(st, ast.Continue):
                    g = cfg.guards(x) - cfg.guards(entry)
                    if g and all(a[0] == 'notin' and a[2] == 'self.inner'
                                 for a in g) and key == '_delete':
                        skips.add(x)
            ok = bool(ops) and cfg.must_pass(entry, hdr, ops | skips,
                                             within=body | {hdr})
            ck.require(ok, 'R09.9', f, lp,
                       'every entry reaches self.%s(...)' % meth,
                       "an entry of '%s' can be skipped without being "
                       'carried out' % key, lp)
            # what the operation reports is folded in the same iteration:
            # otherwise only the last entry of the list is reported
            for c in A.calls_in(lp, meth):
                if not A.is_name(A.call_receiver(c), 'self'):
                    continue
                st = enclosing_stmt(c)
                if not isinstance(st, ast.Assign):
                    continue
                names = [t.id for t in ast.walk(st.targets[0])
                         if isinstance(t, ast.Name)]
                for nm in names:
                    folds = {cfg.node(x) for x in A.calls_in(
                        f.node, ('extend', 'append'))
                        if x.args and nm in A.names_in(x.args[0])
                        and within(x, lp)}
                    folds |= {cfg.node(x) for x in A.walk_no_nested(lp)
                              if isinstance(x, ast.AugAssign)
                              and nm in A.names_in(x.value)}
                    folds.discard(None)
                    okf = bool(folds) and cfg.must_pass(
                        cfg.node(st), hdr, folds, within=body | {hdr})
                    ck.require(okf, 'R09.9', f, st,
                               'what self.%s reports (%s) is folded into '
                               'the result in the same iteration' % (
                                   meth, nm),
                               "the %s reported by self.%s for an entry of "
                               "'%s' are folded outside the loop over the "
                               'entries: only the last entry is reported '
                               'to the engine, the processes of the others '
                               'are never registered' % (nm, meth, key), st)
    ck.floor('R09.9', n, 4, 'loops over structural entries')


def r09_10(ck):
    ck.rule('R09.10', "divide uses exactly what a daughter lists: the "
            "mother's processes / topology are inherited only when the "
            "daughter specification has no 'processes' / 'topology' key")
    f = ck.fn('Store.divide', 'core.store')
    cfg = cfg_of(f.node)
    n = 0
    for getter, key, also in (('get_processes', "'processes'", "'steps'"),
                              ('get_topology', "'topology'", None)):
        for c in A.calls_in(f.node, getter):
            n += 1
            g = cfg.guards(cfg.node(c))
            ok = any(a[0] == 'notin' and a[1] == key for a in g)
            ck.require(ok, 'R09.10', f, c,
                       "the mother's %s are inherited only when the "
                       'daughter lists none' % getter[4:],
                       "a daughter that lists %s can still receive copies "
                       "of the mother's: the division does not produce "
                       'exactly the listed daughters' % key, c)
        # the explicit branch reads the daughter's own entry
        used = [s for s in A.walk_no_nested(f.node)
                if isinstance(s, ast.Assign) and isinstance(
                    s.value, ast.Subscript) and A.unparse(
                    s.value.slice) == key]
        ck.require(bool(used), 'R09.10', f, key,
                   "the daughter's own %s entry is used when present" % key,
                   "the %s entry of a daughter specification is never "
                   'read' % key)
    ck.floor('R09.10', n, 2, 'inheritance sites')


def r09_11(ck):
    ck.rule('R09.11', 'a moved subtree is reported to the engine at the '
            'location where it was attached (symbolic path algebra; shared '
            'with C10 R10.8)')
    from . import c10
    c10.r10_8(ck)
    for o in ck.obligations:
        if o['rule'] == 'R10.8':
            o['rule'] = 'R09.11'
    for v in ck.violations:
        if v.rule == 'R10.8':
            v.rule = 'R09.11'
    ck.rules.pop('R10.8', None)


def r09_12(ck):
    ck.rule('R09.12', 'every operation of a combined update reaches the '
            'engine: the lists reported by the handlers are folded by kind '
            '(none is rebound or dropped) and every registry forgets a '
            'deleted or moved-away subtree (shared with C10 R10.7 / R10.4)')
    from . import c10
    c10.r10_7(ck)
    c10.r10_4(ck)
    OLD, NEW = ('R10.7', 'R10.4'), 'R09.12'

    for o in ck.obligations:
        if o['rule'] in OLD:
            o['rule'] = NEW
    for v in ck.violations:
        if v.rule in OLD:
            v.rule = NEW
    for r in OLD:
        ck.rules.pop(r, None)
