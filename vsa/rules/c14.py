"""C14 - serialization round-trips and yields plain JSON (structural part
only)."""

import ast
import re

from .. import astutil as A
from ..cfg import cfg_of, within
from ..dataflow import derives, local_defs, reaching

try:
    import re._parser as sre_parse
except ImportError:     # pragma: no cover
    import sre_parse

EXPL = (
    'Only the structural part of C14 is decided: writer/reader marker '
    'agreement (the constant prefix and suffix of the f-strings returned by '
    'QuantitySerializer/UnitsSerializer.serialize equal the literal prefix '
    'and suffix of regex_for_serialized, whose only group is an '
    'unrestricted `.*`, matched with fullmatch and read back with '
    'group(1)); dispatch totality of the fallback (every normal path '
    'returns serializer.serialize(obj), every other path raises '
    'TypeError, serialize_value re-raises TypeError); registration '
    'exhaustiveness (every Serializer subclass of serialize.py is in the '
    'registration loop) and disjoint can_deserialize claims; the list and '
    'dict deserializers apply deserialize_value to every element and '
    'rebuild the same container shape. The round-trip equality over all '
    "values, idempotence and pint's parsing of magnitudes and compound "
    'units are runtime quantities and are NOT decided.')


def check(ck):
    ck.explanation = EXPL
    ck.technique = ('f-string / regex-AST marker agreement, CFG exit '
                    'classification, registration-table agreement')
    r14_1(ck)
    r14_2(ck)
    r14_3(ck)
    r14_4(ck)
    r14_5(ck)
    r14_6(ck)
    r14_7(ck)


def r14_7(ck):
    ck.rule('R14.7', 'serializers keep no memo of results: serialize / '
            'deserialize / can_deserialize do not store a value they also '
            'return into an attribute of the serializer or a container it '
            'holds - every call builds its own value, so a value that a '
            'caller changes in place cannot come back from a later '
            'deserialization')
    mod = ck.repo.module('core.serialize')
    n = 0
    MUT = {'append', 'extend', 'insert', 'update', 'setdefault', 'pop',
           'add', 'clear', 'remove', 'discard', 'popitem'}
    for c in mod.classes.values():
        if c.is_test or 'Serializer' not in [
                b.name for b in ck.repo.mro(c.name)]:
            continue
        for mname in sorted(c.methods):
            # every method but the constructor (helpers of serialize /
            # deserialize included)
            if mname == '__init__':
                continue
            m = c.methods.get(mname)
            if m is None:
                continue
            ck.functions.add(m.fq)
            n += 1
            bad = []
            returned = set()
            for x in A.walk_no_nested(m.node):
                if isinstance(x, ast.Return) and x.value is not None:
                    returned |= A.names_in(x.value)
            for x in A.walk_no_nested(m.node):
                if isinstance(x, (ast.Assign, ast.AugAssign, ast.AnnAssign)):
                    # only results that are also handed out matter (a memo
                    # of compiled patterns or of flags is harmless)
                    if x.value is None or not (
                            A.names_in(x.value) & returned):
                        continue
                    for t in A.assigned_targets(x):
                        root = t
                        while isinstance(root, (ast.Subscript,
                                                ast.Attribute)):
                            if isinstance(root, ast.Attribute) and \
                                    A.is_name(root.value, 'self'):
                                bad.append(x)
                                break
                            root = root.value
                elif isinstance(x, ast.Call) and A.call_name(x) in MUT:
                    r = A.call_receiver(x)
                    if isinstance(r, ast.Attribute) and A.is_name(
                            r.value, 'self') and any(
                            A.names_in(a) & returned for a in x.args):
                        bad.append(x)
            ck.require(not bad, 'R14.7', m, bad[0] if bad else m.node.name,
                       '%s.%s keeps no state between calls' % (c.name, mname),
                       '%s.%s writes into the serializer (%s): results are '
                       'remembered across calls, so a mutable value handed '
                       'out once is handed out again - after the caller '
                       'changed it in place, later round trips return the '
                       'changed value' % (c.name, mname, A.short(
                           bad[0], 50) if bad else ''),
                       bad[0] if bad else None)
    ck.floor('R14.7', n, 8, 'serializer methods')


def fstring_affixes(node):
    """(prefix, suffix, number of formatted values) of an f-string."""
    if not isinstance(node, ast.JoinedStr):
        return None
    vals = node.values
    pre = ''
    i = 0
    while i < len(vals) and isinstance(vals[i], ast.Constant):
        pre += vals[i].value
        i += 1
    suf = ''
    j = len(vals) - 1
    while j >= i and isinstance(vals[j], ast.Constant):
        suf = vals[j].value + suf
        j -= 1
    return pre, suf, sum(1 for v in vals
                         if isinstance(v, ast.FormattedValue))


def regex_shape(pattern):
    """(literal prefix, literal suffix, groups) of a pattern; a group is
    described as 'any*' when it is an unrestricted greedy `.*`."""
    parsed = sre_parse.parse(pattern)
    items = list(parsed)
    pre = ''
    i = 0
    while i < len(items) and str(items[i][0]) == 'LITERAL':
        pre += chr(items[i][1])
        i += 1
    suf = ''
    j = len(items) - 1
    while j >= i and str(items[j][0]) == 'LITERAL':
        suf = chr(items[j][1]) + suf
        j -= 1
    groups = []
    for k in range(i, j + 1):
        op, av = items[k]
        if str(op) == 'SUBPATTERN':
            sub = list(av[3])
            desc = 'other'
            if len(sub) == 1 and str(sub[0][0]) == 'MAX_REPEAT':
                lo, hi, what = sub[0][1]
                w = list(what)
                if lo == 0 and str(hi) == 'MAXREPEAT' and len(w) == 1 and \
                        str(w[0][0]) == 'ANY':
                    desc = 'any*'
            groups.append(desc)
        else:
            groups.append('non-group:' + str(op))
    return pre, suf, groups


def r14_1(ck):
    ck.rule('R14.1', 'marker agreement: the f-string written by the units '
            'and quantity serializers and the regex that recognises it '
            'agree on prefix and suffix; the group is an unrestricted .*; '
            'recognition uses fullmatch and extraction group(1)')
    us = ck.repo.cls('UnitsSerializer')
    init = us.methods.get('__init__')
    pat = None
    if init is not None:
        for c in A.calls_in(init.node, 'compile'):
            if c.args and isinstance(c.args[0], ast.Constant):
                pat = c.args[0].value
                patnode = c
    ck.require(pat is not None, 'R14.1', init or us.methods['serialize'],
               'regex_for_serialized',
               'the recognising regex is a constant pattern',
               'regex_for_serialized is no longer compiled from a constant')
    if pat is None:
        return
    try:
        pre, suf, groups = regex_shape(pat)
    except re.error as e:
        ck.fail('R14.1', init, patnode, 'the regex does not parse: %s' % e)
        return
    ck.require(groups == ['any*'], 'R14.1', init, patnode,
               'the payload group is a single unrestricted `.*`',
               'the regex restricts what may appear between the markers '
               '(%s): some serialised quantities (negative, nan, '
               'scientific notation, compound units) would not be '
               'recognised' % groups, patnode)
    n = 0
    for cls in ('UnitsSerializer', 'QuantitySerializer'):
        ci = ck.repo.cls(cls)
        f = ci.methods.get('serialize')
        ck.functions.add(f.fq)
        for r in ast.walk(f.node):
            # every f-string of serialize() produces serialised text
            # (returned, appended or collected by a comprehension)
            js = r if isinstance(r, ast.JoinedStr) else None
            if js is None:
                continue
            n += 1
            fp, fs, nv = fstring_affixes(js)
            ck.require(fp == pre and fs == suf and nv == 1, 'R14.1', f, js,
                       'written marker %r...%r equals the recognised one'
                       % (pre, suf),
                       '%s.serialize writes %r...%r but the regex '
                       'recognises %r...%r: serialised quantities would '
                       'not be deserialised' % (cls, fp, fs, pre, suf), js)
    ck.floor('R14.1', n, 4, 'serialising f-strings')
    cd = us.methods['can_deserialize']
    ok = any(A.call_name(c) == 'fullmatch' and 'regex_for_serialized' in
             A.unparse(c.func) for c in A.calls_in(cd.node))
    ck.require(ok, 'R14.1', cd, cd.node.name,
               'a string is claimed only when the whole string matches',
               'can_deserialize no longer uses fullmatch on the marker '
               'regex')
    cfgc = cfg_of(cd.node)
    ok = any(isinstance(r, ast.Return) and isinstance(
        r.value, ast.Constant) and r.value.value is False and any(
        a[0] == 'notisinstance' and a[2] == 'str'
        for a in cfgc.guards(cfgc.node(r)))
        for r in A.walk_no_nested(cd.node))
    ck.require(ok, 'R14.1', cd, cd.node.name,
               'only strings are claimed', None)
    de = us.methods['deserialize']
    grp = [c for c in A.calls_in(de.node, 'group')
           if c.args and isinstance(c.args[0], ast.Constant)]
    ok = bool(grp) and grp[0].args[0].value == 1 and any(
        A.call_name(c) == 'fullmatch' for c in A.calls_in(de.node))
    ck.require(ok, 'R14.1', de, grp[0] if grp else de.node.name,
               'the payload is extracted with group(1) of the same regex',
               'deserialize no longer extracts group(1) of the marker '
               'regex')
    # the extracted payload is what gets parsed
    uc = [c for c in A.calls_in(de.node, 'units')
          if isinstance(c.func, ast.Name)]
    ok = bool(uc)
    ck.require(ok, 'R14.1', de, de.node.name,
               'the payload is parsed by the unit registry', None)


def r14_2(ck):
    ck.rule('R14.2', 'dispatch totality: the fallback returns '
            'serializer.serialize(obj) or raises TypeError on every path; '
            'serialize_value does not swallow it')
    mk = ck.fn('make_fallback_serializer_function', 'core.serialize')
    inner = [f for f in ck.repo.functions if f.nested_in is mk]
    ck.require(len(inner) == 1, 'R14.2', mk, mk.node.name,
               'the fallback is one nested function', None)
    if not inner:
        return
    f = inner[0]
    cfg = cfg_of(f.node)
    obj = A.params_of(f.node)[0]
    rets = [r for r in A.walk_no_nested(f.node) if isinstance(r, ast.Return)]
    for r in rets:
        v = r.value
        ok = isinstance(v, ast.Call) and A.call_name(v) == 'serialize' and \
            A.is_name(A.arg_of(v, 0), obj)
        ck.require(ok, 'R14.2', f, r,
                   'the only value returned is serializer.serialize(obj)',
                   'the fallback returns %s for an object it has no '
                   'serializer for, instead of raising TypeError'
                   % A.unparse(v), r)
    ck.require(bool(rets), 'R14.2', f, f.node.name, 'has a return', None)
    raises_ = [r for r in A.walk_no_nested(f.node) if isinstance(r, ast.Raise)]
    for r in raises_:
        ok = isinstance(r.exc, ast.Call) and A.call_name(r.exc) == \
            'TypeError'
        ck.require(ok, 'R14.2', f, r, 'failures are TypeErrors',
                   'the fallback raises %s' % A.unparse(r.exc), r)
    # the candidates are collected in a local list; "none found" is the
    # raise under `not <that list>`
    lists = {nm for nm, ds in local_defs(f.node).items()
             if any(d.kind == 'mutate' or isinstance(d.value, ast.List)
                    for d in ds)}
    none_found = [r for r in raises_
                  if any((a[0] == 'falsy' and a[1] in lists) or (
                      a[0] == '==' and set(a[1:]) & {
                          'len(%s)' % x for x in lists} and '0' in a[1:])
                         for a in cfg.guards(cfg.node(r)))]
    ck.require(bool(none_found), 'R14.2', f, f.node.name,
               'an object with no compatible serializer raises TypeError',
               'the fallback no longer raises when no serializer is found')
    # no fall-through: the function cannot end without return/raise
    preds = list(cfg.g.predecessors(cfg.exit))
    ok = all(isinstance(cfg.info[p]['stmt'], ast.Return) for p in preds)
    ck.require(ok, 'R14.2', f, f.node.name,
               'no path falls off the end of the fallback (returning None)',
               'a path through the fallback returns None implicitly')
    # the serializer used when the exact type is unknown is searched by
    # isinstance over the registered python_type
    ok = any(isinstance(c, ast.Call) and A.is_name(c.func, 'isinstance') and
             'python_type' in A.unparse(c) for c in A.calls_in(f.node))
    ck.require(ok, 'R14.2', f, f.node.name,
               'subclasses are matched against the registered python_type',
               None)
    sv = ck.fn('serialize_value', 'core.serialize')
    handlers = [h for h in ast.walk(sv.node)
                if isinstance(h, ast.ExceptHandler)]
    for h in handlers:
        ok = any(isinstance(x, ast.Raise) for x in ast.walk(h))
        ck.require(ok, 'R14.2', sv, h,
                   'an error during serialisation is re-raised',
                   'serialize_value swallows the error and returns '
                   'something else', h)
        rz = [x for x in ast.walk(h) if isinstance(x, ast.Raise)]
        if rz:
            ok = 'TypeError' in A.unparse(rz[0].exc)
            ck.require(ok, 'R14.2', sv, rz[0],
                       'the error surfaces as a TypeError', None, rz[0])
    ok = any(A.call_name(c) == 'dumps' for c in A.calls_in(sv.node)) and \
        any(A.call_name(c) == 'loads' for c in A.calls_in(sv.node))
    ck.require(ok, 'R14.2', sv, sv.node.name,
               'the value is passed through orjson dumps and loads: the '
               'result is plain JSON data', 'serialize_value no longer '
               'round-trips through orjson')
    for c in A.calls_in(sv.node, 'dumps'):
        d = A.arg_of(c, None, 'default')
        ok = d is not None and derives(
            sv.node, d, lambda x: A.is_name(x, A.params_of(sv.node)[1]) or (
                isinstance(x, ast.Call) and A.call_name(x) ==
                'make_fallback_serializer_function'), at=c)
        ck.require(ok, 'R14.2', sv, c,
                   'orjson is given the fallback built from the registry',
                   None, c)


def r14_3(ck):
    ck.rule('R14.3', 'registration exhaustiveness: every Serializer '
            'subclass defined in serialize.py is registered in '
            'vivarium/__init__.py; str, list and dict are claimed by '
            'disjoint can_deserialize tests')
    mod = ck.repo.module('core.serialize')
    init = ck.repo.module('vivarium')
    sub = [c for c in mod.classes.values()
           if 'Serializer' in [b.name for b in ck.repo.mro(c.name)[1:]]]
    registered = set()
    for n in ast.walk(init.tree):
        if isinstance(n, ast.For) and isinstance(n.iter, ast.Tuple) and \
                any(A.call_name(c) == 'register' and 'serializer_registry'
                    in A.unparse(c.func) for c in A.calls_in(n)):
            registered |= {A.unparse(e) for e in n.iter.elts}
    for n in ast.walk(init.tree):
        if isinstance(n, ast.Call) and A.call_name(n) == 'register' and \
                'serializer_registry' in A.unparse(n.func) and len(
                    n.args) == 2 and isinstance(n.args[1], ast.Call):
            registered.add(A.unparse(n.args[1].func))

    class _F:
        qual = 'vivarium/__init__.py'
        file = init.file
        lineno = 1
    ck.floor('R14.3', len(sub), 8, 'Serializer subclasses')
    for c in sorted(sub, key=lambda c: c.name):
        ck.require(c.name in registered, 'R14.3', _F,
                   'registration of ' + c.name,
                   c.name + ' is registered with the serializer registry',
                   '%s is defined but never registered: values of its type '
                   'raise TypeError (or are not deserialised)' % c.name)
    claims = {}
    for c in sub:
        cd = c.methods.get('can_deserialize')
        if cd is None:
            continue
        for x in A.calls_in(cd.node, 'isinstance'):
            if len(x.args) == 2:
                claims.setdefault(A.unparse(x.args[1]), []).append(c.name)
    for t, who in sorted(claims.items()):
        ck.require(len(set(who)) == 1, 'R14.3', _F,
                   'can_deserialize claims on ' + t,
                   'at most one deserializer claims JSON type ' + t,
                   'JSON type %s is claimed by %s: deserialize_value '
                   'raises for every such value' % (t, who))
    ck.require({'str', 'list', 'dict'} <= set(claims), 'R14.3', _F,
               'claimed JSON types',
               'str, list and dict each have a deserializer',
               'a JSON container/str type lost its deserializer: %s'
               % sorted(claims))
    dv = ck.fn('deserialize_value', 'core.serialize')
    rets = [r for r in A.walk_no_nested(dv.node) if isinstance(r, ast.Return)]
    cfg = cfg_of(dv.node)
    p = A.params_of(dv.node)[0]
    plain = [r for r in rets if A.is_name(r.value, p)]
    ok = bool(plain) and any(
        any(a[0] == 'falsy' for a in cfg.guards(cfg.node(r)))
        for r in plain)
    ck.require(ok, 'R14.3', dv, dv.node.name,
               'data that no deserializer claims is returned unchanged',
               'deserialize_value no longer returns plain data unchanged')
    ok = any(isinstance(r.value, ast.Call) and A.call_name(r.value) ==
             'deserialize' and A.is_name(A.arg_of(r.value, 0), p)
             for r in rets)
    ck.require(ok, 'R14.3', dv, dv.node.name,
               'claimed data is handed to the claiming deserializer', None)


def r14_6(ck):
    ck.rule('R14.6', 'claim and conversion go together, rejection stays a '
            'TypeError: a serializer class whose can_deserialize can answer '
            'yes defines deserialize in the same class (the base class '
            'claims nothing); the helper that names the offending keys on '
            'the error path descends into dictionaries only (a string is '
            'an iterable of strings: descending into iterables never '
            'ends); the quantity serializer chooses the list form by '
            'iterability, not by comparing a size with a constant')
    base = ck.repo.cls('Serializer')
    cd = base.methods.get('can_deserialize')
    if cd is not None:
        rets = [r for r in A.walk_no_nested(cd.node)
                if isinstance(r, ast.Return) and r.value is not None]
        claims = [r for r in rets if not (
            isinstance(r.value, ast.Constant) and not r.value.value)]
        ck.require(not claims, 'R14.6', cd, claims[0] if claims else
                   cd.node.name,
                   'the base serializer claims nothing to deserialize',
                   'Serializer.can_deserialize can answer yes (%s) while '
                   'Serializer.deserialize converts nothing: strings '
                   'written by serializers without a deserializer (process '
                   'and function markers) come back as None' % (
                       A.unparse(claims[0].value) if claims else ''),
                   claims[0] if claims else None)
    mod = ck.repo.module('core.serialize')
    for c in mod.classes.values():
        if 'Serializer' not in [b.name for b in ck.repo.mro(c.name)[1:]]:
            continue
        own_cd = c.methods.get('can_deserialize')
        if own_cd is None:
            continue
        ck.functions.add(own_cd.fq)
        ck.require('deserialize' in c.methods, 'R14.6', own_cd,
                   own_cd.node.name,
                   '%s defines deserialize next to can_deserialize' % c.name,
                   '%s claims data in can_deserialize but inherits a '
                   'deserialize that returns None' % c.name)
    # the error-path helper
    fh = ck.fn('find_numpy_and_non_strings', 'core.serialize')
    cfh = cfg_of(fh.node)
    p0 = A.params_of(fh.node)[0]
    recs = list(A.calls_in(fh.node, fh.name))
    ck.require(bool(recs), 'R14.6', fh, fh.node.name,
               'the key finder descends into nested dictionaries', None)
    for c in recs:
        g = cfh.guards(cfh.node(c))
        tests = [a for a in g if a[0] == 'isinstance' and a[1] == p0]
        ok = bool(tests) and all(
            set(a[2].replace('(', '').replace(')', '').replace(
                ' ', '').split(',')) <= {'dict', 'list', 'tuple', 'set',
                                         'collections.abc.Mapping',
                                         'Mapping'} for a in tests)
        ck.require(ok, 'R14.6', fh, c,
                   'the descent is limited to dictionaries (and plain '
                   'containers)',
                   'the key finder descends under %s: a string value is an '
                   'iterable of one-character strings, so the descent '
                   'never ends and serialize_value raises RecursionError '
                   'where a TypeError is promised' % sorted(
                       a for a in g if a[0] in ('isinstance',
                                                'notisinstance')), c)
    qs = ck.repo.cls('QuantitySerializer').methods['serialize']
    cq = cfg_of(qs.node)
    for n2 in ast.walk(qs.node):
        if isinstance(n2, ast.Compare) and len(n2.ops) == 1 and isinstance(
                n2.comparators[0], ast.Constant) and isinstance(
                n2.comparators[0].value, int) and any(
                isinstance(x, ast.Call) and A.call_name(x) in (
                    'size', 'len') or isinstance(x, ast.Attribute)
                and x.attr in ('size',) for x in ast.walk(n2.left)):
            ck.fail('R14.6', qs, n2,
                    'QuantitySerializer.serialize chooses between the list '
                    'and the scalar form by `%s`: an array quantity of that '
                    'size is written as one string and cannot be read back '
                    'as the list it was' % A.unparse(n2), n2,
                    what='the list form is chosen by iterability')
    ck.ok('R14.6', qs, qs.node.name,
          'no size comparison decides the form of a serialised quantity')


def r14_4(ck):
    ck.rule('R14.4', 'recursion: the list and dict deserializers apply '
            'deserialize_value to every element and rebuild the same '
            'container shape')
    sd = ck.repo.cls('SequenceDeserializer').methods['deserialize']
    dd = ck.repo.cls('DictDeserializer').methods['deserialize']
    ck.functions.add(sd.fq)
    ck.functions.add(dd.fq)
    p = A.params_of(sd.node)[1]
    ok = False
    rets_sd = [r for r in A.walk_no_nested(sd.node)
               if isinstance(r, ast.Return)]
    for r in rets_sd:
        good = False
        if isinstance(r.value, ast.ListComp):
            lc = r.value
            g = lc.generators[0]
            good = len(lc.generators) == 1 and not g.ifs and A.is_name(
                g.iter, p) and isinstance(lc.elt, ast.Call) and \
                A.call_name(lc.elt) == 'deserialize_value' and A.unparse(
                    A.arg_of(lc.elt, 0)) == A.unparse(g.target)
        if not good:
            ck.fail('R14.4', sd, r,
                    'a path of the list deserializer returns %s instead of '
                    'rebuilding the list element by element: later '
                    'elements that need deserialising come back as their '
                    'serialised strings' % A.short(r.value, 50), r,
                    what='every return rebuilds the list elementwise')
        ok = ok or good
    if False:
        if True:
            pass
    ck.require(ok, 'R14.4', sd, sd.node.name,
               'a list is rebuilt element by element with deserialize_value',
               'the list deserializer drops, filters or does not '
               'deserialise elements')
    p = A.params_of(dd.node)[1]
    ok = False
    for r in A.walk_no_nested(dd.node):
        if isinstance(r, ast.Return) and not isinstance(
                r.value, ast.DictComp):
            ck.fail('R14.4', dd, r,
                    'a path of the dict deserializer returns %s instead of '
                    'rebuilding the dictionary value by value' % A.short(
                        r.value, 50), r,
                    what='every return rebuilds the dict value by value')
        if isinstance(r, ast.Return) and isinstance(r.value, ast.DictComp):
            dc = r.value
            g = dc.generators[0]
            ok = len(dc.generators) == 1 and not g.ifs and A.unparse(
                g.iter) == p + '.items()' and isinstance(
                g.target, ast.Tuple) and A.unparse(dc.key) == A.unparse(
                g.target.elts[0]) and isinstance(dc.value, ast.Call) and \
                A.call_name(dc.value) == 'deserialize_value' and A.unparse(
                    A.arg_of(dc.value, 0)) == A.unparse(g.target.elts[1])
    ck.require(ok, 'R14.4', dd, dd.node.name,
               'a dict is rebuilt key by key with deserialize_value on '
               'every value',
               'the dict deserializer drops, filters, re-keys or does not '
               'deserialise values')
    em = ck.fn('Emitter.get_data_deserialized', 'core.emitter')
    ok = any(A.call_name(c) == 'deserialize_value'
             for c in A.calls_in(em.node))
    ck.require(ok, 'R14.4', em, em.node.name,
               'get_data_deserialized applies deserialize_value to the data',
               None)


def r14_5(ck):
    ck.rule('R14.5', 'payload integrity and totality of the serializers: '
            'between the regex group and the unit registry the payload is '
            'only sliced by a constant prefix or stripped (never tokenised '
            'or rewritten); serialize() methods do not apply partial '
            'operations (sorted/min/max) to the members of the data')
    us = ck.repo.cls('UnitsSerializer')
    de = us.methods['deserialize']
    n = 0
    for c in A.calls_in(de.node, 'units'):
        if not isinstance(c.func, ast.Name) or not c.args:
            continue
        n += 1
        bad = []

        def lossy(x):
            if isinstance(x, ast.Call) and A.call_name(x) in (
                    'split', 'rsplit', 'partition', 'rpartition', 'replace',
                    'sub', 'lower', 'upper', 'title', 'findall', 'join',
                    'format'):
                bad.append(x)
                return True
            if isinstance(x, ast.Subscript) and not isinstance(
                    x.slice, ast.Slice) and not (
                    isinstance(x.value, ast.Name) and x.value.id == 'data'
                    and False):
                # indexing a tokenised payload
                if isinstance(x.value, ast.Call):
                    bad.append(x)
                    return True
            return False
        derives(de.node, c.args[0], lossy, at=c)
        ck.require(not bad, 'R14.5', de, c,
                   'the string handed to the unit registry is the payload '
                   'minus a constant prefix / surrounding blanks',
                   'the payload is tokenised or rewritten (%s) before it is '
                   'parsed: compound units such as "millimole / liter" '
                   'lose everything after the first token' % (
                       A.short(bad[0], 50) if bad else ''), c)
    ck.floor('R14.5', n, 2, 'calls of the unit registry in deserialize')
    mod = ck.repo.module('core.serialize')
    m = 0
    for ci in mod.classes.values():
        f = ci.methods.get('serialize')
        if f is None:
            continue
        m += 1
        ck.functions.add(f.fq)
        data = A.params_of(f.node)[1] if len(A.params_of(f.node)) > 1 \
            else None
        partial = [c for c in A.calls_in(f.node, ('sorted', 'min', 'max'))
                   if data and data in A.names_in(c)]
        partial += [c for c in A.calls_in(f.node, 'sort')]
        # ** unpacking of a data-derived mapping needs string keys and
        # rejects duplicates
        for c in A.calls_in(f.node):
            for kw in c.keywords:
                if kw.arg is None and data and data in A.names_in(kw.value):
                    partial.append(c)
        # element type coercion before conversion (astype) changes the data
        for c in A.calls_in(f.node, ('astype', 'view')):
            if data and data in A.names_in(c):
                partial.append(c)
        ck.require(not partial, 'R14.5', f,
                   partial[0] if partial else f.node.name,
                   'serialize() is total on its type (no ordering of '
                   'arbitrary members)',
                   '%s.serialize applies a partial or type-changing '
                   'operation to the data (%s): legal values of its type '
                   'raise or come out as something else' % (ci.name, A.short(
                       partial[0], 50) if partial else ''),
                   partial[0] if partial else None)
    ck.floor('R14.5', m, 6, 'serialize methods')
