"""C06 - a port reads and writes the same store node, for every topology."""

import ast

from .. import astutil as A
from ..cfg import cfg_of, within
from ..dataflow import derives, local_defs, reaching, resolve_local

EXPL = (
    'Sibling agreement between the three readers of a topology '
    '(Store._topology_ports, Store.schema_topology, Store.topology_state) '
    'and its writer (inverse_topology): the case tables (glob with dict '
    'path, glob with tuple path, dict path with/without _path, tuple path, '
    'port absent from the topology) are extracted from the guards of each '
    'function and compared; every case the readers handle must be handled '
    'by the writer, readers resolve paths relative to self and the writer '
    'normalises every composed path. Collision preservation: in the '
    'port-keyed branch of inverse_topology every store into the inverse '
    'under multi_updates goes through deep_merge_multi_update; '
    'Store.apply_update applies every element of a multi-update in list '
    'order before the branch/leaf split; the Defer captures the process '
    'path and the topology of the same store whose view produced the '
    'states. Not decided: that the two path compositions denote the same '
    'node for every topology value (quantifies over runtime path tuples).')


def check(ck):
    ck.explanation = EXPL
    ck.technique = ('case-table extraction from normalised guards and '
                    'sibling comparison; provenance of stores into the '
                    'inverse; reaching definitions')
    r06_1(ck)
    r06_2(ck)
    r06_3(ck)
    r06_4(ck)
    r06_5(ck)
    r06_6(ck)
    r06_7(ck)
    from . import helpers as H
    ck.rule('R06.8', 'update_in, assoc_path and deep_merge, with which the inverted update is assembled, keep their recursion skeleton')
    H.update_in_shape(ck, 'R06.8')
    H.assoc_path_shape(ck, 'R06.8')
    H.deep_merge_shape(ck, 'R06.8')
    H.deep_merge_shape(ck, 'R06.8', 'deep_merge_multi_update')
    H.multi_update_collision_shape(ck, 'R06.8')
    H.target_not_rebound_by_truthiness(ck, 'R06.8', [
        ('deep_merge_multi_update', 'library.dict_utils'),
        ('deep_merge', 'library.dict_utils'),
        ('deep_merge_check', 'library.dict_utils'),
        ('deep_merge_combine_lists', 'library.dict_utils')])
    from . import c08 as _c08
    _c08.r08_13(ck, rule='R06.10')
    H.recursion_forwards(ck, 'R06.8', [
        ('inverse_topology', 'library.topology'),
        ('deep_merge_multi_update', 'library.dict_utils')])
    from . import c09
    ck.shared('R06.9', 'reads walk the tree through the outer links, writes '
              'address nodes by absolute path: the two meet in the same '
              'node only if every node that is attached somewhere gets that '
              'parent as its outer link',
              c09.r09_7)
    r06_12(ck)
    r06_13(ck)
    from . import c04
    from ..engine_model import RunFor
    rf = RunFor(ck)
    ck.shared('R06.11', 'what a process reads is looked up in the current '
              'hierarchy at every invocation: the engine keeps no store '
              'node or view of its own that could outlive a delete-and-'
              're-create of the subtree (reads would then come from the '
              'detached nodes while writes go, by path, to the new ones)',
              lambda c: c04.r04_3(c, rf))


def r06_13(ck, rule='R06.13'):
    ck.rule(rule, 'inverse_topology honours its multi_updates flag: the '
            'collision-preserving combinator (deep_merge_multi_update, '
            'which wraps colliding values under _multi_update) is used '
            'only under `multi_updates`; with the flag off - the mode in '
            'which Composite.initial_state()/default_state() map initial '
            'values - colliding values overwrite each other and no '
            '_multi_update wrapper ends up in a state')
    f = ck.fn('inverse_topology', 'library.topology')
    cfg = cfg_of(f.node)
    ps = A.params_of(f.node)
    flag = ps[4] if len(ps) > 4 else 'multi_updates'
    n = 0
    for c in ast.walk(f.node):
        if not (isinstance(c, ast.Call) and A.call_name(c) ==
                'deep_merge_multi_update'):
            continue
        n += 1
        st = c
        while st is not None and not isinstance(st, ast.stmt):
            st = getattr(st, '_parent', None)
        g = cfg.guards(cfg.node(st)) if st is not None and \
            cfg.node(st) is not None else set()
        ck.require(('truthy', flag) in g, rule, f, c,
                   'the multi-update combinator sits under the flag',
                   'inverse_topology wraps colliding values under '
                   '_multi_update whatever `%s` says (guards: %s): the '
                   'initial state of a composite whose ports share a '
                   'variable would contain a _multi_update wrapper instead '
                   'of a value' % (flag, sorted(g)), c)
    ck.floor(rule, n, 2, 'uses of deep_merge_multi_update')


def r06_12(ck, rule='R06.12'):
    ck.rule(rule, "the wiring is read, never edited: inverse_topology "
            "removes '_path' from (and adds default routes to) a COPY of a "
            'sub-topology - every pop / item store / del on a value taken '
            'from the topology acts on a local that was re-bound to a copy '
            'first; the topology of the process (held by its store node) '
            'still has its _path at the next invocation')
    f = ck.fn('inverse_topology', 'library.topology')
    cfg = cfg_of(f.node)
    topo = A.params_of(f.node)[2]
    n = 0
    muts = []
    for x in A.walk_no_nested(f.node):
        if isinstance(x, ast.Call) and A.call_name(x) in (
                'pop', 'update', 'setdefault', 'clear', 'popitem') and \
                isinstance(A.call_receiver(x), ast.Name):
            muts.append((A.call_receiver(x).id, x))
        elif isinstance(x, (ast.Assign, ast.AugAssign)):
            for t in A.assigned_targets(x):
                if isinstance(t, ast.Subscript) and isinstance(
                        t.value, ast.Name):
                    muts.append((t.value.id, x))
        elif isinstance(x, ast.Delete):
            for t in x.targets:
                if isinstance(t, ast.Subscript) and isinstance(
                        t.value, ast.Name):
                    muts.append((t.value.id, x))
    for name, m in muts:
        from_topo = derives(f.node, ast.Name(id=name, ctx=ast.Load()),
                            lambda y: A.is_name(y, topo), at=m)
        if not from_topo:
            continue
        n += 1
        st = m
        while not isinstance(st, ast.stmt):
            st = st._parent
        copies = [d for d in local_defs(f.node).get(name, [])
                  if isinstance(d.value, ast.Call) and (
                      A.call_name(d.value) in ('copy', 'deepcopy',
                                               'deep_copy_internal')
                      or (A.call_name(d.value) == 'dict' and d.value.args))]
        ok = any(cfg.dominates(cfg.node(d.stmt), cfg.node(st))
                 for d in copies if cfg.node(d.stmt) is not None)
        ck.require(ok, rule, f, m,
                   'the sub-topology edited is a copy',
                   'inverse_topology edits `%s`, a dictionary of the '
                   "process's topology, in place (%s): after the first "
                   "update the wiring has lost its '_path' (or gained "
                   'default routes) and later updates are written '
                   'somewhere else than the process reads' % (
                       name, A.short(m, 40)), m)
    ck.floor(rule, n, 2, 'edits of sub-topologies in inverse_topology')


# ------------------------------------------------------------- case tables
def topo_loop(fi):
    """The loop over schema/topology items: (loop, key var, path var,
    iteration domain, default for absent ports)."""
    params = A.params_of(fi.node)
    for n in A.walk_no_nested(fi.node):
        if not isinstance(n, ast.For):
            continue
        it = n.iter
        # for key in topology: path = topology[key]
        if isinstance(it, ast.Name) and it.id in ('schema', 'topology') \
                and isinstance(n.target, ast.Name):
            key = n.target.id
            for dn, dl in local_defs(fi.node).items():
                for d in dl:
                    if d.kind == 'assign' and within(d.stmt, n) and \
                            isinstance(d.value, ast.Subscript) and A.is_name(
                                d.value.value, it.id) and A.is_name(
                                d.value.slice, key) and it.id == 'topology':
                        return n, key, dn, it.id, None
        if isinstance(it, ast.Call) and A.call_name(it) == 'items' and \
                isinstance(it.func.value, ast.Name) and \
                it.func.value.id in ('schema', 'topology') and isinstance(
                    n.target, ast.Tuple):
            dom = it.func.value.id
            key = A.unparse(n.target.elts[0])
            second = A.unparse(n.target.elts[1])
            pathv, default = None, None
            if dom == 'topology':
                pathv = second
            else:
                # path = topology.get(key[, default])
                for nm, dl in local_defs(fi.node).items():
                    for d in dl:
                        v = d.value
                        if isinstance(v, ast.BoolOp) and isinstance(
                                v.op, ast.Or) and len(v.values) == 2 and \
                                isinstance(v.values[0], ast.Call) and \
                                A.call_name(v.values[0]) == 'get' and \
                                A.is_name(A.call_receiver(v.values[0]),
                                          'topology') and \
                                d.stmt is not None and within(d.stmt, n):
                            # path = topology.get(key) or default
                            pathv = nm
                            default = 'truthiness:' + A.unparse(v.values[1])
                            continue
                        if isinstance(v, ast.Call) and A.call_name(v) == \
                                'get' and A.is_name(
                                    A.call_receiver(v), 'topology') and \
                                d.stmt is not None and within(d.stmt, n) \
                                and v.args and A.unparse(v.args[0]) == key:
                            pathv = nm
                            if len(v.args) == 2:
                                default = A.unparse(v.args[1])
                if pathv and default is None:
                    cfg = cfg_of(fi.node)
                    for d in local_defs(fi.node).get(pathv, []):
                        if d.stmt is None or not within(d.stmt, n):
                            continue
                        node = cfg.node(d.stmt)
                        if node is not None and ('is', pathv, 'None') in \
                                cfg.guards(node):
                            default = A.unparse(d.value)
            return n, key, pathv, dom, default
    return None


def case_table(ck, fi):
    tl = topo_loop(fi)
    if tl is None:
        return None
    loop, key, pathv, dom, default = tl
    cfg = cfg_of(fi.node)
    cases = set()
    glob_atom = ('==', "'*'", key)
    dict_atom = ('isinstance', pathv, 'dict')
    nodict_atom = ('notisinstance', pathv, 'dict')
    has_outer_path = False
    path_in = False
    for n in cfg.stmt_nodes():
        st = cfg.info[n]['stmt']
        if st is None or not within(st, loop) or st is loop:
            continue
        g = cfg.guards(n)
        # only leaf actions: nodes that use the path
        exprs = cfg.header_exprs(n)
        uses_path = any(pathv in A.names_in(e) for e in exprs
                        if isinstance(e, ast.AST))
        if not uses_path:
            continue
        if glob_atom in g:
            if dict_atom in g:
                cases.add('glob+dict')
            elif nodict_atom in g:
                cases.add('glob+tuple')
        elif ('!=', "'*'", key) in g or glob_atom not in g:
            if dict_atom in g:
                cases.add('dict')
                if any(a[0] == 'in' and a[1] == "'_path'" for a in g):
                    cases.add('dict+_path')
            elif nodict_atom in g:
                cases.add('tuple')
        for e in exprs:
            for c in A.calls_in(e, 'outer_path') if isinstance(
                    e, ast.AST) else []:
                has_outer_path = True
                if glob_atom in g:
                    cases.add('glob+dict+_path')
                else:
                    cases.add('dict+_path')
        if any(a[0] == 'in' and a[1] == "'_path'" for a in g):
            if glob_atom in g:
                cases.add('glob+dict+_path')
    return {'cases': cases, 'domain': dom, 'default': default,
            'loop': loop, 'key': key, 'path': pathv}


def r06_1(ck):
    ck.rule('R06.1', 'case-table agreement between the topology readers '
            '(_topology_ports, schema_topology, topology_state) and the '
            'writer inverse_topology, including the port absent from the '
            'topology; readers resolve relative to self')
    readers = [ck.fn('Store._topology_ports', 'core.store'),
               ck.fn('Store.schema_topology', 'core.store'),
               ck.fn('Store.topology_state', 'core.store')]
    writer = ck.fn('inverse_topology', 'library.topology')
    op = ck.fn('Store.outer_path', 'core.store')
    cfgo = cfg_of(op.node)
    ok = any(any(a[0] == 'in' and a[1] == "'_path'" for a in cfgo.guards(n))
             for n in cfgo.stmt_nodes())
    ck.require(ok, 'R06.1', op, op.node.name,
               "outer_path handles the '_path' key of a dict path",
               "outer_path no longer looks at '_path'")
    tables = {}
    for fi in readers + [writer]:
        t = case_table(ck, fi)
        if t is None:
            ck.fail('R06.1', fi, fi.node.name,
                    'no loop over the schema/topology items found: the case '
                    'table cannot be extracted')
            continue
        tables[fi.qual] = t
    if writer.qual not in tables:
        return
    wt = tables[writer.qual]
    base = {'glob+dict', 'glob+tuple', 'dict', 'dict+_path', 'tuple'}
    n = 0
    for fi in readers:
        t = tables.get(fi.qual)
        if not t:
            continue
        for case in sorted(base):
            n += 1
            if case in t['cases']:
                ck.require(case in wt['cases'], 'R06.1', writer,
                           'case %s (handled by %s)' % (case, fi.qual),
                           'the writer handles every case the reader '
                           'handles',
                           'inverse_topology has no branch for the topology '
                           'case "%s" that %s reads through: updates for '
                           'such ports are mis-routed or dropped' % (
                               case, fi.qual), wt['loop'])
            elif case in wt['cases'] and fi.name != 'topology_state':
                ck.fail('R06.1', fi, 'case %s' % case,
                        '%s has no branch for the topology case "%s" that '
                        'inverse_topology writes through' % (fi.qual, case),
                        t['loop'])
    ck.floor('R06.1', n, 15, 'reader/writer case comparisons')
    # absent port
    defaults = {q: t['default'] for q, t in tables.items()
                if t['domain'] == 'schema'}
    for q, d in sorted(defaults.items()):
        fi = [f for f in readers if f.qual == q][0]
        key = tables[q]['key']
        if d is not None and d.startswith('truthiness:'):
            ck.fail('R06.1', fi, 'absent port default in %s' % q,
                    '%s takes the default for every falsy topology entry '
                    '(`or`): a port wired to the empty path () - the node '
                    'the process sits under - is built and read at (port,) '
                    'instead, while updates still go to ()' % q,
                    tables[q]['loop'],
                    what='only a port that the topology omits gets the '
                    'default path')
            continue
        ck.require(d is not None and d.replace(' ', '') ==
                   '(%s,)' % key, 'R06.1', fi,
                   'absent port default in %s' % q,
                   'a declared port that the topology omits is wired to '
                   '(port,)',
                   '%s no longer defaults an absent port to (port,)' % q,
                   tables[q]['loop'])
    if wt['domain'] == 'topology' and defaults:
        # the writer iterates the topology: ports in the update that the
        # topology omits are never visited
        handles = False
        for n2 in A.walk_no_nested(writer.node):
            if isinstance(n2, ast.For) and 'update' in A.unparse(n2.iter) \
                    and not within(n2, wt['loop']):
                handles = True
        ck.require(handles, 'R06.1', writer,
                   'loop over the %s items (ports absent from it are not '
                   'visited)' % wt['domain'],
            'ports omitted from the topology are written back at (port,) '
            'like they are read',
            'the readers wire a declared port that the topology omits to '
            '(port,), but inverse_topology only visits topology keys: an '
            'update for such a port is silently dropped', wt['loop'])
    # under a glob, the children listed are those of the ADDRESSED node
    for fi in readers:
        t = tables.get(fi.qual)
        if not t:
            continue
        for lp in A.walk_no_nested(t['loop']):
            if isinstance(lp, ast.For) and lp is not t['loop'] and \
                    '.inner.items()' in A.unparse(lp.iter):
                base = lp.iter.func.value.value
                ok = isinstance(base, ast.Name) and any(
                    isinstance(d.value, ast.Call) and A.call_name(
                        d.value) in ('get_path', 'outer_path',
                                     '_establish_path')
                    for d in reaching(fi.node).at(lp, base.id)) \
                    if isinstance(base, ast.Name) else False
                ck.require(ok, 'R06.1', fi, lp,
                           'a glob lists the children of the node its '
                           'topology entry addresses',
                           'a glob port lists the children of `%s` instead '
                           'of the node addressed by its topology entry: '
                           'the port reads other nodes than its updates '
                           'reach' % A.unparse(base), lp)
    # readers resolve relative to self
    for fi in readers:
        t = tables.get(fi.qual)
        if not t:
            continue
        for c in A.calls_in(t['loop'], ('get_path', '_establish_path',
                                        'outer_path')):
            a0 = A.arg_of(c, 0, 'path')
            if a0 is None or t['path'] not in A.names_in(a0):
                continue
            ck.require(A.is_name(A.call_receiver(c), 'self'), 'R06.1', fi, c,
                       'topology paths are resolved relative to the node '
                       'the process sits under (self)',
                       'a topology path is resolved from %s instead of '
                       'self: the port reads a different node than it '
                       'writes' % A.unparse(A.call_receiver(c)), c)


# ------------------------------------------------------------------ R06.2
def r06_2(ck):
    ck.rule('R06.2', 'collision preservation: in the port-keyed tuple-path '
            'branch of inverse_topology every store into the inverse under '
            'multi_updates goes through deep_merge_multi_update')
    f = ck.fn('inverse_topology', 'library.topology')
    cfg = cfg_of(f.node)
    tl = topo_loop(f)
    if tl is None:
        ck.fail('R06.2', f, f.node.name, 'topology loop not found')
        return
    loop, key, pathv, dom, _ = tl
    n = 0
    for node in cfg.stmt_nodes():
        st = cfg.info[node]['stmt']
        if st is None or not within(st, loop) or cfg.info[node]['kind'] \
                != 'stmt':
            continue
        g = cfg.guards(node)
        if ('in', key, 'update') not in g or \
                ('notisinstance', pathv, 'dict') not in g:
            continue
        calls = [c for c in A.calls_in(st, ('update_in', 'assoc_path'),
                                       nested=False)]
        for c in calls:
            if not A.is_name(A.arg_of(c, 0), 'inverse'):
                continue
            n += 1
            comb = None
            if A.call_name(c) == 'update_in':
                fn = A.arg_of(c, 2, 'f')
                for x in ast.walk(fn) if fn is not None else []:
                    if isinstance(x, ast.Call) and A.call_name(x) in (
                            'deep_merge_multi_update', 'deep_merge',
                            'deep_merge_check'):
                        comb = A.call_name(x)
            else:
                comb = 'assoc_path'
            if comb not in ('deep_merge_multi_update', 'deep_merge',
                            'deep_merge_check', 'assoc_path', None):
                pass
            if comb is None and A.call_name(c) == 'update_in':
                # the combiner may be chosen first and called through a
                # local: every choice made with multi_updates on must be
                # the collision-preserving merge
                fn2 = A.arg_of(c, 2, 'f')
                called = {A.call_name(x) for x in ast.walk(fn2)
                          if isinstance(x, ast.Call)} if fn2 is not None \
                    else set()
                for nm in sorted(called):
                    ds = [d for d in local_defs(f.node).get(nm, [])
                          if d.kind == 'assign' and isinstance(
                              d.value, ast.Name)]
                    if not ds:
                        continue
                    on = [d for d in ds if ('falsy', 'multi_updates')
                          not in cfg.guards(cfg.node(d.stmt))]
                    comb = 'deep_merge_multi_update' if on and all(
                        d.value.id == 'deep_merge_multi_update'
                        for d in on) else (on[0].value.id if on else
                                           'deep_merge')
            multi_off = ('falsy', 'multi_updates') in g
            # the place written to is the second argument of the call
            place = A.unparse(A.arg_of(c, 1)) if A.arg_of(c, 1) is not \
                None else 'inner'
            empty_path = any(a[0] == 'falsy' and a[1] == place for a in g)
            neg_conj = any(a[0] == 'opaque' and a[2] == 'And' and a[3] is
                           False and set(a[1].split()) == {'multi_updates',
                                                           place}
                           for a in g)
            ok = comb == 'deep_merge_multi_update' or multi_off or \
                empty_path or neg_conj
            ck.require(ok, 'R06.2', f, c,
                       'store into the inverse keeps colliding updates '
                       '(deep_merge_multi_update) unless multi_updates is '
                       'off or the path is empty',
                       'with multi_updates on, a port update is written '
                       'into the inverse with %s: when two ports of one '
                       'process are wired to the same node one update '
                       'overwrites the other' % comb, c)
    # dict-valued port updates are MERGED into what is already there (both
    # with and without multi-updates): an overwrite loses what an earlier
    # port of the same process placed at or below that node
    for node in cfg.stmt_nodes():
        st = cfg.info[node]['stmt']
        if st is None or not within(st, loop) or cfg.info[node]['kind'] \
                != 'stmt':
            continue
        g = cfg.guards(node)
        if ('in', key, 'update') not in g or \
                ('notisinstance', pathv, 'dict') not in g or not any(
                    a[0] == 'isinstance' and a[2] == 'dict' and a[1] != pathv
                    for a in g):
            continue
        for c in A.calls_in(st, 'assoc_path', nested=False):
            if A.is_name(A.arg_of(c, 0), 'inverse'):
                ck.fail('R06.2', f, c,
                        'a dictionary-valued port update is written into '
                        'the inverse with assoc_path (overwrite) instead of '
                        'being merged: what an earlier port of the same '
                        'process placed there is lost', c,
                        what='dict-valued port updates are merged into the '
                        'inverse')
    ck.floor('R06.2', n, 3, 'stores into the inverse in the port branch')
    dm = ck.fn('deep_merge_multi_update', 'library.dict_utils')
    txt = A.unparse(dm.node)
    ok = "'_multi_update'" in txt or 'MULTI_UPDATE_KEY' in txt
    wraps = [n2 for n2 in A.walk_no_nested(dm.node)
             if isinstance(n2, ast.Dict) and any(
                 A.unparse(k) in ("'_multi_update'", 'MULTI_UPDATE_KEY')
                 for k in n2.keys if k is not None)]
    ok = ok and bool(wraps) and isinstance(wraps[0].values[0], ast.List) \
        and len(wraps[0].values[0].elts) == 2
    ck.require(ok, 'R06.2', dm, wraps[0] if wraps else dm.node.name,
               'colliding values are kept as a two-element _multi_update '
               'list (existing first, new second)',
               'deep_merge_multi_update no longer wraps colliding values')
    rec = [c for c in A.calls_in(dm.node, dm.node.name)]
    other = [c for c in A.calls_in(dm.node, ('deep_merge',
                                             'deep_merge_check'))]
    ck.require(bool(rec) and not other, 'R06.2', dm,
               other[0] if other else dm.node.name,
               'nested dictionaries are merged by the same collision-'
               'preserving function (recursion)',
               'below the first level deep_merge_multi_update merges with '
               '%s: colliding updates of two ports to one nested variable '
               'overwrite each other' % (A.call_name(other[0]) if other
                                         else 'nothing'),
               other[0] if other else None)
    arith = [n2 for n2 in A.walk_no_nested(dm.node)
             if isinstance(n2, ast.AugAssign) or (
                 isinstance(n2, ast.Assign) and isinstance(
                     n2.targets[0], ast.Subscript) and isinstance(
                     n2.value, ast.BinOp))]
    ck.require(not arith, 'R06.2', dm, arith[0] if arith else dm.node.name,
               'colliding values are kept side by side, never combined '
               'arithmetically before the updater sees them',
               'deep_merge_multi_update combines colliding values itself '
               '(%s): the variable\'s updater then runs once on the '
               'combination instead of once per update, which is wrong for '
               'every non-additive updater (set, nonnegative_accumulate)'
               % (A.short(arith[0], 40) if arith else ''),
               arith[0] if arith else None)
    apps = [c for c in A.calls_in(dm.node, 'append')]
    ck.require(bool(apps), 'R06.2', dm, dm.node.name,
               'a third colliding value is appended to the list',
               'deep_merge_multi_update no longer extends an existing '
               '_multi_update list')


# ------------------------------------------------------------------ R06.3
def r06_3(ck):
    ck.rule('R06.3', 'multi-update application: Store.apply_update tests '
            'the multi-update key before the branch/leaf split and applies '
            'every list element in list order with the same state')
    f = ck.fn('Store.apply_update', 'core.store')
    cfg = cfg_of(f.node)
    params = A.params_of(f.node)
    upd, state = params[1], params[2]
    loops = []
    for n in A.walk_no_nested(f.node):
        if isinstance(n, ast.For):
            g = cfg.guards(cfg.node(n))
            if any(a[0] == 'in' and a[1] in ('MULTI_UPDATE_KEY',
                                             "'_multi_update'")
                   and a[2] == upd for a in g):
                loops.append(n)
    ck.require(len(loops) >= 1, 'R06.3', f, f.node.name,
               'apply_update has a branch for multi-updates',
               'Store.apply_update no longer handles _multi_update')
    if not loops:
        return
    loop = loops[0]
    it = resolve_local(f.node, loop.iter, loop)
    ok = isinstance(it, ast.Subscript) and A.is_name(it.value, upd) and \
        A.unparse(it.slice) in ('MULTI_UPDATE_KEY', "'_multi_update'")
    ck.require(ok, 'R06.3', f, loop,
               'the loop iterates the multi-update list itself, in list '
               'order',
               'the multi-update list is not iterated as-is (iter: %s)'
               % A.unparse(loop.iter), loop)
    calls = [c for c in A.calls_in(loop, 'apply_update')]
    ok = len(calls) == 1 and A.is_name(A.call_receiver(calls[0]), 'self') \
        and A.unparse(A.arg_of(calls[0], 0, 'update')) == A.unparse(
            loop.target) and A.is_name(A.arg_of(calls[0], 1, 'state'), state)
    ck.require(ok, 'R06.3', f, calls[0] if calls else loop,
               'each element is applied to this node with the same state',
               'multi-update elements are not each applied to this node',
               loop)
    body = cfg.loop_nodes(loop)
    ck.require(not cfg.loops[id(loop)]['breaks'] and not any(
        isinstance(cfg.info[x]['stmt'], (ast.Return, ast.Continue))
        for x in body), 'R06.3', f, loop,
        'no element of the multi-update is skipped',
        'a break/continue/return in the multi-update loop drops updates',
        loop)
    # before the branch/leaf split
    split = None
    for n in A.walk_no_nested(f.node):
        if isinstance(n, ast.If) and 'self.inner' in A.unparse(n.test) and \
                n._parent is f.node:
            split = n
            break
    mnode = None
    p = loop
    while p is not None and p._parent is not f.node:
        p = p._parent
    ok = split is not None and p is not None and \
        f.node.body.index(p) < f.node.body.index(split)
    ck.require(ok, 'R06.3', f, p if p is not None else f.node.name,
               'the multi-update test precedes the branch/leaf split',
               'the multi-update key is no longer tested before the '
               'branch/leaf split')


# ------------------------------------------------------------------ R06.4
def simplify(e):
    """Strip shallow-copy wrappers and fold  p[:-1] + (p[-1],)  to p."""
    while True:
        if isinstance(e, ast.Call) and A.call_name(e) in (
                'dict', 'tuple', 'list', 'copy', 'deepcopy') and \
                len(e.args) == 1 and not e.keywords:
            e = e.args[0]
            continue
        if isinstance(e, ast.Call) and A.call_name(e) == 'copy' and \
                not e.args and isinstance(e.func, ast.Attribute):
            e = e.func.value
            continue
        if isinstance(e, ast.BinOp) and isinstance(e.op, ast.Add):
            l, r = e.left, e.right
            if isinstance(l, ast.Subscript) and isinstance(
                    l.slice, ast.Slice) and l.slice.lower is None and \
                    A.unparse(l.slice.upper) == '-1' and isinstance(
                        r, ast.Tuple) and len(r.elts) == 1 and isinstance(
                        r.elts[0], ast.Subscript) and A.unparse(
                        r.elts[0].slice) == '-1' and A.same(
                        r.elts[0].value, l.value):
                e = l.value
                continue
        return e


def _expand(f, e, at):
    from ..dataflow import expand
    from ..loader import enclosing_stmt
    return None if e is None else expand(f.node, e, enclosing_stmt(at))


def r06_4(ck):
    ck.rule('R06.4', 'same store on both sides: the Defer captures the '
            'process path and the topology of the store whose view produced '
            'the states; invert_topology hands path[:-1] to '
            'inverse_topology')
    pu = ck.fn('_process_update', 'core.engine')
    params = A.params_of(pu.node)
    defers = list(A.calls_in(pu.node, 'Defer'))
    for d in defers:
        fn = A.arg_of(d, 1, 'f')
        fn = resolve_local(pu.node, fn, d) if fn is not None else fn
        ck.require(A.is_name(fn, 'invert_topology'), 'R06.4', pu, d,
                   'the deferred transformation is invert_topology',
                   'the Defer does not use invert_topology', d)
        args = simplify(A.arg_of(d, 2, 'args'))
        if isinstance(args, ast.Name):
            args = simplify(resolve_local(pu.node, args, d))
        ok = isinstance(args, ast.Tuple) and len(args.elts) == 2
        if ok:
            p = simplify(resolve_local(pu.node, simplify(args.elts[0]), d))
            t = simplify(resolve_local(pu.node, simplify(args.elts[1]), d))
            ok = A.is_name(p, params[0]) and isinstance(t, ast.Attribute) \
                and t.attr == 'topology' and A.is_name(t.value, params[2])
        ck.require(ok, 'R06.4', pu, d,
                   'Defer args are (process path, topology of the store '
                   'handed in)',
                   'the Defer does not capture (path, store.topology) of '
                   'the process being invoked: the update would be routed '
                   'with another topology or from another place', d)
    it = ck.fn('invert_topology', 'core.engine')
    ip = A.params_of(it.node)
    calls = list(A.calls_in(it.node, 'inverse_topology'))
    ck.require(len(calls) == 1, 'R06.4', it, it.node.name,
               'invert_topology delegates to inverse_topology',
               'invert_topology no longer calls inverse_topology')
    for c in calls:
        a0 = simplify(_expand(it, A.arg_of(c, 0, 'outer'), c))
        a1 = simplify(_expand(it, A.arg_of(c, 1, 'update'), c))
        a2 = simplify(_expand(it, A.arg_of(c, 2, 'topology'), c))
        # path, topology = args
        def from_args(e, idx):
            e = simplify(resolve_local(it.node, e, c))
            if isinstance(e, ast.Subscript) and A.is_name(e.value, ip[1]) \
                    and A.unparse(e.slice) == str(idx):
                return True
            if isinstance(e, ast.Name):
                for d in reaching(it.node).at(c, e.id):
                    if d.kind == 'unpack' and A.is_name(d.value, ip[1]):
                        tgt = d.stmt.targets[0]
                        if isinstance(tgt, ast.Tuple) and len(
                                tgt.elts) == 2 and A.is_name(
                                tgt.elts[idx], e.id):
                            return True
            return False
        ok0 = isinstance(a0, ast.Subscript) and isinstance(
            a0.slice, ast.Slice) and a0.slice.lower is None and A.unparse(
            a0.slice.upper) == '-1' and from_args(a0.value, 0)
        ck.require(ok0, 'R06.4', it, c,
                   "the update is inverted from the process's parent "
                   '(path[:-1])',
                   'inverse_topology is not handed path[:-1] (the parent of '
                   'the process): got %s' % A.unparse(A.arg_of(c, 0)), c)
        ck.require(A.is_name(a1, ip[0]), 'R06.4', it, c,
                   'the update inverted is the one received', None, c)
        ck.require(from_args(a2, 1), 'R06.4', it, c,
                   'the topology used is the one captured in the Defer',
                   None, c)
    # run_for / _calculate_update: store and states from one call
    for qual in ('Engine.run_for', 'Engine._calculate_update'):
        f = ck.fn(qual, 'core.engine')
        for c in A.calls_in(f.node, '_process_update'):
            st, ss, p = A.arg_of(c, 2, 'store'), A.arg_of(
                c, 3, 'states'), A.arg_of(c, 0, 'path')
            ok = isinstance(st, ast.Name) and isinstance(ss, ast.Name)
            if ok:
                d1 = reaching(f.node).at(c, st.id)
                d2 = reaching(f.node).at(c, ss.id)
                ok = len(d1) == 1 and len(d2) == 1 and \
                    next(iter(d1)).stmt is next(iter(d2)).stmt
                if ok:
                    v = next(iter(d1)).value
                    ok = isinstance(v, ast.Call) and A.call_name(v) == \
                        '_process_state' and A.same(A.arg_of(v, 0, 'path'),
                                                    p)
            ck.require(ok, 'R06.4', f, c,
                       'store, states and path of an invocation belong '
                       'together (one _process_state(path) call)',
                       'the store whose topology routes the update is not '
                       'the one whose view produced the states', c)


# ------------------------------------------------------------------ R06.5
def r06_5(ck):
    ck.rule('R06.5', 'every path composed by addition inside '
            'inverse_topology is normalised (.. resolved lexically) before '
            'it addresses the inverse')
    f = ck.fn('inverse_topology', 'library.topology')
    n = 0
    # the locals that hold target paths: whatever addresses the inverse
    # (second argument of update_in / assoc_path) or is handed on as the
    # base of a recursive call
    fp = A.params_of(f.node)
    T = set()
    for c in A.calls_in(f.node, ('update_in', 'assoc_path')):
        if A.is_name(A.arg_of(c, 0), fp[3]) and A.arg_of(c, 1) is not None:
            T |= A.names_in(A.arg_of(c, 1))
    for c in A.calls_in(f.node, f.name):
        a0 = A.arg_of(c, 0, fp[0])
        if a0 is not None:
            T |= {x.id for x in ast.walk(a0) if isinstance(x, ast.Name)
                  and not any(isinstance(t, ast.Tuple) and x in t.elts
                              for t in ast.walk(a0))}
    T -= set(fp)
    for d in [x for lst in local_defs(f.node).values() for x in lst]:
        if d.name not in T or d.value is None or d.kind != 'assign':
            continue
        v = d.value
        if isinstance(v, ast.Name):
            continue        # inner = outer
        n += 1
        has_add = any(isinstance(x, ast.BinOp) and isinstance(x.op, ast.Add)
                      for x in ast.walk(v))
        ok = (not has_add) or (isinstance(v, ast.Call) and A.call_name(v)
                               == 'normalize_path')
        # order of the composition: base first, child key last
        comp = v.args[0] if isinstance(v, ast.Call) and v.args else v
        parts = []

        def flat(x):
            if isinstance(x, ast.BinOp) and isinstance(x.op, ast.Add):
                flat(x.left)
                flat(x.right)
            else:
                parts.append(x)
        flat(comp)
        if len(parts) >= 2:
            first_ok = A.unparse(parts[0]) in ({fp[0]} | T)
            childs = [i for i, x in enumerate(parts)
                      if isinstance(x, ast.Tuple) and len(x.elts) == 1]
            last_ok = not childs or childs == [len(parts) - 1]
            ck.require(first_ok and last_ok, 'R06.5', f, d.stmt,
                       'composition order: base (outer) + topology path + '
                       'child key',
                       'the target path is composed as %s: the reader '
                       'resolves base / topology path / child in that '
                       'order, so the port writes to a different node than '
                       'it reads' % A.unparse(comp), d.stmt)
        based = bool(A.names_in(v) & ({fp[0]} | T))
        ck.require(based, 'R06.5', f, d.stmt,
                   'the target path is composed from the place the update '
                   'is relative to (outer)',
                   'a target path is built without `outer`: the reader '
                   'resolves the same topology entry relative to the '
                   "process's parent, so the port would write to a "
                   'different node than it reads', d.stmt)
        ck.require(ok, 'R06.5', f, d.stmt,
                   'composed target path goes through normalize_path',
                   'a target path is composed without normalize_path: ".." '
                   'segments are read by walking up but written literally',
                   d.stmt)
    for c in A.calls_in(f.node, 'inverse_topology'):
        a0 = A.arg_of(c, 0, 'outer')
        if isinstance(a0, ast.BinOp):
            ok = all((isinstance(x, ast.Name) and x.id in T) or (
                isinstance(x, ast.Tuple) and len(x.elts) == 1)
                for x in (a0.left, a0.right))
            ck.require(ok, 'R06.5', f, c,
                       'recursive call extends an already normalised path '
                       'by a child key', None, c)
    ck.floor('R06.5', n, 3, 'composed target paths')
    from . import helpers as H3
    H3.normalize_path_shape(ck, 'R06.5')


def r06_6(ck):
    ck.rule('R06.6', 'a port keeps reading the node it writes after '
            'structural changes: views are marked expired by every '
            'structural operation, the flag is propagated and the views '
            'are rebuilt before the next invocation, per batch and per '
            'step layer (shared with C07 R07.1/R07.2 and C05 R05.3)')
    from . import c05, c07
    c07.r07_1(ck)
    c07.r07_2(ck)
    c05.r05_3(ck)
    for o in ck.obligations:
        if o['rule'] in ('R07.1', 'R07.2', 'R05.3'):
            o['rule'] = 'R06.6'
    for v in ck.violations:
        if v.rule in ('R07.1', 'R07.2', 'R05.3'):
            v.rule = 'R06.6'
    for r in ('R07.1', 'R07.2', 'R05.3'):
        ck.rules.pop(r, None)


def r06_7(ck, rule='R06.7'):
    ck.rule(rule, 'the inverted update owns its dictionaries: a dict-valued '
            'port update is merged into the inverse only as a structural '
            'copy, because later merges (second port wired to the same '
            'branch) write into the dictionaries already placed there - '
            'which must not be the ones the process returned')
    f = ck.fn('inverse_topology', 'library.topology')
    upd = A.params_of(f.node)[1]
    n = 0
    for c in A.calls_in(f.node, ('deep_merge', 'deep_merge_multi_update',
                                 'deep_merge_check'), nested=True):
        x = A.arg_of(c, 1)
        if x is None:
            continue
        st = c
        while not isinstance(st, ast.stmt):
            st = st._parent
        # does the merged value come out of the update?
        from_update = derives(f.node, x, lambda y: A.is_name(y, upd), at=st)
        if not from_update:
            continue
        n += 1
        fresh = False
        if isinstance(x, ast.Dict):
            # {key: scalar}: a new dictionary around a non-dict value
            fresh = True
        elif isinstance(x, ast.Call) and A.call_name(x) in (
                'deep_copy_internal', 'deepcopy'):
            fresh = True
        elif isinstance(x, ast.Name):
            ds = reaching(f.node).at(st, x.id)
            fresh = bool(ds) and all(
                isinstance(d.value, ast.Call) and A.call_name(d.value) in (
                    'deep_copy_internal', 'deepcopy') for d in ds)
        ck.require(fresh, rule, f, c,
                   'the dictionary merged into the inverse is a copy of the '
                   "process's update, not the update itself",
                   'a dictionary taken from the update returned by the '
                   'process (%s) is merged into the inverted update by '
                   'reference: when a second port is wired to the same '
                   'branch the merge writes into the update object of the '
                   'process (a process that reuses its update applies the '
                   'first port again and again)' % A.unparse(x), c)
    ck.floor(rule, n, 3, 'merges of update dictionaries into the inverse')
    from . import helpers as H2
    H2.deep_copy_internal_shape(ck, rule)
