"""Role finders: locate loops and values by what they are computed from, not
by what the locals happen to be called (a consistent rename of the locals of
a function must not change any verdict)."""

import ast

from .. import astutil as A
from ..dataflow import derives


def spec_field(fnode, expr, field, at, spec=None):
    """Does ``expr`` derive from ``<spec>['field']`` / ``<spec>.get('field')``
    (``spec``: the parameter holding the operation's specification; default:
    the first parameter after self)?"""
    if spec is None:
        ps = A.params_of(fnode)
        spec = ps[1] if len(ps) > 1 else None

    def pred(x):
        if isinstance(x, ast.Subscript) and A.is_name(x.value, spec) and \
                A.subscript_key(x) == field:
            return True
        if isinstance(x, ast.Call) and A.call_name(x) == 'get' and \
                A.is_name(A.call_receiver(x), spec) and x.args and \
                isinstance(x.args[0], ast.Constant) and \
                x.args[0].value == field:
            return True
        return False
    return derives(fnode, expr, pred, at=at)


def loops_over_field(fnode, field, spec=None):
    """for-loops of ``fnode`` whose iterable derives from <spec>['field']."""
    out = []
    for n in A.walk_no_nested(fnode):
        if isinstance(n, ast.For) and spec_field(fnode, n.iter, field, n,
                                                 spec):
            out.append(n)
    return out


def returned_names(fnode):
    """Names of locals that are returned (directly or inside a returned
    tuple)."""
    out = set()
    for r in A.walk_no_nested(fnode):
        if isinstance(r, ast.Return) and r.value is not None:
            if isinstance(r.value, ast.Name):
                out.add(r.value.id)
            elif isinstance(r.value, ast.Tuple):
                out |= {e.id for e in r.value.elts
                        if isinstance(e, ast.Name)}
    return out
