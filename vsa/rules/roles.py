"""Role finders: locate loops and values by what they are computed from, not
by what the locals happen to be called (a consistent rename of the locals of
a function must not change any verdict)."""

import ast

from .. import astutil as A
from ..dataflow import derives


def spec_field(fnode, expr, field, at, spec=None):
    """Does ``expr`` derive from ``<spec>['field']`` / ``<spec>.get('field')``
    (``spec``: the parameter holding the operation's specification; default:
    the first parameter after self)?"""
    if spec is None:
        ps = A.params_of(fnode)
        spec = ps[1] if len(ps) > 1 else None

    def pred(x):
        if isinstance(x, ast.Subscript) and A.is_name(x.value, spec) and \
                A.subscript_key(x) == field:
            return True
        if isinstance(x, ast.Call) and A.call_name(x) == 'get' and \
                A.is_name(A.call_receiver(x), spec) and x.args and \
                isinstance(x.args[0], ast.Constant) and \
                x.args[0].value == field:
            return True
        return False
    return derives(fnode, expr, pred, at=at)


def loops_over_field(fnode, field, spec=None):
    """for-loops of ``fnode`` whose iterable derives from <spec>['field']."""
    out = []
    for n in A.walk_no_nested(fnode):
        if isinstance(n, ast.For) and spec_field(fnode, n.iter, field, n,
                                                 spec):
            out.append(n)
    return out


def returned_names(fnode):
    """Names of locals that are returned (directly or inside a returned
    tuple)."""
    out = set()
    for r in A.walk_no_nested(fnode):
        if isinstance(r, ast.Return) and r.value is not None:
            if isinstance(r.value, ast.Name):
                out.add(r.value.id)
            elif isinstance(r.value, ast.Tuple):
                out |= {e.id for e in r.value.elts
                        if isinstance(e, ast.Name)}
    return out


def contributions(fnode, name):
    """What is put into the local list ``name``: [(expr, node, kind)] with
    kind 'extend' (expr is a sequence of elements: ``name.extend(E)``,
    ``name += E``, ``name = E`` for a non-empty E) or 'append' (expr is one
    element).  ``node`` is the call or statement, for positions/guards."""
    out = []
    for n in A.walk_no_nested(fnode):
        if isinstance(n, ast.Call) and A.call_name(n) in (
                'extend', 'append') and A.is_name(
                A.call_receiver(n), name) and n.args:
            out.append((n.args[0], n, A.call_name(n)))
        elif isinstance(n, ast.AugAssign) and isinstance(
                n.op, ast.Add) and A.is_name(n.target, name):
            out.append((n.value, n, 'extend'))
        elif isinstance(n, (ast.Assign, ast.AnnAssign)) and \
                n.value is not None and any(
                A.is_name(t, name) for t in (
                    n.targets if isinstance(n, ast.Assign)
                    else [n.target])):
            v = n.value
            if isinstance(v, (ast.List, ast.Tuple)):
                for e in v.elts:
                    out.append((e, n, 'append'))
            elif not (isinstance(v, ast.Constant) and v.value is None):
                out.append((v, n, 'extend'))
    return out
