"""C08 - updates are combined with the current value by the declared
updater."""

import ast

from .. import astutil as A
from ..cfg import cfg_of, within
from ..dataflow import derives, local_defs, reaching
from . import c06

EXPL = (
    'The updater table (public name -> function of arity 2, registered in '
    'vivarium/__init__.py), the symbolic shape of each built-in updater '
    '(set returns its 2nd parameter, null its 1st, accumulate p1 + p2 in '
    'that order, nonnegative_accumulate a value derived from p1 + p2 with a '
    'zero on the scalar negative path), key provenance of merge (copy of '
    'the current value, every key of the update assigned from the update), '
    'the four cases of dict_value, the selection logic of _get_updater '
    '(default accumulate, per-update _updater override), non-mutation of '
    "the caller's update (copy dominates every pop), units normalisation "
    'after every leaf update, and in-order application of multi-updates. '
    'Not decided: user updater functions and `+` on arbitrary value types.')

UPDATERS = {
    'accumulate': 'update_accumulate', 'set': 'update_set',
    'null': 'update_null', 'merge': 'update_merge',
    'nonnegative_accumulate': 'update_nonnegative_accumulate',
    'dict_value': 'update_dictionary'}


def check(ck):
    ck.explanation = EXPL
    ck.technique = ('registration-table agreement, symbolic return forms, '
                    'key provenance, parameter-mutation scan, CFG dominance '
                    'and must-pass-through')
    r08_1(ck)
    r08_2(ck)
    r08_3(ck)
    r08_4(ck)
    r08_5(ck)
    r08_6(ck)
    c06.r06_3(ck)
    r08_7(ck)
    r08_8(ck)
    c06.r06_7(ck, rule='R08.9')
    from . import c15
    c15.r15_9(ck, rule='R08.10')
    r08_11(ck)
    from . import helpers as H
    ck.rule('R08.12', 'deep_merge (used by the merge updater) keeps its recursion skeleton')
    H.deep_merge_shape(ck, 'R08.12')
    H.multi_update_collision_shape(ck, 'R08.12')
    H.target_not_rebound_by_truthiness(ck, 'R08.12', [
        ('deep_merge_multi_update', 'library.dict_utils'),
        ('deep_merge', 'library.dict_utils'),
        ('deep_merge_check', 'library.dict_utils'),
        ('deep_merge_combine_lists', 'library.dict_utils')])
    H.recursion_forwards(ck, 'R08.12', [
        ('inverse_topology', 'library.topology'),
        ('deep_merge_multi_update', 'library.dict_utils')])
    r08_13(ck)


def r08_13(ck, rule='R08.13'):
    ck.rule(rule, 'every port update is routed, whatever its value: in '
            'inverse_topology each path through the branch of a port that '
            'the update names reaches a call that writes it into the '
            'root-relative update (recursive call, update_in, assoc_path) '
            'before the next port - no value (empty, falsy) is skipped, the '
            'updater decides what an update means')
    f = ck.fn('inverse_topology', 'library.topology')
    cfg = cfg_of(f.node)
    ps = A.params_of(f.node)
    upd, topo = ps[1], ps[2]
    loops = [l for l in A.walk_no_nested(f.node) if isinstance(l, ast.For)
             and topo in A.names_in(l.iter)]
    ck.require(bool(loops), rule, f, f.node.name,
               'inverse_topology visits the topology entries', None)
    if not loops:
        return
    lp = loops[0]
    key = A.unparse(lp.target.elts[0]) if isinstance(
        lp.target, ast.Tuple) else A.unparse(lp.target)
    route = {cfg.node(c) for c in A.calls_in(lp, (
        'inverse_topology', 'update_in', 'assoc_path'))}
    route |= {cfg.node(s2) for s2 in A.walk_no_nested(lp)
              if isinstance(s2, ast.Raise)}
    route.discard(None)
    hdr = cfg.loops[id(lp)]['header']
    n = 0
    for test in A.walk_no_nested(lp):
        if not isinstance(test, ast.If):
            continue
        atoms = A.cond_atoms(test.test, True)
        if ('in', key, upd) not in atoms:
            continue
        n += 1
        src = cfg.node(test.body[0])
        ok = src is not None and (src in route or cfg.must_pass(
            src, hdr, route))
        ck.require(ok, rule, f, test,
                   'a port named in the update is always routed',
                   'some path through the branch of a port that the update '
                   'names writes nothing into the root-relative update: the '
                   'update for that port is dropped depending on its value '
                   '(an empty dictionary for a set-like variable is a legal '
                   'update)', test)
    ck.floor(rule, n, 1, 'port branches of inverse_topology')


def registrations(ck, registry):
    init = ck.repo.module('vivarium')
    out = {}
    for n in ast.walk(init.tree):
        if isinstance(n, ast.Call) and A.call_name(n) == 'register' and \
                A.is_name(A.call_receiver(n), registry) and len(n.args) == 2:
            k = n.args[0]
            if isinstance(k, ast.Constant):
                out.setdefault(k.value, []).append((n.args[1], n))
    return init, out


def r08_1(ck):
    ck.rule('R08.1', 'updater table: the six public names are registered to '
            'the intended two-parameter functions; _get_updater maps the '
            "default marker to 'accumulate' and honours update['_updater']")
    init, regs = registrations(ck, 'updater_registry')

    class _F:      # pseudo function info for the module-level table
        qual = 'vivarium/__init__.py'
        file = init.file
        lineno = 1
    for name, fn in sorted(UPDATERS.items()):
        got = regs.get(name, [])
        ok = len(got) == 1 and A.is_name(got[0][0], fn)
        ck.require(ok, 'R08.1', _F, "register('%s', ...)" % name,
                   "updater '%s' is registered to %s" % (name, fn),
                   "updater '%s' is registered to %s" % (
                       name, ', '.join(A.unparse(g[0]) for g in got)
                       or 'nothing'), got[0][1] if got else None)
        fi = ck.fn(fn, 'core.registry')
        ck.require(len(A.params_of(fi.node)) == 2, 'R08.1', fi, fi.node.name,
                   'updater takes (current value, update)', None)
        src = init.imports.get(fn)
        ck.require(src is not None and src[0].endswith('core.registry'),
                   'R08.1', _F, 'import of ' + fn,
                   fn + ' is the function defined in vivarium.core.registry',
                   fn + ' registered in __init__ is not the registry '
                   'function')
    gu = ck.fn('Store._get_updater', 'core.store')
    cfg = cfg_of(gu.node)
    upd = A.params_of(gu.node)[1]
    dflt = False
    for r in A.walk_no_nested(gu.node):
        if isinstance(r, ast.Return):
            g = cfg.guards(cfg.node(r))
            if any(a[0] == '==' and 'DEFAULT_SCHEMA' in a[1:] for a in g):
                v = r.value
                ok = isinstance(v, ast.Call) and A.call_name(v) == 'access' \
                    and v.args and isinstance(v.args[0], ast.Constant) and \
                    v.args[0].value == 'accumulate'
                dflt = True
                ck.require(ok, 'R08.1', gu, r,
                           "the default updater is 'accumulate'",
                           'the default updater is %s' % A.unparse(v), r)
    ck.require(dflt, 'R08.1', gu, gu.node.name,
               'the default marker is resolved to a registered updater',
               '_get_updater no longer resolves the default marker')
    over = False
    for s in A.walk_no_nested(gu.node):
        if isinstance(s, ast.Assign) and A.unparse(s.value) in (
                "%s['_updater']" % upd, "%s.get('_updater')" % upd):
            g = cfg.guards(cfg.node(s))
            if ('in', "'_updater'", upd) in g:
                over = True
    ck.require(over, 'R08.1', gu, gu.node.name,
               "an update carrying '_updater' overrides the declared updater",
               "the per-update '_updater' override is no longer honoured")
    # string updaters are looked up in the registry
    ok = any(isinstance(c, ast.Call) and A.call_name(c) == 'access' and
             c.args and not isinstance(c.args[0], ast.Constant)
             for c in A.calls_in(gu.node))
    ck.require(ok, 'R08.1', gu, gu.node.name,
               'a named updater is looked up in the updater registry', None)
    ac = ck.fn('Store._apply_config', 'core.store')
    ok = any(isinstance(s, ast.Assign) and A.unparse(s.targets[0]) ==
             'self.updater' and 'DEFAULT_SCHEMA' in A.unparse(s.value) and
             'self.updater or' in A.unparse(s.value)
             for s in A.walk_no_nested(ac.node))
    ck.require(ok, 'R08.1', ac, 'self.updater = self.updater or '
               'DEFAULT_SCHEMA',
               'a leaf without a declared updater gets the default marker',
               'leaf nodes no longer default their updater')


def _returns(fi):
    return [r for r in A.walk_no_nested(fi.node) if isinstance(r, ast.Return)]


def r08_2(ck):
    ck.rule('R08.2', 'shapes of the built-in updaters as symbolic return '
            'forms')
    f = ck.fn('update_set', 'core.registry')
    p = A.params_of(f.node)
    for r in _returns(f):
        ck.require(A.is_name(r.value, p[1]), 'R08.2', f, r,
                   'set returns the update', 'update_set returns %s' %
                   A.unparse(r.value), r)
    f = ck.fn('update_null', 'core.registry')
    p = A.params_of(f.node)
    for r in _returns(f):
        ck.require(A.is_name(r.value, p[0]), 'R08.2', f, r,
                   'null returns the current value', 'update_null returns '
                   '%s' % A.unparse(r.value), r)
    f = ck.fn('update_accumulate', 'core.registry')
    p = A.params_of(f.node)
    for r in _returns(f):
        v = r.value
        if isinstance(v, ast.Name):
            ds = reaching(f.node).at(r, v.id)
            if len(ds) == 1:
                v = next(iter(ds)).value
        ok = isinstance(v, ast.BinOp) and isinstance(v.op, ast.Add) and \
            A.is_name(v.left, p[0]) and A.is_name(v.right, p[1])
        ck.require(ok, 'R08.2', f, r,
                   'accumulate returns current + update (in that order)',
                   'update_accumulate returns %s' % A.unparse(r.value), r)
    f = ck.fn('update_nonnegative_accumulate', 'core.registry')
    p = A.params_of(f.node)
    cfg = cfg_of(f.node)

    def is_sum(x):
        return isinstance(x, ast.BinOp) and isinstance(x.op, ast.Add) and \
            A.is_name(x.left, p[0]) and A.is_name(x.right, p[1])
    rets = _returns(f)
    ck.require(bool(rets), 'R08.2', f, f.node.name, 'has returns', None)
    neg_zero = False
    for r in rets:
        ok = derives(f.node, r.value, is_sum, at=r)
        g = cfg.guards(cfg.node(r))
        zero = isinstance(r.value, ast.Constant) and r.value.value == 0 or (
            isinstance(r.value, ast.BinOp) and isinstance(
                r.value.op, ast.Mult) and any(
                isinstance(x, ast.Constant) and x.value == 0
                for x in (r.value.left, r.value.right)))
        negpath = any(a[0] == '<' and a[2] == '0' for a in g)
        arr = any(a[0] == 'isinstance' and 'ndarray' in a[2] for a in g)
        if negpath and not arr:
            neg_zero = neg_zero or zero
            ck.require(zero, 'R08.2', f, r,
                       'the scalar negative path returns a zero',
                       'nonnegative_accumulate returns %s when the sum is '
                       'negative' % A.unparse(r.value), r)
        else:
            ck.require(ok, 'R08.2', f, r,
                       'returns a value derived from current + update',
                       'nonnegative_accumulate returns %s, not derived from '
                       'the sum' % A.unparse(r.value), r)
            if not arr:
                ck.require(('<=', '0', A.unparse(r.value)) in g or
                           any(a[0] == '<=' and a[1] == '0' for a in g),
                           'R08.2', f, r,
                           'the sum is returned only when it is >= 0',
                           'the scalar sum is returned without the '
                           'non-negativity test', r)
    ck.require(neg_zero, 'R08.2', f, f.node.name,
               'there is a negative path returning zero',
               'nonnegative_accumulate has no negative-sum path that '
               'returns zero')
    # array path clips in place
    def neg_mask(e):
        # x < 0 in either spelling
        return any(isinstance(x, ast.Compare) and len(x.ops) == 1 and any(
            a[0] == '<' and a[2] == '0' for a in A.cond_atoms(x, True))
            for x in ast.walk(e))
    clip = any(isinstance(s, ast.Assign) and isinstance(
        s.targets[0], ast.Subscript) and isinstance(
        s.value, ast.Constant) and s.value.value == 0 and neg_mask(
        s.targets[0].slice) for s in A.walk_no_nested(f.node))
    ck.require(clip, 'R08.2', f, f.node.name,
               'array sums have their negative entries set to 0',
               'the array branch no longer clips negative entries')


def r08_3(ck):
    ck.rule('R08.3', 'merge key provenance: result starts as a copy of the '
            'current value, a loop over the update items assigns each of '
            'its keys from the update value on every path')
    f = ck.fn('update_merge', 'core.registry')
    cfg = cfg_of(f.node)
    cur, new = A.params_of(f.node)
    rets = _returns(f)
    res = rets[0].value if rets else None
    ck.require(isinstance(res, ast.Name), 'R08.3', f,
               rets[0] if rets else f.node.name,
               'merge returns the dictionary it built', None)
    if not isinstance(res, ast.Name):
        return
    rn = res.id
    inits = [d for d in local_defs(f.node).get(rn, [])]
    ok = len(inits) == 1 and isinstance(inits[0].value, ast.Call) and (
        (A.call_name(inits[0].value) in ('copy', 'deepcopy', 'dict') and
         cur in A.names_in(inits[0].value)))
    ck.require(ok, 'R08.3', f, inits[0].stmt if inits else rn,
               'the result starts as a copy of the current value (its keys '
               'are kept, the current value is not mutated)',
               'the merge result is not initialised as a copy of the '
               'current value')
    loops = [n for n in A.walk_no_nested(f.node) if isinstance(n, ast.For)]
    loop = None
    for lp in loops:
        if A.unparse(lp.iter) in (new + '.items()',):
            loop = lp
    ck.require(loop is not None, 'R08.3', f,
               loops[0] if loops else f.node.name,
               "the loop iterates the update's items: every key of the "
               'update reaches the result',
               'merge iterates %s instead of the update: keys only in the '
               'update are dropped and untouched keys are overwritten' % (
                   A.unparse(loops[0].iter) if loops else 'nothing'),
               loops[0] if loops else None)
    if loop is None:
        return
    k = A.unparse(loop.target.elts[0])
    v = A.unparse(loop.target.elts[1])
    stores = [s for s in A.walk_no_nested(loop) if isinstance(s, ast.Assign)
              and isinstance(s.targets[0], ast.Subscript) and A.is_name(
                  s.targets[0].value, rn)]
    ok = bool(stores) and cfg.must_pass(
        cfg.loops[id(loop)]['body_entry'], cfg.loops[id(loop)]['header'],
        {cfg.node(s) for s in stores})
    ck.require(ok, 'R08.3', f, loop,
               'every iteration assigns the key in the result',
               'a key of the update can be skipped by merge', loop)
    for s in stores:
        ok = A.unparse(s.targets[0].slice) == k and derives(
            f.node, s.value, lambda x: A.is_name(x, v), at=s)
        ck.require(ok, 'R08.3', f, s,
                   "the stored value derives from the update's value for "
                   'that key', 'merge stores %s under result[%s]' % (
                       A.unparse(s.value), A.unparse(s.targets[0].slice)), s)
        # no None from dict.get() without default
        for c in A.calls_in(s.value, 'get'):
            if len(c.args) == 1:
                ck.fail('R08.3', f, s,
                        'a value obtained from .get(key) without default is '
                        'stored into the result: absent keys become None', s)


MUTATORS = {'pop', 'popitem', 'update', 'clear', 'setdefault', 'append',
            'extend', 'insert', 'remove', 'sort', 'reverse'}


def mutations_of(fnode, name):
    out = []
    for n in A.walk_no_nested(fnode):
        if isinstance(n, (ast.Assign, ast.AugAssign)):
            for t in A.assigned_targets(n):
                if isinstance(t, ast.Subscript) and A.is_name(t.value, name):
                    out.append(n)
        elif isinstance(n, ast.Delete):
            for t in n.targets:
                if isinstance(t, ast.Subscript) and A.is_name(t.value, name):
                    out.append(n)
        elif isinstance(n, ast.Call) and A.call_name(n) in MUTATORS and \
                A.is_name(A.call_receiver(n), name):
            out.append(n)
    return out


def r08_4(ck):
    ck.rule('R08.4', "caller's update untouched: in Store.apply_update "
            'every pop/del/item store on the update is dominated by a '
            'rebinding to a fresh shallow copy; built-in updaters do not '
            'mutate their second parameter')
    f = ck.fn('Store.apply_update', 'core.store')
    cfg = cfg_of(f.node)
    upd = A.params_of(f.node)[1]
    copies = []
    for d in local_defs(f.node).get(upd, []):
        v = d.value
        if d.kind == 'assign' and isinstance(v, ast.Call) and (
                (A.call_name(v) == 'dict' and len(v.args) == 1 and A.is_name(
                    v.args[0], upd)) or
                (A.call_name(v) == 'copy' and (A.is_name(A.call_receiver(v),
                                                         upd) or (
                    v.args and A.is_name(v.args[0], upd))))):
            copies.append(cfg.node(d.stmt))
    muts = mutations_of(f.node, upd)
    ck.floor('R08.4', len(muts), 5, 'mutations of the update in '
             'apply_update')
    for m in muts:
        mn = cfg.node(m)
        ok = any(c is not None and cfg.dominates(c, mn) for c in copies)
        ck.require(ok, 'R08.4', f, m,
                   'mutation of the update is dominated by `update = '
                   'dict(update)`',
                   "the caller's update dictionary is mutated (%s) without "
                   'a prior copy' % A.short(m, 60), m)
    for fn in UPDATERS.values():
        fi = ck.fn(fn, 'core.registry')
        p2 = A.params_of(fi.node)[1]
        bad = mutations_of(fi.node, p2)
        ck.require(not bad, 'R08.4', fi, bad[0] if bad else fi.node.name,
                   'the updater does not mutate the update it is given',
                   '%s mutates its update argument' % fn,
                   bad[0] if bad else None)


def r08_5(ck):
    ck.rule('R08.5', 'units: after a leaf update the value is converted to '
            'the declared units on every normal path')
    f = ck.fn('Store.apply_update', 'core.store')
    cfg = cfg_of(f.node)
    assigns = [s for s in A.walk_no_nested(f.node)
               if isinstance(s, ast.Assign) and A.unparse(
                   s.targets[0]) == 'self.value' and isinstance(
                   s.value, ast.Call) and isinstance(
                   s.value.func, ast.Name) and any(
                   isinstance(d.value, ast.Call) and A.call_name(
                       d.value) == '_get_updater'
                   for d in local_defs(f.node).get(s.value.func.id, []))]
    ck.require(len(assigns) == 1, 'R08.5', f, f.node.name,
               'the leaf value is assigned from updater(self.value, update)',
               'leaf update no longer assigns self.value = updater(...)')
    if not assigns:
        return
    a = assigns[0]
    c = a.value
    ok = A.unparse(A.arg_of(c, 0)) == 'self.value' and A.is_name(
        A.arg_of(c, 1), A.params_of(f.node)[1])
    ck.require(ok, 'R08.5', f, a,
               'the updater is applied to (current value, update)',
               'updater called with %s' % A.unparse(c), a)
    upd_name = A.params_of(f.node)[1]
    valdep = []
    for cond, pol in cfg.guard_edges(cfg.node(a)):
        for x in ast.walk(cond):
            if not (isinstance(x, ast.Name) and x.id == upd_name):
                continue
            par = x._parent
            structural = False
            # isinstance(update, dict)
            if isinstance(par, ast.Call) and A.is_name(par.func,
                                                       'isinstance') and \
                    par.args and par.args[0] is x and 'dict' in A.unparse(
                        par.args[1]):
                structural = True
            # KEY in update / update.keys() / set(update.keys())
            if isinstance(par, ast.Compare) and isinstance(
                    par.ops[0], (ast.In, ast.NotIn)) and \
                    par.comparators[0] is x:
                structural = True
            if isinstance(par, ast.Attribute) and par.attr == 'keys':
                structural = True
            if not structural:
                valdep.append(A.unparse(cond))
    ck.require(not valdep, 'R08.5', f, a,
               'the updater is applied whatever the value of the update '
               '(0, False, "" and {} are updates too)',
               'the leaf update is skipped depending on the value of the '
               'update (`%s`): a `set` to 0 / False / "" would be lost' % (
                   valdep[0] if valdep else ''), a)
    conv = set()
    skip = set()
    for s in A.walk_no_nested(f.node):
        if isinstance(s, ast.Assign) and A.unparse(
                s.targets[0]) == 'self.value' and '.to(self.units)' in \
                A.unparse(s.value):
            g = cfg.guards(cfg.node(s))
            if ('truthy', 'self.units') in g:
                conv.add(cfg.node(s))
    for n, info in cfg.info.items():
        if info['kind'] == 'edge' and info.get('cond') is not None and \
                A.unparse(info['cond']) == 'self.units' and \
                info['pol'] is False:
            skip.add(n)
    rets = {cfg.node(r) for r in _returns(f)}
    an = cfg.node(a)
    after = {r for r in rets if r is not None and cfg.dominates(an, r)}
    ok = bool(conv) and bool(after) and cfg.must_pass(an, after, conv | skip)
    ck.require(ok, 'R08.5', f, a,
               'conversion to self.units post-dominates the assignment '
               '(when units are declared)',
               'a leaf with units can be left holding a value in other '
               'units: no .to(self.units) after the update', a)
    listconv = any(
        isinstance(x, (ast.ListComp, ast.For)) and 'self.value' in A.unparse(
            x.generators[0].iter if isinstance(x, ast.ListComp) else x.iter)
        for n in conv for x in ast.walk(cfg.info[n]['stmt']))
    ck.require(listconv and len(conv) >= 2, 'R08.5', f, a,
               'lists of quantities are converted element-wise and scalars '
               'directly', 'the units conversion lost its list or scalar '
               'branch', a)


def r08_6(ck):
    ck.rule('R08.6', 'dict_value case table: _add stores each added state '
            'under its key, _delete removes each listed key, an existing key '
            'is updated in place, anything else raises')
    f = ck.fn('update_dictionary', 'core.registry')
    cfg = cfg_of(f.node)
    cur, upd = A.params_of(f.node)
    loop = None
    for n in A.walk_no_nested(f.node):
        if isinstance(n, ast.For) and A.unparse(n.iter) == upd + '.items()':
            loop = n
    ck.require(loop is not None, 'R08.6', f, f.node.name,
               'dict_value visits every item of the update', None)
    if loop is None:
        return
    key = A.unparse(loop.target.elts[0])
    val = A.unparse(loop.target.elts[1])
    res_names = {cur} | {d.name for lst in local_defs(f.node).values()
                         for d in lst if d.kind == 'assign' and A.is_name(
                             d.value, cur)}
    found = {'add': False, 'delete': False, 'existing': False,
             'raise': False}
    for n in cfg.stmt_nodes():
        s = cfg.info[n]['stmt']
        if s is None or not within(s, loop):
            continue
        g = cfg.guards(n)
        if ('==', "'_add'", key) in g and isinstance(s, ast.Assign) and \
                isinstance(s.targets[0], ast.Subscript) and A.unparse(
                    s.targets[0].value) in res_names:
            lp = _loop(s, loop)
            ok = lp is not None and A.is_name(lp.iter, val)
            found['add'] = ok
        if ('==', "'_delete'", key) in g and isinstance(s, ast.Delete) and \
                A.unparse(s.targets[0].value) in res_names:
            lp = _loop(s, loop)
            ok = lp is not None and A.is_name(lp.iter, val) and A.unparse(
                s.targets[0].slice) == A.unparse(lp.target)
            found['delete'] = ok
        if ('==', "'_delete'", key) in g and isinstance(
                s, ast.Expr) and isinstance(s.value, ast.Call) and \
                A.call_name(s.value) == 'pop' and A.unparse(
                    A.call_receiver(s.value)) in res_names:
            found['delete'] = True
        if any(a[0] == 'in' and a[1] == key and a[2] in res_names
               for a in g) and isinstance(s, ast.Expr) and isinstance(
                s.value, ast.Call) and A.call_name(s.value) == 'update' \
                and A.is_name(A.arg_of(s.value, 0), val):
            found['existing'] = True
        if isinstance(s, ast.Raise) and any(
                a[0] == 'notin' and a[1] == key for a in g):
            found['raise'] = True
    for case, ok in sorted(found.items()):
        ck.require(ok, 'R08.6', f, "dict_value case '%s'" % case,
                   'case performs its effect',
                   "dict_value no longer handles the '%s' case" % case, loop)
    for r in _returns(f):
        ck.require(isinstance(r.value, ast.Name) and r.value.id in res_names,
                   'R08.6', f, r, 'returns the updated dictionary', None, r)


def _loop(x, stop):
    p = x._parent
    while p is not None and p is not stop:
        if isinstance(p, ast.For):
            return p
        p = getattr(p, '_parent', None)
    return None


def r08_7(ck):
    ck.rule('R08.7', 'selecting an updater does not change the store: '
            '_get_updater (and _get_divider) assign no attribute, so a '
            'per-update _updater override never replaces the declared '
            'updater; colliding updates of several ports stay separate '
            'updates (shared with C06 R06.2)')
    r08_7_lookup(ck)
    c06.r06_2(ck)
    for o in ck.obligations:
        if o['rule'] == 'R06.2':
            o['rule'] = 'R08.7'
    for v in ck.violations:
        if v.rule == 'R06.2':
            v.rule = 'R08.7'
    ck.rules.pop('R06.2', None)


def r08_7_lookup(ck, rule='R08.7'):
    """_get_updater / _get_divider are pure lookups."""
    if rule not in ck.rules:
        ck.rule(rule, 'selecting an updater does not change the store: '
                '_get_updater (and _get_divider) assign no attribute')
    for q in ('Store._get_updater', 'Store._get_divider'):
        f = ck.fn(q, 'core.store')
        writes = [n for n in ast.walk(f.node)
                  if isinstance(n, (ast.Assign, ast.AugAssign,
                                    ast.AnnAssign, ast.NamedExpr)) and any(
                      isinstance(t, (ast.Attribute, ast.Subscript))
                      for t in (A.assigned_targets(n) if not isinstance(
                          n, ast.NamedExpr) else [n.target]))]
        writes += [c for c in A.calls_in(f.node, ('setattr',))]
        ck.require(not writes, rule, f,
                   writes[0] if writes else f.node.name,
                   q + ' is a pure lookup',
                   '%s stores into the node (%s): an updater named in one '
                   'update would replace the declared updater for all later '
                   'updates' % (q, A.short(writes[0], 60) if writes else ''),
                   writes[0] if writes else None)


# in-place by design, one reason each
INPLACE_UPDATERS = {
    'update_dictionary': 'dict_value is documented to operate on the '
                         'current dictionary itself (result = current)',
}


def r08_8(ck, rule='R08.8'):
    ck.rule(rule, 'the built-in updaters build a new value and leave the '
            'current one alone (no in-place mutation of their first '
            'parameter, nested merges only into deep copies): values that '
            'are shared - by the set divider between daughters, or handed '
            'out through a view - stay stable')
    for fn in sorted(UPDATERS.values()):
        fi = ck.fn(fn, 'core.registry')
        p1 = A.params_of(fi.node)[0]
        if fn in INPLACE_UPDATERS:
            ck.ok(rule, fi, fi.node.name,
                  'frozen exception: ' + INPLACE_UPDATERS[fn])
            continue
        bad = mutations_of(fi.node, p1)
        bad += [n for n in A.walk_no_nested(fi.node)
                if isinstance(n, ast.AugAssign) and A.is_name(n.target, p1)]
        # numpy-style in-place results: f(..., out=current)
        bad += [c for c in A.calls_in(fi.node)
                if any(k.arg == 'out' and p1 in A.names_in(k.value)
                       for k in c.keywords)]
        # item / slice stores into the current value
        bad += [n for n in A.walk_no_nested(fi.node)
                if isinstance(n, ast.Assign) and any(
                    isinstance(t, ast.Subscript) and A.is_name(t.value, p1)
                    for t in n.targets) and n not in bad]
        ck.require(not bad, rule, fi, bad[0] if bad else fi.node.name,
                   'the current value is not modified in place',
                   '%s modifies the current value in place (%s): an object '
                   'that is also referenced elsewhere (the sister daughter '
                   'after a set division, an update that aliases a viewed '
                   'value) changes behind its back' % (
                       fn, A.short(bad[0], 50) if bad else ''),
                   bad[0] if bad else None)
        for c in A.calls_in(fi.node, ('deep_merge', 'deep_merge_check',
                                      'deep_merge_multi_update')):
            a0 = A.arg_of(c, 0)
            fresh = derives(fi.node, a0, lambda x: isinstance(
                x, ast.Call) and A.call_name(x) == 'deepcopy', at=c)
            ck.require(fresh, rule, fi, c,
                       'a nested merge goes into a deep copy of the current '
                       'sub-dictionary',
                       '%s merges into %s, a sub-dictionary of the current '
                       'value, in place' % (fn, A.unparse(a0)), c)


def r08_11(ck, rule='R08.11'):
    ck.rule(rule, "an update that names its updater carries its value under "
            "'_value' and that value is used as it is: update.get('_value', "
            'self.default) - never filtered by truthiness (0, False, "" and '
            '[] are values)')
    f = ck.fn('Store.apply_update', 'core.store')
    upd = A.params_of(f.node)[1]
    hit = False
    for s2 in A.walk_no_nested(f.node):
        if isinstance(s2, ast.Assign) and A.is_name(s2.targets[0], upd) and \
                "'_value'" in A.unparse(s2.value):
            hit = True
            v = s2.value
            ok = isinstance(v, ast.Call) and A.call_name(v) == 'get' and \
                A.is_name(A.call_receiver(v), upd) and len(v.args) == 2 and \
                isinstance(v.args[0], ast.Constant) and \
                v.args[0].value == '_value' and A.unparse(
                    v.args[1]) == 'self.default'
            ck.require(ok, rule, f, s2,
                       "the value is update.get('_value', self.default)",
                       "the '_value' of an update is taken as `%s`: a falsy "
                       'value (0, False, "", []) is replaced by the '
                       "variable's default" % A.unparse(v), s2)
    ck.require(hit, rule, f, "'_value' handling",
               "apply_update unwraps {'_value': .., '_updater': ..} updates",
               "the '_value' form of an update is no longer unwrapped")
