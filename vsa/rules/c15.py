"""C15 - every declared variable is built with its explicit or default
initial value."""

import ast

from .. import astutil as A
from ..cfg import cfg_of, within
from ..dataflow import derives, local_defs, reaching

EXPL = (
    'Ordering of the construction steps, the None-guard of defaults and '
    'the routing of conflicts: Store.generate establishes paths for '
    'processes and steps and applies sub-schemas before set_value(initial '
    'state), which precedes apply_defaults on the same target; defaults '
    'are installed only under `value is None` (never by truthiness); '
    'set_value creates missing children of a glob node from the '
    'sub-schema; _units, _serializer and _value are assigned from '
    '_check_schema, whose mismatch path raises, and _default from '
    '_check_default whenever the key is present; generate_state and '
    'Engine._make_store pass the four parts under their own names; the '
    'composite state is built through inverse_topology with '
    'multi_updates=False, merging process states first and the explicit '
    'state last; Process.default_state prefers a declared _default. Not '
    'decided: the resulting values for all composites.')


def check(ck):
    ck.explanation = EXPL
    ck.technique = ('CFG dominance ordering, guard-atom checks (None vs '
                    'truthiness), argument provenance, swapped-argument '
                    'detector')
    r15_1(ck)
    r15_2(ck)
    r15_3(ck)
    r15_4(ck)
    r15_5(ck)
    r15_6(ck)
    r15_7(ck)
    r15_9(ck)
    r15_10(ck)
    from . import helpers as H
    ck.rule('R15.11', 'deep_merge and hierarchy_depth, with which declarations and initial states are combined, keep their recursion skeleton')
    H.deep_merge_shape(ck, 'R15.11')
    from . import c06, c16
    ck.shared('R15.12', 'a variable is built where its port is wired and '
              'from the schema the process has: only a port that the '
              'topology omits gets the default path (an empty path is a '
              'wiring, not an omission), and get_schema merges the '
              'overrides the process holds - for a parallel process the '
              'ones held by the child, read through the property',
              c06.r06_1, c16.r16_7)
    H.hierarchy_depth_shape(ck, 'R15.11')
    r15_13(ck)
    r15_15(ck)
    from . import c06 as _c06
    _c06.r06_7(ck, rule='R15.16')
    _c06.r06_13(ck, rule='R15.17')
    ck.rule('R15.14', 'recursions hand their mode parameters on: '
            '_get_composite_state_recur (state_type, config), deep_compare '
            'and deep_merge_check (conflict detection of declarations) '
            'pass every defaulted parameter they read to the recursive '
            'call')
    H.recursion_forwards(ck, 'R15.14', [
        ('_get_composite_state_recur', 'core.composer'),
        ('deep_compare', 'library.dict_utils'),
        ('deep_merge_check', 'library.dict_utils'),
        ('deep_merge', 'library.dict_utils')])


def r15_15(ck):
    ck.rule('R15.15', 'two declarations of a dictionary value conflict '
            'when either has a key the other lacks: deep_compare looks at '
            'the keys of BOTH dictionaries (symmetric difference, equality '
            'of the key sets, or a membership test in each direction)')
    f = ck.fn('deep_compare', 'library.dict_utils')
    p1, p2 = A.params_of(f.node)[:2]

    def mentions(e, p):
        return any(isinstance(x, ast.Name) and x.id == p
                   for x in ast.walk(e))
    sym = False
    for n in ast.walk(f.node):
        if isinstance(n, ast.BinOp) and isinstance(n.op, ast.BitXor):
            if (mentions(n.left, p1) and mentions(n.right, p2)) or (
                    mentions(n.left, p2) and mentions(n.right, p1)):
                sym = True
        if isinstance(n, ast.Compare) and len(n.ops) == 1 and isinstance(
                n.ops[0], (ast.Eq, ast.NotEq)):
            l, r = n.left, n.comparators[0]
            keyish = lambda e: any(  # noqa: E731
                isinstance(x, ast.Call) and A.call_name(x) in (
                    'keys', 'set', 'len', 'sorted') for x in ast.walk(e))
            if keyish(l) and keyish(r) and (
                    (mentions(l, p1) and mentions(r, p2)) or
                    (mentions(l, p2) and mentions(r, p1))):
                sym = True
    # or: a membership test in each direction
    dirs = set()
    for n in ast.walk(f.node):
        if isinstance(n, ast.Compare) and len(n.ops) == 1 and isinstance(
                n.ops[0], (ast.In, ast.NotIn)):
            c0 = n.comparators[0]
            if mentions(c0, p1):
                dirs.add(1)
            if mentions(c0, p2):
                dirs.add(2)
    ck.require(sym or dirs == {1, 2}, 'R15.15', f, f.node.name,
               'the key sets are compared in both directions',
               'deep_compare only notices keys of `%s` that `%s` lacks: a '
               'later declaration that is a strict superset of an earlier '
               'one (an empty dict against any dict) is accepted silently '
               'instead of raising the conflict' % (
                   p1 if 2 in dirs else p2, p2 if 2 in dirs else p1))


def r15_13(ck):
    ck.rule('R15.13', 'the composite state visits processes AND steps: a '
            'nested branch that exists in both dictionaries is descended '
            'into with both sub-dictionaries (the recursive call receives '
            'the processes found under the key and the steps found under '
            'the key), so initial values contributed only by steps of a '
            'nested compartment are not lost')
    f = ck.fn('_get_composite_state_recur', 'core.composer')
    ps = A.params_of(f.node)
    procs, steps = ps[0], ps[1]
    rec = [c for c in A.calls_in(f.node, f.node.name)]
    ck.require(bool(rec), 'R15.13', f, f.node.name,
               'nested branches are descended into recursively', None)

    def lookup_of(param):
        def pred(x):
            return (isinstance(x, ast.Call) and A.call_name(x) == 'get'
                    and A.is_name(A.call_receiver(x), param)) or (
                isinstance(x, ast.Subscript) and A.is_name(x.value, param))
        return pred
    for c in rec:
        a0, a1 = A.arg_of(c, 0, procs), A.arg_of(c, 1, steps)
        for a, param, other in ((a0, procs, steps), (a1, steps, procs)):
            ok = a is not None and not (isinstance(a, ast.Constant)
                                        and a.value is None) and derives(
                f.node, a, lookup_of(param), at=c) and not derives(
                f.node, a, lookup_of(other), at=c)
            ck.require(ok, 'R15.13', f, c,
                       "the recursion receives the sub-branch of '%s' as "
                       "its %s" % (param, param),
                       "the recursive call is handed %s as `%s`: when a "
                       'nested branch exists under the same key in both '
                       'the processes and the steps dictionary, one of the '
                       'two sub-branches is not visited and the initial '
                       'state its processes contribute is dropped' % (
                           A.unparse(a) if a is not None else 'nothing',
                           param), c)
    # a key is a nested branch / a process when EITHER dictionary says so
    cfg = cfg_of(f.node)

    def from_lookup(e, param, at):
        return derives(f.node, e, lookup_of(param), at=at)
    for c in rec:
        st = c
        while st is not None and not isinstance(st, ast.If):
            st = getattr(st, '_parent', None)
        if st is None:
            continue
        names = [x for x in ast.walk(st.test) if isinstance(x, ast.Name)]
        ok = any(from_lookup(x, procs, st) for x in names) and any(
            from_lookup(x, steps, st) for x in names)
        ck.require(ok, 'R15.13', f, st.test,
                   'the nested-branch test looks at the processes entry '
                   'and at the steps entry',
                   'a key counts as a nested branch only by `%s`: a branch '
                   'that exists only among the steps (or only among the '
                   'processes) is not descended into' % A.short(
                       st.test, 60), st)
    for c in A.calls_in(f.node, ('initial_state', 'default_state')):
        r = A.call_receiver(c)
        if r is None or A.is_name(r, 'self'):
            continue
        ok = from_lookup(r, procs, c) and from_lookup(r, steps, c)
        ck.require(ok, 'R15.13', f, c,
                   'the process asked for its state is the processes entry '
                   'or, failing that, the steps entry',
                   'the node asked for its state (%s) comes from one of the '
                   'two dictionaries only: a step (or a process) at that '
                   'key contributes no initial state' % A.unparse(r), c)
    # every key of both dictionaries is visited
    loops = [l for l in A.walk_no_nested(f.node) if isinstance(l, ast.For)]
    ok = any(derives(f.node, l.iter, lambda x: isinstance(x, ast.Name)
                     and x.id == procs, at=l) and
             derives(f.node, l.iter, lambda x: isinstance(x, ast.Name)
                     and x.id == steps, at=l) for l in loops)
    ck.require(ok, 'R15.13', f, loops[0] if loops else f.node.name,
               'the keys of both dictionaries are visited',
               'the loop of _get_composite_state_recur no longer runs over '
               'the keys of processes and steps')


def r15_1(ck):
    ck.rule('R15.1', 'Store.generate: paths for processes and steps and '
            'sub-schemas precede set_value(initial_state), which precedes '
            'apply_defaults, all on the same target')
    f = ck.fn('Store.generate', 'core.store')
    cfg = cfg_of(f.node)
    p = A.params_of(f.node)
    est = [c for c in A.calls_in(f.node, '_establish_path')]
    ck.require(len(est) == 1 and A.is_name(A.arg_of(est[0], 0), p[1]),
               'R15.1', f, est[0] if est else f.node.name,
               'the subtree is generated at the given path', None)
    tgt = None
    if est:
        st = est[0]
        while not isinstance(st, ast.stmt):
            st = st._parent
        if isinstance(st, ast.Assign) and isinstance(
                st.targets[0], ast.Name):
            tgt = st.targets[0].id
    seq = []
    for name in ('_generate_paths', '_apply_subschemas', 'set_value',
                 'apply_defaults'):
        cs = [c for c in A.calls_in(f.node, name)
              if tgt and A.is_name(A.call_receiver(c), tgt)]
        seq.append((name, cs))
        ck.require(bool(cs), 'R15.1', f, name,
                   'generate calls target.%s' % name,
                   'Store.generate no longer calls %s on the generated '
                   'node' % name)
    gp = seq[0][1]
    ok = len(gp) == 2 and {A.unparse(A.arg_of(c, 0, 'processes'))
                           for c in gp} == {p[2], p[3]}
    ck.require(ok, 'R15.1', f, gp[0] if gp else '_generate_paths',
               'paths are generated for the processes and for the steps',
               'paths are not generated for both processes and steps')
    for c in gp:
        ok = A.is_name(A.arg_of(c, 1, 'flow'), p[4]) and A.is_name(
            A.arg_of(c, 2, 'topology'), p[5])
        ck.require(ok, 'R15.1', f, c,
                   '_generate_paths receives (.., flow, topology)',
                   '_generate_paths is handed %s' % A.unparse(c), c)
    order = [cs for _, cs in seq if cs]
    flat = []
    for cs in order:
        flat.append([cfg.node(c) for c in cs])
    names = [n for n, cs in seq if cs]
    for i in range(len(flat) - 1):
        ok = all(cfg.dominates(a, b) for a in flat[i] for b in flat[i + 1])
        ck.require(ok, 'R15.1', f, '%s before %s' % (names[i], names[i + 1]),
                   '%s precedes %s' % (names[i], names[i + 1]),
                   '%s does not precede %s in Store.generate: %s' % (
                       names[i], names[i + 1],
                       'children created by set_value under glob nodes '
                       'would miss their defaults, or explicit values '
                       'would be replaced by defaults'
                       if 'set_value' in (names[i], names[i + 1]) else
                       'the declared structure is incomplete when the '
                       'initial state is applied'))
    sv = seq[2][1]
    if sv:
        ck.require(A.is_name(A.arg_of(sv[0], 0), p[6]), 'R15.1', f, sv[0],
                   'the value installed is the given initial state', None,
                   sv[0])
    gs = ck.fn('generate_state', 'core.store')
    for c in A.calls_in(gs.node, 'generate'):
        _name_agreement(ck, 'R15.1', gs, c, f)
    ok = any(A.call_name(c) == 'build_topology_views'
             for c in A.calls_in(gs.node))
    ck.require(ok, 'R15.1', gs, gs.node.name,
               'views are built once the state is generated', None)


def _name_agreement(ck, rule, fi, call, callee):
    """Swapped-argument detector (G1): an argument whose terminal name
    equals the name of a *different* parameter of the callee."""
    params = A.params_of(callee.node)
    if callee.cls:
        params = params[1:]
    pairs = list(zip(params, call.args)) + [
        (kw.arg, kw.value) for kw in call.keywords if kw.arg]
    for p, a in pairs:
        term = None
        if isinstance(a, ast.Name):
            term = a.id
        elif isinstance(a, ast.Attribute):
            term = a.attr
        elif isinstance(a, ast.Subscript) and isinstance(
                a.slice, ast.Constant):
            term = a.slice.value
        if term is None:
            continue
        term_n = str(term).lstrip('_')
        ok = not (term_n in params and term_n != p)
        ck.require(ok, rule, fi, call,
                   'argument %s is passed for parameter %s' % (term_n, p),
                   'argument `%s` is passed in the position of parameter '
                   '`%s` of %s (swapped arguments)' % (
                       A.unparse(a), p, callee.qual), call)


def r15_2(ck):
    ck.rule('R15.2', 'defaults never override: apply_defaults and '
            'generate_value assign only under `self.value is None`')
    for q in ('Store.apply_defaults', 'Store.generate_value'):
        f = ck.fn(q, 'core.store')
        cfg = cfg_of(f.node)
        n = 0
        for s in A.walk_no_nested(f.node):
            if isinstance(s, ast.Assign) and A.unparse(
                    s.targets[0]) == 'self.value':
                n += 1
                g = cfg.guards(cfg.node(s))
                ok = ('is', 'self.value', 'None') in g
                ck.require(ok, 'R15.2', f, s,
                           'the value is filled in only when it is None',
                           '%s assigns under %s instead of `self.value is '
                           'None`: an explicit 0, False, "" or {} would be '
                           'replaced by the default' % (q, sorted(
                               a for a in g if 'self.value' in str(a))), s)
        ck.require(n >= 1, 'R15.2', f, f.node.name,
                   q + ' installs a value on leaves', None)
    ad = ck.fn('Store.apply_defaults', 'core.store')
    ok = any(isinstance(s, ast.Assign) and A.unparse(s.targets[0]) ==
             'self.value' and A.unparse(s.value) == 'self.default'
             for s in A.walk_no_nested(ad.node)) and any(
        A.call_name(c) == 'apply_defaults' and not A.is_name(
            A.call_receiver(c), 'self') for c in A.calls_in(ad.node))
    ck.require(ok, 'R15.2', ad, ad.node.name,
               'apply_defaults installs self.default and recurses into '
               'every child', 'apply_defaults no longer installs the '
               'declared default on every leaf')


def r15_3(ck):
    ck.rule('R15.3', 'set_value creates missing children of a node with a '
            'sub-schema from that sub-schema and sets every given child')
    f = ck.fn('Store.set_value', 'core.store')
    cfg = cfg_of(f.node)
    creates = [s for s in A.walk_no_nested(f.node)
               if isinstance(s, ast.Assign) and isinstance(
                   s.targets[0], ast.Subscript) and A.unparse(
                   s.targets[0].value) == 'self.inner']
    ok = False
    for s in creates:
        g = cfg.guards(cfg.node(s))
        v = s.value
        ok = ('truthy', 'self.subschema') in g and any(
            a[0] == 'notin' and a[2] == 'self.inner' for a in g) and \
            isinstance(v, ast.Call) and A.is_name(v.func, 'Store') and \
            A.unparse(A.arg_of(v, 0)) == 'self.subschema'
    ck.require(ok, 'R15.3', f, creates[0] if creates else f.node.name,
               'a child named in the state of a glob node is created from '
               'the declared sub-schema',
               'set_value no longer creates the children named in the '
               'initial state of a glob port')
    rec = [c for c in A.calls_in(f.node, 'set_value')
           if not A.is_name(A.call_receiver(c), 'self')]
    ok = bool(rec) and any(
        any(a[0] == 'in' and a[2] == 'self.inner'
            for a in cfg.guards(cfg.node(c))) for c in rec)
    if not ok and rec:
        # guard-clause form: the call is reached for every key except those
        # skipped by a `continue` under "not a child (and nothing to create
        # it from)"
        conts = [x for x in A.walk_no_nested(f.node)
                 if isinstance(x, ast.Continue)]
        ok = all(A.unparse(A.call_receiver(c)).startswith('self.inner[')
                 for c in rec) and all(
            any(a[0] == 'notin' and a[2] == 'self.inner'
                for a in cfg.guards(cfg.node(x))) for x in conts) and not any(
            a[0] == 'notin' and a[2] == 'self.inner'
            for c in rec for a in cfg.guards(cfg.node(c)))
    ck.require(ok, 'R15.3', f, rec[0] if rec else f.node.name,
               'every child present receives its part of the state', None)
    leaf = [s for s in A.walk_no_nested(f.node) if isinstance(s, ast.Assign)
            and A.unparse(s.targets[0]) == 'self.value']
    ok = bool(leaf) and A.is_name(leaf[0].value, A.params_of(f.node)[1])
    ck.require(ok, 'R15.3', f, leaf[0] if leaf else f.node.name,
               'a leaf takes the given value as is', None)
    # glob ports: children get defaults in _topology_ports / apply_subschema
    asub = ck.fn('Store._apply_subschema', 'core.store')
    ok = any(A.call_name(c) == '_topology_ports'
             for c in A.calls_in(asub.node))
    ck.require(ok, 'R15.3', asub, asub.node.name,
               '_apply_subschema distributes the sub-schema to all children',
               None)


def r15_4(ck):
    ck.rule('R15.4', 'conflict routing: _units, _serializer and _value are '
            'assigned from _check_schema (whose mismatch path raises) and '
            '_default from _check_default whenever the key is present')
    f = ck.fn('Store._apply_config', 'core.store')
    cfg = cfg_of(f.node)
    for key, attr, checker in (("'_units'", 'self.units', '_check_schema'),
                               ("'_serializer'", 'self.serializer',
                                '_check_schema'),
                               ("'_value'", 'self.value', '_check_schema'),
                               ("'_default'", 'self.default',
                                '_check_default')):
        found = False
        for s in A.walk_no_nested(f.node):
            if not (isinstance(s, ast.Assign) and A.unparse(
                    s.targets[0]) == attr):
                continue
            g = cfg.guards(cfg.node(s))
            if ('in', key, 'config') not in g:
                continue
            # the first assignment in the block for that key
            blk = s._parent
            if not (isinstance(blk, ast.If) and A.unparse(blk.test) ==
                    '%s in config' % key):
                continue
            found = True
            v = s.value
            ok = isinstance(v, ast.Call) and A.call_name(v) == checker and \
                A.is_name(A.call_receiver(v), 'self')
            ck.require(ok, 'R15.4', f, s,
                       '%s is assigned from self.%s(...)' % (attr, checker),
                       '%s is assigned without %s: an incompatible '
                       'declaration by another process would silently win'
                       % (attr, checker), s)
            extra = {a for a in g if a != ('in', key, 'config') and
                     'self.' in str(a[1:]) and attr in str(a)}
            ck.require(not extra, 'R15.4', f, s,
                       'the declaration is processed whenever the key is '
                       'present',
                       '%s is only processed under %s: later declarations '
                       'are ignored instead of merged/checked' % (
                           key, sorted(extra)), s)
        ck.require(found, 'R15.4', f, attr + ' from ' + key,
                   'the %s key of a leaf config is processed' % key,
                   'the %s key is no longer processed by _apply_config'
                   % key)
    cs = ck.fn('Store._check_schema', 'core.store')
    c2 = cfg_of(cs.node)
    raises_ = [r for r in A.walk_no_nested(cs.node) if isinstance(r, ast.Raise)]
    csp = A.params_of(cs.node)
    cur_names = {nm for nm, ds in local_defs(cs.node).items()
                 if any(isinstance(d.value, ast.Call) and A.call_name(
                     d.value) == 'getattr' and A.is_name(
                     A.arg_of(d.value, 0), 'self') for d in ds)}
    eq_names = {nm for nm, ds in local_defs(cs.node).items()
                if ds and all(d.value is not None and (
                    A.names_in(d.value) & cur_names) and csp[2] in
                    A.names_in(d.value) for d in ds)}
    ok = any(any(a[0] == 'falsy' and a[1] in eq_names
                 for a in c2.guards(c2.node(r))) and any(
        a[0] == 'isnot' and a[2] == 'None' and a[1] in cur_names
        for a in c2.guards(c2.node(r))) for r in raises_)
    ck.require(ok, 'R15.4', cs, cs.node.name,
               '_check_schema raises when an existing value differs from '
               'the new one', '_check_schema no longer raises on a '
               'mismatch')
    # the units special case re-hashes and accepts only EQUAL units
    for r in A.walk_no_nested(cs.node):
        if isinstance(r, ast.Return):
            g = c2.guards(c2.node(r))
            if any(a[0] == '==' and "'units'" in ' '.join(map(str, a[1:]))
                   .replace('"', "'") for a in g):
                ok = any(('==',) + tuple(sorted((c_, csp[2]))) in g
                         for c_ in cur_names)
                ck.require(ok, 'R15.4', cs, r,
                           'differing unit objects are accepted only when '
                           'they compare equal after re-hashing',
                           'units that merely differ are accepted under %s: '
                           'incompatible unit declarations of two processes '
                           'are merged silently' % sorted(
                               a for a in g if csp[2] in str(a)), r)
    rets = [r for r in A.walk_no_nested(cs.node) if isinstance(r, ast.Return)]
    p = A.params_of(cs.node)[2]
    ck.require(bool(rets) and all(A.is_name(r.value, p) for r in rets),
               'R15.4', cs, cs.node.name,
               '_check_schema returns the new value', None)
    # leaf/branch exclusivity
    ok = any(isinstance(r, ast.Raise) and ('truthy', 'self.inner') in
             cfg.guards(cfg.node(r)) for r in A.walk_no_nested(f.node))
    ck.require(ok, 'R15.4', f, 'leaf values on a branch',
               'assigning leaf schema keys to a branch node raises', None)


def r15_5(ck):
    ck.rule('R15.5', 'composite state: inverse_topology with the parent '
            'path and multi_updates=False; process states merged first, '
            'the explicit initial state last')
    f = ck.fn('_get_composite_state_recur', 'core.composer')
    calls = [c for c in A.calls_in(f.node, 'inverse_topology')]
    ck.require(len(calls) == 1, 'R15.5', f, f.node.name,
               'process states are mapped through inverse_topology', None)
    for c in calls:
        mu = A.arg_of(c, 4, 'multi_updates')
        ok = isinstance(mu, ast.Constant) and mu.value is False
        ck.require(ok, 'R15.5', f, c,
                   'initial/default states are built without multi-updates',
                   'the composite state is built with multi_updates on: '
                   'two ports of one process wired to one store would '
                   'leave a _multi_update marker in the initial state', c)
        p = A.params_of(f.node)
        a1, a2 = A.arg_of(c, 1, 'update'), A.arg_of(c, 2, 'topology')
        ok = A.is_name(A.arg_of(c, 0, 'outer'), 'path') and \
            a1 is not None and a2 is not None and derives(
                f.node, a1, lambda x: isinstance(x, ast.Call) and
                A.call_name(x) in ('initial_state', 'default_state'),
                at=c) and derives(
                f.node, a2, lambda x: isinstance(x, ast.Call) and
                A.call_name(x) == 'get' and A.is_name(
                    A.call_receiver(x), p[2]), at=c)
        ck.require(ok, 'R15.5', f, c,
                   'called with (parent path, process state, its topology)',
                   None, c)
    ok = any(A.call_name(c) == 'initial_state' for c in A.calls_in(f.node)) \
        and any(A.call_name(c) == 'default_state'
                for c in A.calls_in(f.node))
    ck.require(ok, 'R15.5', f, f.node.name,
               "each process's own initial_state()/default_state() is "
               'consulted', None)
    g = ck.fn('_get_composite_state', 'core.composer')
    pg = A.params_of(g.node)
    merges = [c for c in A.calls_in(g.node, 'deep_merge')]
    ok = False
    for m in merges:
        a0, a1 = A.arg_of(m, 0), A.arg_of(m, 1)
        first = derives(g.node, a0, lambda x: isinstance(x, ast.Call) and
                        A.call_name(x) == '_get_composite_state_recur',
                        at=m)
        ok = first and A.is_name(a1, 'initial_state') and not derives(
            g.node, a0, lambda x: A.is_name(x, 'initial_state'), at=m)
        ck.require(ok, 'R15.5', g, m,
                   'the explicit initial state is merged over the process '
                   'states (explicit wins)',
                   'process initial states override the explicit initial '
                   'state (deep_merge arguments in the wrong order)', m)
    ck.require(bool(merges), 'R15.5', g, g.node.name,
               'the explicit state is merged in', None)
    for r in A.walk_no_nested(g.node):
        if isinstance(r, ast.Return):
            ok = derives(g.node, r.value, lambda x: isinstance(
                x, ast.Call) and A.call_name(x) == 'deep_merge', at=r)
            ck.require(ok, 'R15.5', g, r,
                       'the merged state is what is returned', None, r)


def r15_6(ck):
    ck.rule('R15.6', "Process.default_state prefers a variable's declared "
            "_default and otherwise recurses")
    f = ck.fn('Process.default_state', 'core.process')
    inner = [x for x in ck.repo.functions if x.nested_in is f]
    # ... or a (recursive) helper of the same module that it calls
    called = {A.call_name(c) for c in A.calls_in(f.node)
              if isinstance(c.func, ast.Name)}
    inner += [x for x in ck.repo.functions
              if x.module == f.module and x.cls is None and not x.is_test
              and not x.nested_in and x.name in called]
    ok = False
    for g in inner:
        for c in A.calls_in(g.node, 'get'):
            if c.args and isinstance(c.args[0], ast.Constant) and \
                    c.args[0].value == '_default' and len(c.args) == 2 and \
                    derives(g.node, c.args[1], lambda n, g=g: isinstance(
                        n, ast.Call) and A.call_name(n) == g.name, at=c):
                ok = True
    ck.require(ok, 'R15.6', f, f.node.name,
               "the default of a variable is its '_default', else the "
               'defaults of its children',
               "default_state no longer reads the declared '_default'")
    ok = any(A.call_name(c) == 'get_schema' for c in A.calls_in(f.node))
    ck.require(ok, 'R15.6', f, f.node.name,
               'defaults come from the schema including overrides', None)


def r15_7(ck):
    ck.rule('R15.7', 'declarations of several processes are merged deeply '
            '(sub-schemas and sub-topologies of glob ports), and asking a '
            'composite for its initial state does not change the composite '
            '(shared with C16 R16.5)')
    for q, attr in (('Store._apply_subschema_config', 'self.subschema'),
                    ('Store._merge_subtopology', 'self.subtopology')):
        f = ck.fn(q, 'core.store')
        ok = False
        for s2 in A.walk_no_nested(f.node):
            if isinstance(s2, ast.Assign) and A.unparse(
                    s2.targets[0]) == attr:
                v = s2.value
                ok = isinstance(v, ast.Call) and A.call_name(v) in (
                    'deep_merge', 'deep_merge_check') and A.unparse(
                    A.arg_of(v, 0)) == attr and A.params_of(
                    f.node)[1] in A.names_in(A.arg_of(v, 1))
                ck.require(ok, 'R15.7', f, s2,
                           '%s is deep-merged with the new declaration'
                           % attr,
                           '%s is combined with %s: a later declaration '
                           'replaces whole nested branches of an earlier '
                           'one instead of merging into them' % (
                               attr, A.short(v, 50)), s2)
        if not ok:
            ck.require(any(A.call_name(c) == 'deep_merge'
                           for c in A.calls_in(f.node)), 'R15.7', f,
                       f.node.name, 'the declaration is deep-merged', None)
    from . import c16
    c16.r16_5(ck)
    for o in ck.obligations:
        if o['rule'] == 'R16.5':
            o['rule'] = 'R15.7'
    for v in ck.violations:
        if v.rule == 'R16.5':
            v.rule = 'R15.7'
    ck.rules.pop('R16.5', None)


def r15_9(ck, rule='R15.9'):
    ck.rule(rule, 'declared settings win over derived ones and explicit '
            'flags over inherited ones in the leaf section of '
            "_apply_config: units / serializer inferred from a quantity "
            "default never replace declared ones (`self.x = self.x or "
            "...`), and a leaf's `_emit` is config.get('_emit', self.emit) "
            '(an explicit False overrides an earlier True)')
    f = ck.fn('Store._apply_config', 'core.store')
    cfg = cfg_of(f.node)
    n = 0
    for s2 in A.walk_no_nested(f.node):
        if not isinstance(s2, ast.Assign):
            continue
        tgt = A.unparse(s2.targets[0])
        if tgt not in ('self.units', 'self.serializer'):
            continue
        g = cfg.guards(cfg.node(s2))
        inferred = any(a[0] == 'isinstance' and 'self.default' in a[1]
                       and 'Quantity' in a[2] for a in g)
        if not inferred:
            continue
        n += 1
        v = s2.value
        ok = isinstance(v, ast.BoolOp) and isinstance(v.op, ast.Or) and \
            A.unparse(v.values[0]) == tgt
        ck.require(ok, rule, f, s2,
                   '%s inferred from a quantity default is only a fallback '
                   '(`%s = %s or ...`)' % (tgt, tgt, tgt),
                   '%s inferred from the default replaces a declared one '
                   '(%s): the variable is kept / emitted in the unit or '
                   'form of the default instead of the declared one' % (
                       tgt, A.short(s2, 70)), s2)
    ck.floor(rule, n, 4, 'inferred units/serializer assignments')
    hit = False
    for s2 in A.walk_no_nested(f.node):
        if isinstance(s2, ast.Assign) and A.unparse(
                s2.targets[0]) == 'self.emit':
            hit = True
            v = s2.value
            ok = isinstance(v, ast.Call) and A.call_name(v) == 'get' and \
                A.is_name(A.call_receiver(v), 'config') and len(
                    v.args) == 2 and isinstance(
                    v.args[0], ast.Constant) and v.args[0].value == \
                '_emit' and A.unparse(v.args[1]) == 'self.emit'
            ck.require(ok, rule, f, s2,
                       "a leaf's emit flag is config.get('_emit', "
                       'self.emit)',
                       "the leaf emit flag is computed as %s: an explicit "
                       "'_emit': False (store_schema, a later declaration) "
                       'cannot switch an emitting variable off' %
                       A.unparse(v), s2)
    ck.require(hit, rule, f, 'self.emit', 'leaf emit flag is assigned',
               'the leaf section no longer sets self.emit')


def r15_10(ck):
    ck.rule('R15.10', 'sub-schemas reach every level and the composite '
            'state keeps every port: _apply_subschemas applies the own '
            'sub-schema AND descends into every child; dictionary-valued '
            'initial states of several ports are merged (C06 R06.2); each '
            'build distributes the current get_schema() of the process '
            '(C16 R16.8)')
    f = ck.fn('Store._apply_subschemas', 'core.store')
    cfg = cfg_of(f.node)
    rec = [c for c in A.calls_in(f.node, '_apply_subschemas')
           if not A.is_name(A.call_receiver(c), 'self')]
    ok = False
    for c in rec:
        lp = c
        while lp is not None and not isinstance(lp, ast.For):
            lp = getattr(lp, '_parent', None)
        if lp is None:
            continue
        g = cfg.guards(cfg.node(lp))
        ok = not g and 'self.inner' in A.unparse(lp.iter)
        ck.require(ok, 'R15.10', f, lp,
                   'the descent into the children is unconditional',
                   'the children are only visited under %s: a glob '
                   'declaration nested below another glob node no longer '
                   'reaches children created later' % sorted(g), lp)
    ck.require(bool(rec), 'R15.10', f, f.node.name,
               '_apply_subschemas descends into the children', None)
    own = [c for c in A.calls_in(f.node, '_apply_subschema')
           if A.is_name(A.call_receiver(c), 'self')]
    ck.require(bool(own), 'R15.10', f, f.node.name,
               'a node with a sub-schema applies it to its children', None)
    from . import c06, c16
    c06.r06_2(ck)
    c16.r16_8(ck)
    OLD, NEW = ('R06.2', 'R16.8'), 'R15.10'

    for o in ck.obligations:
        if o['rule'] in OLD:
            o['rule'] = NEW
    for v in ck.violations:
        if v.rule in OLD:
            v.rule = NEW
    for r in OLD:
        ck.rules.pop(r, None)
