"""C17 - hierarchy paths obey a consistent path algebra (structural part)."""

import ast

from .. import astutil as A
from ..cfg import cfg_of, within
from ..dataflow import derives, expand, local_defs
from ..loader import enclosing_stmt
from . import helpers as H

EXPL = (
    'Decided here is the structural part of the path algebra, not the '
    'equalities themselves (those quantify over all trees and paths and need '
    'induction or execution): (1) sibling agreement - get_in, assoc_path, '
    'delete_in and update_in all address d[path[0]] and continue with '
    'path[1:], so that they name the same entry; (2) the enumerations '
    'dict_to_paths, paths_to_dict and hierarchy_depth extend the path by '
    'exactly the key they descend through and visit every item; (3) ".." '
    'means "the parent" in both the lexical normaliser and the tree walkers '
    '(Store.get_path, Store._establish_path follow self.outer, every other '
    'step goes to the child of that name, the walk continues with the rest '
    'of the path and the empty path is the node itself); (4) path_for is the '
    "parent's path plus the key under which the parent holds the node, "
    'top() follows outer to the root, path_to strips the common prefix and '
    'prefixes one ".." per remaining level. Each clause is a necessary '
    'condition: breaking it breaks one of the stated laws for some tree.')


def check(ck):
    ck.explanation = EXPL
    ck.technique = ('sibling agreement of recursion skeletons, guard '
                    'provenance on CFG edges, def-use of the descent '
                    'variables')
    ck.assume('dictionaries handed to the helpers are plain nested dicts; '
              'a Store is reachable from its parent under exactly one key')
    ck.rule('R17.1', 'the dictionary-path helpers name the same entry: '
            'get_in, assoc_path, delete_in and update_in address d[path[0]] '
            'and continue with path[1:]')
    H.get_in_shape(ck, 'R17.1')
    H.assoc_path_shape(ck, 'R17.1')
    H.delete_in_shape(ck, 'R17.1')
    H.update_in_shape(ck, 'R17.1')
    ck.rule('R17.2', 'the enumerations extend the path by the key they '
            'descend through and visit every item: dict_to_paths, '
            'paths_to_dict, hierarchy_depth')
    H.dict_to_paths_shape(ck, 'R17.2')
    H.paths_to_dict_shape(ck, 'R17.2')
    H.hierarchy_depth_shape(ck, 'R17.2')
    r17_3(ck)
    r17_4(ck)
    r17_5(ck)
    r17_6(ck)
    r17_7(ck)
    from . import c09
    ck.shared('R17.8', 'the outer links are the tree: every node that is put '
              'into some node\'s inner gets that node as its outer, so that '
              "'..' from it and path_for() of it go through its actual "
              'parent', c09.r09_7)


def r17_3(ck):
    ck.rule('R17.3', 'lexical normal form: normalize_path drops the '
            "previous step on '..' (when there is one) and keeps every "
            'other step whatever its value')
    H.normalize_path_shape(ck, 'R17.3', above_root=True)


def _walker(ck, rule, qual, rec_name):
    """Store.get_path / Store._establish_path: '..' -> self.outer, any other
    step -> the child of that name, continue with the rest, empty path ->
    self."""
    f = ck.fn(qual, 'core.store')
    cfg = cfg_of(f.node)
    p = A.params_of(f.node)[1]

    def is_head(e, at):
        x = expand(f.node, e, enclosing_stmt(at))
        return isinstance(x, ast.Subscript) and A.is_name(x.value, p) and \
            A.unparse(x.slice) == '0'

    def is_rest(e, at):
        x = expand(f.node, e, enclosing_stmt(at))
        return isinstance(x, ast.Subscript) and A.is_name(x.value, p) and \
            isinstance(x.slice, ast.Slice) and A.unparse(
                x.slice.lower) == '1' and x.slice.upper is None
    # recursion continues with path[1:]
    recs = [c for c in A.calls_in(f.node, rec_name)
            if A.arg_of(c, 0, p) is not None and is_rest(A.arg_of(c, 0, p),
                                                         c)]
    ck.require(bool(recs), rule, f, f.node.name,
               'the walk continues with the rest of the path (path[1:])',
               '%s no longer continues with path[1:]: a step is skipped or '
               'repeated' % qual)
    # every continuation from the parent or from a child consumes exactly
    # the step just taken (the detour through a process's topology passes
    # the paths that topology_path computed)
    for c in A.calls_in(f.node, rec_name):
        a0 = A.arg_of(c, 0, p)
        if a0 is None:
            continue
        via_topology = derives(
            f.node, a0, lambda x: isinstance(x, ast.Call) and
            A.call_name(x) == 'topology_path', at=c)
        if via_topology:
            continue
        ck.require(is_rest(a0, c), rule, f, c,
                   'the continuation is handed path[1:]',
                   '%s continues with %s instead of path[1:]: the step '
                   'just taken is taken again or one is skipped' % (
                       qual, A.unparse(a0)), c)
    # '..' -> outer
    up = dn = False
    head_names = {nm for nm, ds in local_defs(f.node).items()
                  if any(d.value is not None and is_head(d.value, d.stmt)
                         for d in ds if d.kind == 'assign')}

    def head_txt(t):
        return t in head_names or t.replace(' ', '') == '%s[0]' % p
    for n, info in cfg.info.items():
        st = info['stmt']
        if info['kind'] not in ('stmt',) or st is None:
            continue
        g = cfg.guards(n)
        dots = [a for a in g if a[0] == '==' and "'..'" in a[1:]
                and any(head_txt(x) for x in a[1:])]
        nodots = [a for a in g if a[0] == '!=' and "'..'" in a[1:]
                  and any(head_txt(x) for x in a[1:])]
        txt = A.unparse(st)
        if dots and 'self.outer' in txt and not isinstance(st, ast.Raise):
            up = True
            # exactly one level up: self.outer itself, or the recursion
            # called on it
            chains = [x for x in ast.walk(st) if isinstance(x, ast.Attribute)
                      and A.unparse(x).startswith('self.outer.')]
            bad = [x for x in chains if A.unparse(x) not in (
                'self.outer.' + rec_name,)]
            ck.require('self.inner' not in txt and not bad, rule, f, st,
                       "'..' leads to the parent, one level up",
                       "on '..' %s goes to %s, not to self.outer" % (
                           qual, A.unparse(bad[0]) if bad else txt), st)
        if nodots and 'self.inner' in txt:
            dn = True
            # the child looked up is the one named by the step
            ok = any(
                (isinstance(x, ast.Subscript) and 'self.inner' in A.unparse(
                    x.value) and (A.unparse(x.slice) in head_names
                                  or is_head(x.slice, st)))
                or (isinstance(x, ast.Call) and A.call_name(x) == 'get'
                    and 'self.inner' in A.unparse(x.func) and x.args and (
                        A.unparse(x.args[0]) in head_names
                        or is_head(x.args[0], st)))
                for x in ast.walk(st))
            ok = ok or any(
                isinstance(x, ast.Compare) for x in ast.walk(st))
            ck.require(ok, rule, f, st,
                       'any other step leads to the child of that name',
                       '%s looks a child up under something other than the '
                       'first step of the path' % qual, st)
    ck.require(up, rule, f, f.node.name,
               "'..' is resolved by going to self.outer",
               "%s no longer follows self.outer on '..': a relative path "
               'is walked differently from its lexical normal form' % qual)
    ck.require(dn, rule, f, f.node.name,
               'a named step is resolved among the children (self.inner)',
               '%s no longer descends into self.inner' % qual)
    # empty path -> the node itself
    rets = [r for r in A.walk_no_nested(f.node) if isinstance(r, ast.Return)
            and A.is_name(r.value, 'self')]
    ok = False
    for r in rets:
        g = cfg.guards(cfg.node(r))
        if not any(a[0] == 'truthy' and a[1] == p for a in g) and not any(
                a[0] == '<' and a[1] == '0' and a[2] == 'len(%s)' % p
                for a in g):
            ok = True
    ck.require(ok, rule, f, rets[0] if rets else f.node.name,
               'the empty path is the node itself',
               '%s does not return self for the empty path' % qual)


def r17_4(ck):
    ck.rule('R17.4', "tree walkers agree with the lexical normaliser: in "
            "Store.get_path and Store._establish_path '..' leads to "
            'self.outer, any other step to the child of that name, the walk '
            'continues with path[1:], and the empty path is the node itself')
    _walker(ck, 'R17.4', 'Store.get_path', 'get_path')
    _walker(ck, 'R17.4', 'Store._establish_path', '_establish_path')


def r17_5(ck):
    ck.rule('R17.5', "path_for() is the parent's path_for() plus the key "
            'under which the parent holds this node (the empty tuple at the '
            'root); top() follows outer up to the node without one')
    f = ck.fn('Store.path_for', 'core.store')
    cfg = cfg_of(f.node)
    rets = [r for r in A.walk_no_nested(f.node) if isinstance(r, ast.Return)]
    inner_ok = root_ok = False
    # the iterative spelling: climb `cur = cur.outer` while there is an
    # outer, collecting key_for_value(cur.outer.inner, cur); the keys are
    # returned in root-first order (reversed)
    if not any(A.call_name(c) == 'path_for' for c in A.calls_in(f.node)):
        okit = False
        for lp in A.walk_no_nested(f.node):
            if not isinstance(lp, ast.While):
                continue
            climbs = [s2 for s2 in A.walk_no_nested(lp) if isinstance(
                s2, ast.Assign) and isinstance(s2.targets[0], ast.Name)
                and A.unparse(s2.value) == s2.targets[0].id + '.outer']
            if len(climbs) != 1:
                continue
            cur = climbs[0].targets[0].id
            keys = [c for c in A.calls_in(lp, 'key_for_value')
                    if A.unparse(A.arg_of(c, 0)) == cur + '.outer.inner'
                    and A.is_name(A.arg_of(c, 1), cur)]
            tst = A.unparse(lp.test).replace(' ', '')
            apps = [c for c in A.calls_in(lp, ('append', 'insert'))
                    if keys and any(A.contains(a, keys[0]) for a in c.args)]
            if not (keys and apps and tst in (
                    cur + '.outer', cur + '.outerisnotNone')):
                continue
            first = cfg.dominates(cfg.node(apps[0]), cfg.node(climbs[0]))
            acc = A.unparse(A.call_receiver(apps[0]))
            front = A.call_name(apps[0]) == 'insert' and A.unparse(
                A.arg_of(apps[0], 0)) == '0'
            rev = any(isinstance(r, ast.Return) and r.value is not None and (
                ('reversed(%s)' % acc) in A.unparse(r.value) or
                ('%s[::-1]' % acc) in A.unparse(r.value))
                for r in rets)
            plain = any(isinstance(r, ast.Return) and r.value is not None
                        and A.unparse(r.value) in (acc, 'tuple(%s)' % acc)
                        for r in rets)
            okit = first and ((front and plain) or (not front and rev))
        ck.require(okit, 'R17.5', f, f.node.name,
                   'path_for collects the key of every node on the way up '
                   'and returns them root first',
                   'path_for (iterative form) does not collect '
                   'key_for_value(cur.outer.inner, cur) on the way up and '
                   'return the keys root first')
        return _r17_5_top(ck)
    for r in rets:
        g = cfg.guards(cfg.node(r))
        v = expand(f.node, r.value, r) if r.value is not None else None
        if ('truthy', 'self.outer') in g or ('isnot', 'self.outer',
                                             'None') in g:
            ok = isinstance(v, ast.BinOp) and isinstance(v.op, ast.Add) and \
                isinstance(v.left, ast.Call) and A.call_name(
                    v.left) == 'path_for' and A.unparse(
                    A.call_receiver(v.left)) == 'self.outer' and \
                isinstance(v.right, ast.Tuple) and len(v.right.elts) == 1
            if ok:
                k = v.right.elts[0]
                ok = isinstance(k, ast.Call) and A.call_name(k) == \
                    'key_for_value' and A.unparse(
                        A.arg_of(k, 0)) == 'self.outer.inner' and A.is_name(
                        A.arg_of(k, 1), 'self')
            ck.require(ok, 'R17.5', f, r,
                       "below the root: parent's path + (own key in the "
                       'parent,), in that order',
                       'path_for() returns %s: following it from the root '
                       'does not reach the node' % A.unparse(v), r)
            inner_ok = inner_ok or ok
        else:
            ok = isinstance(v, ast.Call) and A.call_name(v) == 'tuple' and \
                not v.args or (isinstance(v, ast.Tuple) and not v.elts)
            ck.require(ok, 'R17.5', f, r, 'the root has the empty path',
                       'path_for() of the root is %s' % A.unparse(v), r)
            root_ok = root_ok or ok
    ck.require(inner_ok and root_ok, 'R17.5', f, f.node.name,
               'path_for has a root case and a recursive case', None)
    kf = ck.fn('key_for_value', 'core.store')
    ckf = cfg_of(kf.node)
    kp = A.params_of(kf.node)
    ok = False
    for lp in A.walk_no_nested(kf.node):
        if isinstance(lp, ast.For) and kp[0] in A.names_in(lp.iter) and \
                isinstance(lp.target, ast.Tuple):
            kvar, vvar = (A.unparse(e) for e in lp.target.elts)
            for s2 in A.walk_no_nested(lp):
                if isinstance(s2, (ast.Assign, ast.Return)) and A.is_name(
                        s2.value, kvar):
                    g = ckf.guards(ckf.node(s2))
                    ok = any(a[0] in ('==', 'is') and {kp[1], vvar} <= set(
                        a[1:]) for a in g)
    ck.require(ok, 'R17.5', kf, kf.node.name,
               'key_for_value returns the key whose value is the node '
               'looked for', 'key_for_value no longer returns the key under '
               'which the value is held')
    _r17_5_top(ck)


def _r17_5_top(ck):
    t = ck.fn('Store.top', 'core.store')
    ct = cfg_of(t.node)
    up = [r for r in A.walk_no_nested(t.node) if isinstance(r, ast.Return)
          and isinstance(r.value, ast.Call) and A.call_name(r.value) == 'top'
          and A.unparse(A.call_receiver(r.value)) == 'self.outer']
    me = [r for r in A.walk_no_nested(t.node) if isinstance(r, ast.Return)
          and A.is_name(r.value, 'self')]
    ok = bool(up) and bool(me) and all(
        ('truthy', 'self.outer') in ct.guards(ct.node(r)) or
        ('isnot', 'self.outer', 'None') in ct.guards(ct.node(r))
        for r in up) and all(
        ('truthy', 'self.outer') not in ct.guards(ct.node(r)) for r in me)
    if not ok and not up:
        # the iterative spelling: a cursor that climbs `cur = cur.outer`
        # while there is an outer, and is returned
        for lp in A.walk_no_nested(t.node):
            if not isinstance(lp, ast.While):
                continue
            climbs = [s2 for s2 in A.walk_no_nested(lp) if isinstance(
                s2, ast.Assign) and isinstance(s2.targets[0], ast.Name)
                and A.unparse(s2.value) == s2.targets[0].id + '.outer']
            if len(climbs) == 1:
                cur = climbs[0].targets[0].id
                tst = A.unparse(lp.test).replace(' ', '')
                ok = tst in (cur + '.outer', cur + '.outerisnotNone') and \
                    any(isinstance(r, ast.Return) and A.is_name(r.value, cur)
                        and not within(r, lp)
                        for r in A.walk_no_nested(t.node))
    ck.require(ok, 'R17.5', t, t.node.name,
               'top() is outer.top() while there is an outer, else self',
               'top() no longer walks up to the root')


def r17_6(ck):
    ck.rule('R17.6', 'path_to(b): the common prefix of the two absolute '
            "paths is stripped from the front of both, then one '..' per "
            "remaining element of the own path, then the rest of b's path")
    f = ck.fn('Store.path_to', 'core.store')
    cfg = cfg_of(f.node)
    other = A.params_of(f.node)[1]
    own = oth = None
    for nm, ds in local_defs(f.node).items():
        for d in ds:
            v = d.value
            if isinstance(v, ast.Call) and A.call_name(v) == 'path_for':
                if A.is_name(A.call_receiver(v), 'self'):
                    own = nm
                elif A.is_name(A.call_receiver(v), other):
                    oth = nm
    ck.require(own is not None and oth is not None, 'R17.6', f,
               f.node.name, 'both absolute paths are taken from path_for()',
               'path_to no longer starts from the two path_for() results')
    if own is None or oth is None:
        return
    loops = [w for w in A.walk_no_nested(f.node) if isinstance(w, ast.While)]
    ok = False
    for w in loops:
        atoms = A.cond_atoms(w.test, True)
        same_head = ('==',) + tuple(sorted(('%s[0]' % own, '%s[0]' % oth))) \
            in atoms
        strips = {nm: any(
            isinstance(s2, ast.Assign) and A.is_name(s2.targets[0], nm)
            and isinstance(s2.value, ast.Subscript) and A.is_name(
                s2.value.value, nm) and isinstance(
                s2.value.slice, ast.Slice) and A.unparse(
                s2.value.slice.lower) == '1' and s2.value.slice.upper is None
            for s2 in A.walk_no_nested(w)) for nm in (own, oth)}
        ok = same_head and all(strips.values())
    ck.require(ok, 'R17.6', f, loops[0] if loops else f.node.name,
               'while the first elements agree, both paths lose their first '
               'element',
               'path_to does not strip the common prefix from the front of '
               'both paths')
    rets = [r for r in A.walk_no_nested(f.node) if isinstance(r, ast.Return)]
    okr = False
    for r in rets:
        ups = derives(f.node, r.value, lambda x: isinstance(
            x, ast.ListComp) and isinstance(x.elt, ast.Constant)
            and x.elt.value == '..' and A.is_name(
                x.generators[0].iter, own), at=r) or derives(
            f.node, r.value, lambda x: isinstance(x, ast.BinOp)
            and isinstance(x.op, ast.Mult) and "'..'" in A.unparse(x)
            and own in A.names_in(x), at=r)
        rest = derives(f.node, r.value, lambda x: A.is_name(x, oth), at=r)
        okr = ups and rest
    ck.require(okr, 'R17.6', f, rets[0] if rets else f.node.name,
               "the result is one '..' per remaining own element followed "
               "by the rest of the other path",
               "path_to does not return ['..'] * len(own rest) + other rest")



# functions that may apply the lexical normaliser, and why their argument is
# an absolute path
NORMALISE_CALLERS = {
    'inverse_topology': 'outer + path: outer is the absolute path of the '
                        "process's parent",
    'Engine._add_step_path': 'path + ("..",) + dependency: path is the '
                             'absolute path of the step',
}


def r17_7(ck):
    ck.rule('R17.7', 'the lexical normaliser is applied to absolute paths '
            'only (on a relative path two leading ".." would cancel each '
            'other): normalize_path is called from the frozen set of '
            'callers whose argument is rooted at an absolute path, and '
            'convert_path - the entry point of the store API for relative '
            'paths - only converts the container type')
    n = 0
    for f in ck.repo.functions:
        if f.is_test or f.nested_in is not None:
            continue
        if not (f.module.startswith('vivarium.core') or
                f.module.startswith('vivarium.library')):
            continue
        for c in A.calls_in(f.node, 'normalize_path'):
            if f.name == 'normalize_path':
                continue
            n += 1
            ck.require(f.qual in NORMALISE_CALLERS, 'R17.7', f, c,
                       'normalize_path is applied to an absolute path',
                       '%s applies normalize_path to %s, which is not known '
                       'to be absolute: on a relative path consecutive '
                       "leading '..' cancel in pairs, so walking the tree "
                       'and the normal form part ways' % (
                           f.qual, A.unparse(A.arg_of(c, 0))), c)
    ck.floor('R17.7', n, 4, 'calls of normalize_path')
    cp = ck.fn('convert_path', 'core.store')
    p0 = A.params_of(cp.node)[0]
    for r in A.walk_no_nested(cp.node):
        if not isinstance(r, ast.Return):
            continue
        v = expand(cp.node, r.value, r) if r.value is not None else None
        ok = A.is_name(v, p0) or (
            isinstance(v, ast.Call) and A.call_name(v) in ('tuple', 'list')
            and len(v.args) == 1 and A.is_name(v.args[0], p0)) or (
            isinstance(v, ast.Tuple) and len(v.elts) == 1 and A.is_name(
                v.elts[0], p0))
        # the parameter may have been re-bound to such a conversion
        if not ok and isinstance(r.value, ast.Name):
            ds = [d for d in local_defs(cp.node).get(r.value.id, [])
                  if d.kind == 'assign']
            ok = bool(ds) and all(
                (isinstance(d.value, ast.Call) and A.call_name(d.value) in (
                    'tuple', 'list') and len(d.value.args) == 1
                 and A.is_name(d.value.args[0], p0))
                or (isinstance(d.value, ast.Tuple) and len(
                    d.value.elts) == 1 and A.is_name(d.value.elts[0], p0))
                for d in ds) and r.value.id == p0
        ck.require(ok, 'R17.7', cp, r,
                   'convert_path returns the path itself, as a tuple',
                   'convert_path returns %s: the relative paths of the '
                   'store API are rewritten before they are walked'
                   % A.unparse(r.value), r)
