"""Shape rules for the small recursive dictionary / path helpers that the
anchored mechanisms rely on (vivarium/library/topology.py, dict_utils.py,
store.hierarchy_depth, timeline.nested_set).  They are called from the
checks of the properties that depend on them; the rule id is given by the
caller.  Each rule states the recursion skeleton of the helper: the base
case, the recursive call on (child, tail), and what is written."""

import ast

from .. import astutil as A
from ..cfg import cfg_of, within
from ..dataflow import derives, local_defs, expand


def _rets(f):
    return [r for r in A.walk_no_nested(f.node) if isinstance(r, ast.Return)]


def _tail_ok(e, path):
    return isinstance(e, ast.Subscript) and A.is_name(e.value, path) and \
        isinstance(e.slice, ast.Slice) and A.unparse(e.slice.lower) == '1' \
        and e.slice.upper is None


def _head_def(f, path):
    """Locals bound to path[0]."""
    out = set()
    for name, ds in local_defs(f.node).items():
        for d in ds:
            if isinstance(d.value, ast.Subscript) and A.is_name(
                    d.value.value, path) and A.unparse(d.value.slice) == '0':
                out.add(name)
    return out


def deep_merge_shape(ck, rule, name='deep_merge'):
    f = ck.fn(name, 'library.dict_utils')
    cfg = cfg_of(f.node)
    dct, mrg = A.params_of(f.node)[:2]
    loops = [l for l in A.walk_no_nested(f.node) if isinstance(l, ast.For)
             and mrg in A.names_in(l.iter)]
    ck.require(len(loops) == 1, rule, f, f.node.name,
               '%s visits every key of the dictionary merged in' % name,
               '%s no longer iterates the dictionary merged in' % name)
    if not loops:
        return
    lp = loops[0]
    key = A.unparse(lp.target.elts[0]) if isinstance(
        lp.target, ast.Tuple) else A.unparse(lp.target)
    rec = [c for c in A.calls_in(lp, name)]
    val = A.unparse(lp.target.elts[1]) if isinstance(
        lp.target, ast.Tuple) and len(lp.target.elts) == 2 else None
    ok = bool(rec) and all(
        A.unparse(A.arg_of(c, 0)) == '%s[%s]' % (dct, key) and
        A.unparse(A.arg_of(c, 1)) in ('%s[%s]' % (mrg, key), val)
        for c in rec)
    ck.require(ok, rule, f, rec[0] if rec else lp,
               'nested dictionaries are merged recursively into dct[key]',
               '%s does not recurse into dct[key] for nested dictionaries: '
               'a nested branch is replaced instead of merged' % name, lp)
    for c in rec:
        g = cfg.guards(cfg.node(c))
        ok = ('in', key, dct) in g and any(
            a[0] == 'isinstance' and a[1] == '%s[%s]' % (dct, key)
            and 'dict' in a[2] for a in g)
        ck.require(ok, rule, f, c,
                   'recursion only when the key exists and holds a dict',
                   None, c)
    writes = [s for s in A.walk_no_nested(lp) if isinstance(s, ast.Assign)
              and A.unparse(s.targets[0]) == '%s[%s]' % (dct, key)]
    ok = bool(writes) and all(
        A.unparse(s.value) in ('%s[%s]' % (mrg, key),) or (
            isinstance(lp.target, ast.Tuple) and A.unparse(s.value) ==
            A.unparse(lp.target.elts[1])) or '_multi_update' in
        A.unparse(s.value) or 'MULTI_UPDATE_KEY' in A.unparse(s.value)
        for s in writes)
    ck.require(ok, rule, f, writes[0] if writes else lp,
               'otherwise the value merged in is written under the key',
               '%s does not write merge_dct[key] into dct[key] in its '
               'fall-through branch' % name, lp)
    body = cfg.loop_nodes(lp)
    ck.require(not cfg.loops[id(lp)]['breaks'] and not any(
        isinstance(cfg.info[x]['stmt'], (ast.Return, ast.Continue))
        for x in body), rule, f, lp,
        'no key is skipped', '%s skips keys (break/continue/return in its '
        'loop)' % name, lp)
    ck.require(all(A.is_name(r.value, dct) for r in _rets(f)) and bool(
        _rets(f)), rule, f, f.node.name,
        'the merged dictionary is returned', None)


def assoc_path_shape(ck, rule):
    f = ck.fn('assoc_path', 'library.topology')
    cfg = cfg_of(f.node)
    d, path, value = A.params_of(f.node)[:3]
    heads = _head_def(f, path)
    leaf = [s for s in A.walk_no_nested(f.node) if isinstance(s, ast.Assign)
            and isinstance(s.targets[0], ast.Subscript) and A.is_name(
                s.targets[0].value, d) and A.is_name(s.value, value)]
    ok = bool(leaf) and all(
        A.unparse(s.targets[0].slice) in heads | {path + '[0]'} and any(
            a[0] == '==' and 'len(%s)' % path in a[1:] and '1' in a[1:]
            for a in cfg.guards(cfg.node(s))) for s in leaf)
    ck.require(ok, rule, f, leaf[0] if leaf else f.node.name,
               'at the last path element the value is stored under it',
               'assoc_path no longer stores the value at d[path[0]] when '
               'one element is left')
    rec = [c for c in A.calls_in(f.node, 'assoc_path')]
    ok = bool(rec) and all(
        isinstance(A.arg_of(c, 0), ast.Subscript) and A.is_name(
            A.arg_of(c, 0).value, d) and _tail_ok(A.arg_of(c, 1), path)
        and A.is_name(A.arg_of(c, 2), value) for c in rec)
    ck.require(ok, rule, f, rec[0] if rec else f.node.name,
               'longer paths recurse into d[head] with the tail',
               'assoc_path does not recurse as assoc_path(d[head], '
               'path[1:], value)')
    mk = [s for s in A.walk_no_nested(f.node) if isinstance(s, ast.Assign)
          and isinstance(s.targets[0], ast.Subscript) and A.is_name(
              s.targets[0].value, d) and isinstance(s.value, ast.Dict)
          and not s.value.keys]
    ok = bool(mk) and all(any(a[0] == 'notin' and a[2] == d
                              for a in cfg.guards(cfg.node(s)))
                          for s in mk)
    ck.require(ok, rule, f, mk[0] if mk else f.node.name,
               'a missing intermediate dictionary is created (only when '
               'missing)', 'assoc_path creates intermediate dictionaries '
               'unconditionally (wiping what is there) or not at all')
    ck.require(all(A.is_name(r.value, d) for r in _rets(f)) and bool(
        _rets(f)), rule, f, f.node.name, 'the dictionary is returned', None)


def delete_in_shape(ck, rule):
    f = ck.fn('delete_in', 'library.topology')
    cfg = cfg_of(f.node)
    d, path = A.params_of(f.node)[:2]
    heads = _head_def(f, path) | {path + '[0]'}
    dels = [s for s in A.walk_no_nested(f.node) if isinstance(s, ast.Delete)]
    ok = bool(dels) and all(
        isinstance(s.targets[0], ast.Subscript) and A.is_name(
            s.targets[0].value, d) and A.unparse(
            s.targets[0].slice) in heads and any(
            a[0] == '==' and 'len(%s)' % path in a[1:] and '1' in a[1:]
            for a in cfg.guards(cfg.node(s))) for s in dels)
    ck.require(ok, rule, f, dels[0] if dels else f.node.name,
               'the entry is deleted when one path element is left',
               'delete_in no longer deletes d[head] at the last path '
               'element (or deletes earlier)')
    rec = [c for c in A.calls_in(f.node, 'delete_in')]
    ok = bool(rec) and all(
        isinstance(A.arg_of(c, 0), ast.Subscript) and A.is_name(
            A.arg_of(c, 0).value, d) and _tail_ok(A.arg_of(c, 1), path)
        for c in rec)
    ck.require(ok, rule, f, rec[0] if rec else f.node.name,
               'longer paths recurse into d[head] with the tail',
               'delete_in does not recurse as delete_in(d[head], path[1:])')


def _iterative_descent(f, d, path, default):
    """get_in written as a loop: a cursor that starts at the dictionary and
    steps ``cur = cur[k]`` over the path elements in order.  Returns None
    when no such loop exists, else a list of (ok, construct, what, message)
    obligations."""
    defs = local_defs(f.node)
    cfg = cfg_of(f.node)
    for lp in A.walk_no_nested(f.node):
        if not isinstance(lp, (ast.While, ast.For)):
            continue
        steps = [s for s in A.walk_no_nested(lp) if isinstance(s, ast.Assign)
                 and isinstance(s.targets[0], ast.Name) and isinstance(
                     s.value, ast.Subscript) and A.is_name(
                     s.value.value, s.targets[0].id)
                 and not isinstance(s.value.slice, ast.Slice)]
        if len(steps) != 1:
            continue
        st = steps[0]
        cur = st.targets[0].id
        key = s_key = st.value.slice
        starts = [x for x in defs.get(cur, []) if x.stmt is not st]
        ok_start = cur == d or (bool(starts) and all(
            x.value is not None and A.is_name(x.value, d) for x in starts))
        # the key: loop variable of `for k in path`, or rem[0] with
        # rem = path before and rem = rem[1:] inside the loop
        key_txt = A.unparse(expand(f.node, key, st))
        if isinstance(lp, ast.For):
            ok_key = A.is_name(lp.iter, path) and A.unparse(lp.target) == \
                A.unparse(key)
            shrink_ok = True
            rem = path
        else:
            m = [n2 for n2 in ast.walk(expand(f.node, key, st))
                 if isinstance(n2, ast.Subscript) and isinstance(
                     n2.value, ast.Name) and A.unparse(n2.slice) == '0']
            rem = m[0].value.id if m else None
            ok_key = rem is not None and key_txt == '%s[0]' % rem
            rdefs = defs.get(rem, []) if rem else []
            inside = [x for x in rdefs if within(x.stmt, lp)]
            outside = [x for x in rdefs if not within(x.stmt, lp)]
            shrink_ok = len(inside) == 1 and _tail_ok(
                inside[0].value, rem) and (rem == path or (
                    bool(outside) and all(A.is_name(x.value, path)
                                          for x in outside)))
            t = A.unparse(lp.test).replace(' ', '')
            shrink_ok = shrink_ok and t in (
                rem, 'len(%s)>0' % rem, '%s!=()' % rem, 'len(%s)!=0' % rem)
        out = [(ok_start, st, 'the descent starts at the dictionary given',
                'get_in does not start its descent at the dictionary it '
                'was given'),
               (ok_key and shrink_ok, st,
                'each round steps into the next path element, in order',
                'get_in does not step through the path elements one by one '
                '(key %s)' % key_txt)]
        miss = [r for r in _rets(f) if A.is_name(r.value, default)]
        okm = bool(miss) and all(
            within(r, lp) and any(a[0] == 'notin' and a[2] == cur
                                  for a in cfg.guards(cfg.node(r)))
            and cfg.dominates(cfg.node(_guard_if(r)), cfg.node(st))
            for r in miss)
        out.append((okm, miss[0] if miss else lp,
                    'a missing key returns the default (only then), before '
                    'stepping', 'get_in returns the default although the '
                    'key is present, or never'))
        fin = [r for r in _rets(f) if A.is_name(r.value, cur)
               and not within(r, lp)]
        out.append((bool(fin), fin[0] if fin else lp,
                    'after the last element the node reached is returned',
                    'get_in does not return the node it reached'))
        return out
    return None


def _guard_if(node):
    p = node
    while p is not None and not isinstance(p, ast.If):
        p = getattr(p, '_parent', None)
    return p if p is not None else node


def get_in_shape(ck, rule):
    f = ck.fn('get_in', 'library.topology')
    cfg = cfg_of(f.node)
    d, path, default = A.params_of(f.node)[:3]
    rets = _rets(f)
    rec = [r for r in rets if isinstance(r.value, ast.Call) and A.call_name(
        r.value) == 'get_in']
    if not rec and not list(A.calls_in(f.node, 'get_in')):
        it = _iterative_descent(f, d, path, default)
        if it is None:
            ck.undecided(rule, f, f.node.name,
                         'get_in is neither the recursion get_in(d[head], '
                         'path[1:], default) nor a cursor loop over the path')
            return
        for ok, c, what, msg in it:
            ck.require(ok, rule, f, c, what, msg)
        return
    base = [r for r in rets if A.is_name(r.value, d)]
    miss = [r for r in rets if A.is_name(r.value, default)]
    ok = bool(base) and all(('falsy', path) in cfg.guards(cfg.node(r)) or
                            not any(a[1] == path for a in cfg.guards(
                                cfg.node(r)) if a[0] == 'truthy')
                            for r in base)
    ck.require(ok, rule, f, base[0] if base else f.node.name,
               'the empty path returns the node itself', None)
    ok = bool(miss) and all(any(a[0] == 'notin' and a[2] == d
                                for a in cfg.guards(cfg.node(r)))
                            for r in miss)
    ck.require(ok, rule, f, miss[0] if miss else f.node.name,
               'a missing key returns the default (only then)',
               'get_in returns the default although the key is present, or '
               'never')
    ok = bool(rec) and all(
        isinstance(A.arg_of(r.value, 0), ast.Subscript) and A.is_name(
            A.arg_of(r.value, 0).value, d) and _tail_ok(
            A.arg_of(r.value, 1), path) and A.is_name(
            A.arg_of(r.value, 2), default) for r in rec)
    ck.require(ok, rule, f, rec[0] if rec else f.node.name,
               'a present key recurses into d[head] with the tail and the '
               'same default',
               'get_in does not recurse as get_in(d[head], path[1:], '
               'default)')


def dict_to_paths_shape(ck, rule):
    f = ck.fn('dict_to_paths', 'library.topology')
    cfg = cfg_of(f.node)
    root, d = A.params_of(f.node)[:2]
    rec = [c for c in A.calls_in(f.node, 'dict_to_paths')]
    lp = [l for l in A.walk_no_nested(f.node) if isinstance(l, ast.For)]
    ok = bool(rec) and bool(lp) and A.unparse(lp[0].iter) == d + '.items()'
    if ok:
        key = A.unparse(lp[0].target.elts[0])
        down = A.unparse(lp[0].target.elts[1])
        a0 = A.unparse(A.arg_of(rec[0], 0)).replace(' ', '')
        ok = a0 == '%s+(%s,)' % (root, key) and A.unparse(
            A.arg_of(rec[0], 1)) == down
    ck.require(ok, rule, f, rec[0] if rec else f.node.name,
               'every item is descended into with root + (key,)',
               'dict_to_paths does not recurse as dict_to_paths(root + '
               '(key,), value) for every item')
    leaf = [r for r in _rets(f) if isinstance(r.value, ast.List) and len(
        r.value.elts) == 1]
    ok = bool(leaf) and A.unparse(leaf[0].value.elts[0]).replace(
        ' ', '') == '(%s,%s)' % (root, d) and any(
        a[0] == 'notisinstance' and a[1] == d
        for a in cfg.guards(cfg.node(leaf[0])))
    ck.require(ok, rule, f, leaf[0] if leaf else f.node.name,
               'a non-dictionary is one (path, value) pair', None)
    if lp:
        body = cfg.loop_nodes(lp[0])
        ext = [c for c in A.calls_in(lp[0], ('extend', 'append'))]
        ok = bool(ext) and not cfg.loops[id(lp[0])]['breaks'] and not any(
            isinstance(cfg.info[x]['stmt'], (ast.Return, ast.Continue))
            for x in body)
        ck.require(ok, rule, f, lp[0],
                   'the pairs of every item are collected', None, lp[0])


def hierarchy_depth_shape(ck, rule):
    f = ck.fn('hierarchy_depth', 'core.store')
    cfg = cfg_of(f.node)
    h, path = A.params_of(f.node)[:2]
    lp = [l for l in A.walk_no_nested(f.node) if isinstance(l, ast.For)]
    ok = bool(lp) and A.unparse(lp[0].iter) == h + '.items()'
    ck.require(ok, rule, f, f.node.name,
               'hierarchy_depth visits every item of the hierarchy', None)
    if not ok:
        return
    key = A.unparse(lp[0].target.elts[0])
    inner = A.unparse(lp[0].target.elts[1])
    downs = {n for n, ds in local_defs(f.node).items() for d in ds
             if d.value is not None and key in A.names_in(d.value)
             and path in A.names_in(d.value)}
    rec = [c for c in A.calls_in(f.node, 'hierarchy_depth')]
    ok = bool(rec) and A.is_name(A.arg_of(rec[0], 0), inner) and A.unparse(
        A.arg_of(rec[0], 1)) in downs and any(
        a[0] == 'isinstance' and a[1] == inner and 'dict' in a[2]
        for a in cfg.guards(cfg.node(rec[0])))
    ck.require(ok, rule, f, rec[0] if rec else f.node.name,
               'dictionaries are descended into with the extended path',
               'hierarchy_depth does not recurse with path + (key,) into '
               'nested dictionaries')
    leaf = [s for s in A.walk_no_nested(f.node) if isinstance(s, ast.Assign)
            and isinstance(s.targets[0], ast.Subscript) and A.unparse(
                s.targets[0].slice) in downs and A.is_name(s.value, inner)]
    ck.require(bool(leaf), rule, f, f.node.name,
               'a leaf is recorded under its full path', 'hierarchy_depth '
               'no longer records leaves under path + (key,)')


def nested_set_shape(ck, rule):
    f = ck.fn('nested_set', 'processes.timeline')
    dic, keys, value = A.params_of(f.node)[:3]
    lp = [l for l in A.walk_no_nested(f.node) if isinstance(l, ast.For)]
    ok = bool(lp) and A.unparse(lp[0].iter).replace(' ', '') == \
        keys + '[:-1]'
    ck.require(ok, rule, f, lp[0] if lp else f.node.name,
               'all keys but the last are walked', 'nested_set no longer '
               'walks keys[:-1]')
    if lp:
        k = A.unparse(lp[0].target)
        ok = any(isinstance(s, ast.Assign) and A.is_name(
            s.targets[0], dic) and isinstance(s.value, ast.Call) and
            A.call_name(s.value) == 'setdefault' and A.unparse(
                A.arg_of(s.value, 0)) == k and A.is_empty_const(
                A.arg_of(s.value, 1)) for s in A.walk_no_nested(lp[0]))
        ck.require(ok, rule, f, lp[0],
                   'each step descends into (or creates) the sub-dictionary',
                   'nested_set does not descend with dic.setdefault(key, '
                   '{})', lp[0])
    last = [s for s in A.walk_no_nested(f.node) if isinstance(s, ast.Assign)
            and isinstance(s.targets[0], ast.Subscript) and A.unparse(
                s.targets[0].slice).replace(' ', '') == keys + '[-1]'
            and A.is_name(s.value, value)]
    ck.require(bool(last) and not (lp and within(last[0], lp[0])), rule, f,
               last[0] if last else f.node.name,
               'the value is stored under the last key, after the walk',
               'nested_set does not store the value under keys[-1]')


def update_in_shape(ck, rule):
    f = ck.fn('update_in', 'library.topology')
    d, path, fn = A.params_of(f.node)[:3]
    rets = _rets(f)
    base = [r for r in rets if isinstance(r.value, ast.Call) and A.is_name(
        r.value.func, fn) and A.is_name(A.arg_of(r.value, 0), d)]
    ck.require(bool(base), rule, f, f.node.name,
               'at the addressed node the function is applied to it',
               'update_in no longer returns f(d) at the end of the path')
    rec = [c for c in A.calls_in(f.node, 'update_in')]
    ok = bool(rec) and all(
        isinstance(A.arg_of(c, 0), ast.Subscript) and A.is_name(
            A.arg_of(c, 0).value, d) and _tail_ok(A.arg_of(c, 1), path)
        and A.is_name(A.arg_of(c, 2), fn) for c in rec)
    ck.require(ok, rule, f, rec[0] if rec else f.node.name,
               'longer paths recurse into d[head] with the tail',
               'update_in does not recurse as update_in(d[head], path[1:], '
               'f)')
    st = [s for s in A.walk_no_nested(f.node) if isinstance(s, ast.Assign)
          and isinstance(s.targets[0], ast.Subscript) and rec and
          A.contains(s.value, rec[0])]
    ck.require(bool(st), rule, f, f.node.name,
               'the updated child is stored under its key in the result',
               None)



def deep_copy_internal_shape(ck, rule):
    """deep_copy_internal copies the dictionary structure at every depth and
    hands back its argument only when that is not a dictionary."""
    dci = ck.fn('deep_copy_internal', 'library.dict_utils')
    p0 = A.params_of(dci.node)[0]
    ok = False
    for r in A.walk_no_nested(dci.node):
        if isinstance(r, ast.Return) and isinstance(r.value, ast.DictComp):
            dc = r.value
            g = dc.generators[0]
            ok = A.unparse(g.iter) == p0 + '.items()' and not g.ifs and \
                isinstance(dc.value, ast.Call) and A.call_name(
                    dc.value) == dci.node.name and isinstance(
                    g.target, ast.Tuple) and A.unparse(
                    dc.key) == A.unparse(g.target.elts[0]) and A.unparse(
                    A.arg_of(dc.value, 0)) == A.unparse(g.target.elts[1])
    cdc = cfg_of(dci.node)
    for r in A.walk_no_nested(dci.node):
        if isinstance(r, ast.Return) and A.is_name(r.value, p0):
            g = cdc.guards(cdc.node(r))
            only = g <= {('notisinstance', p0, 'dict')} and bool(g)
            ck.require(only, rule, dci, r,
                       'the argument is returned as it is only when it is '
                       'not a dictionary',
                       'deep_copy_internal returns its argument uncopied '
                       'under %s: (empty) dictionaries of the original are '
                       'shared with the copy and a later merge into the '
                       'copy writes into the original' % sorted(g), r)
    ck.require(ok, rule, dci, dci.node.name,
               'deep_copy_internal copies the dictionary structure at every '
               'depth (recursive call on every value)',
               'deep_copy_internal no longer recurses into every value: '
               'deeper dictionaries stay shared with the original')


def paths_to_dict_shape(ck, rule):
    """paths_to_dict places every (path, value) pair at its path: through
    assoc_path, or by a descent that continues from the level reached."""
    f = ck.fn('paths_to_dict', 'library.topology')
    plist = A.params_of(f.node)[0]
    loops = [l for l in A.walk_no_nested(f.node) if isinstance(l, ast.For)
             and plist in A.names_in(l.iter)]
    ck.require(len(loops) == 1, rule, f, f.node.name,
               'paths_to_dict visits every (path, value) pair',
               'paths_to_dict no longer iterates the list of pairs')
    if not loops:
        return
    lp = loops[0]
    ap = [c for c in A.calls_in(lp, 'assoc_path')]
    rets = {r.value.id for r in _rets(f) if isinstance(r.value, ast.Name)}
    if ap:
        pv = A.unparse(lp.target.elts[0]) if isinstance(
            lp.target, ast.Tuple) else None
        ok = all(isinstance(A.arg_of(c, 0), ast.Name) and
                 A.arg_of(c, 0).id in rets and
                 A.unparse(A.arg_of(c, 1)) == pv for c in ap)
        ck.require(ok, rule, f, ap[0],
                   'each value is placed at its own path of the result',
                   'paths_to_dict does not place the value at its path in '
                   'the returned dictionary', ap[0])
    # hand-written descent: x = <y>.setdefault(key, {}) must continue from
    # the level reached (y is x), starting at the result
    steps = [s2 for s2 in A.walk_no_nested(lp) if isinstance(s2, ast.Assign)
             and isinstance(s2.value, ast.Call) and A.call_name(
                 s2.value) == 'setdefault' and isinstance(
                 s2.targets[0], ast.Name)]
    ck.require(bool(steps) or bool(ap), rule, f, lp,
               'intermediate levels are created on the way down',
               'paths_to_dict neither uses assoc_path nor descends with '
               'setdefault: the idiom is not recognised', lp)
    for s2 in steps:
        inner = any(isinstance(p, ast.For) and p is not lp
                    for p in _ancestors(s2, lp))
        recv = A.call_receiver(s2.value)
        ok = (not inner) or A.is_name(recv, s2.targets[0].id)
        ck.require(ok, rule, f, s2,
                   'the descent continues from the level reached',
                   'every level is created at `%s` instead of below the '
                   'previous level: paths of three or more keys are '
                   'flattened into the wrong place' % A.unparse(recv), s2)


def _ancestors(x, stop):
    p = getattr(x, '_parent', None)
    while p is not None and p is not stop:
        yield p
        p = getattr(p, '_parent', None)


def make_path_dict_shape(ck, rule):
    """make_path_dict reads every value at its full path from the
    dictionary it was given."""
    f = ck.fn('make_path_dict', 'library.dict_utils')
    p0 = A.params_of(f.node)[0]
    stores = [s2 for s2 in A.walk_no_nested(f.node)
              if isinstance(s2, ast.Assign) and isinstance(
                  s2.targets[0], ast.Subscript)]
    stores += [dc for dc in ast.walk(f.node) if isinstance(dc, ast.DictComp)]
    ck.require(bool(stores), rule, f, f.node.name,
               'make_path_dict fills the flat dictionary', None)
    for s2 in stores:
        if isinstance(s2, ast.DictComp):
            key, v, at = s2.key, s2.value, s2
        else:
            key, v, at = s2.targets[0].slice, s2.value, s2
        ok = isinstance(v, ast.Call) and A.call_name(v) in (
            'get_value_from_path', 'get_in') and A.is_name(
            A.arg_of(v, 0), p0) and A.unparse(A.arg_of(v, 1)) == \
            A.unparse(key)
        ck.require(ok, rule, f, at,
                   'the value stored under a path is read at that whole '
                   'path from the dictionary given',
                   'make_path_dict stores %s under %s: the value is not '
                   'looked up at the full path (two stores of the same '
                   'name in different branches are mixed up)' % (
                       A.unparse(v), A.unparse(key)), at)



def normalize_path_shape(ck, rule, above_root=False):
    """normalize_path drops the previous step on '..' and keeps every other
    step, whatever its value."""
    np_ = ck.fn('normalize_path', 'library.topology')
    cfg = cfg_of(np_.node)
    ok = False
    for node in cfg.stmt_nodes():
        g = cfg.guards(node)
        if any(a[0] == '==' and "'..'" in a[1:] for a in g):
            st = cfg.info[node]['stmt']
            if isinstance(st, ast.Assign) and isinstance(
                    st.value, ast.Subscript) and isinstance(
                    st.value.slice, ast.Slice) and A.unparse(
                    st.value.slice.upper) == '-1':
                ok = True
            if isinstance(st, ast.Expr) and isinstance(
                    st.value, ast.Call) and A.call_name(st.value) == 'pop':
                ok = True
    ck.require(ok, rule, np_, np_.node.name,
               "normalize_path drops the previous step on '..'",
               "normalize_path no longer resolves '..'")
    # ... whenever there is a previous step to drop
    for node in cfg.stmt_nodes():
        g = cfg.guards(node)
        st = cfg.info[node]['stmt']
        drops = (isinstance(st, ast.Assign) and isinstance(
            st.value, ast.Subscript) and isinstance(
            st.value.slice, ast.Slice) and A.unparse(
            st.value.slice.upper) == '-1') or (
            isinstance(st, ast.Expr) and isinstance(st.value, ast.Call)
            and A.call_name(st.value) == 'pop')
        if not drops or not any(a[0] == '==' and "'..'" in a[1:]
                                for a in g):
            continue
        other = [a for a in g if not (a[0] == '==' and "'..'" in a[1:])]
        fine = all((a[0] == '<' and a[1] == '0' and a[2].startswith('len('))
                   or (a[0] == '!=' and '0' in a[1:] and any(
                       x.startswith('len(') for x in a[1:]))
                   or a[0] == 'truthy' for a in other)
        nonempty = any((a[0] == '<' and a[1] == '0' and a[2].startswith(
            'len(')) or a[0] == 'truthy' or (a[0] == '!=' and '0' in a[1:])
            for a in other)
        # (only where paths that climb above their start are in scope: no
        # well-formed topology has one, the path algebra quantifies over them)
        ck.require(nonempty or not above_root, rule, np_, st,
                   "a '..' with nothing before it is kept (it climbs above "
                   'the start of the path)',
                   "normalize_path resolves every '..', also when no step "
                   "precedes it: a path that climbs above its start loses "
                   "the '..' and resolves to a node inside the tree, while "
                   'walking it fails', st)
        ck.require(fine, rule, np_, st,
                   "'..' drops the previous step whenever there is one",
                   "normalize_path resolves '..' only under %s: with fewer "
                   "steps collected the '..' stays in the written path "
                   'while the tree walk goes up' % sorted(other), st)
    # every other step is kept, whatever its value (0, '' and False are
    # legal keys of the hierarchy)
    for lp in A.walk_no_nested(np_.node):
        if not isinstance(lp, ast.For) or not isinstance(
                lp.target, ast.Name):
            continue
        sv = lp.target.id
        keeps = [c for c in A.calls_in(lp, ('append', 'extend'))
                 if c.args and sv in A.names_in(c.args[0])]
        keeps += [s2 for s2 in A.walk_no_nested(lp)
                  if isinstance(s2, (ast.Assign, ast.AugAssign))
                  and sv in A.names_in(s2.value)
                  and not isinstance(s2.value, ast.Subscript)]
        ck.require(bool(keeps), rule, np_, lp,
                   'steps other than a resolved ".." are kept', None, lp)
        base = cfg.guards(cfg.loops[id(lp)]['body_entry'])
        for k in keeps:
            extra = cfg.guards(cfg.node(k)) - base
            bad = [a for a in extra
                   if "'..'" not in str(a) and 'len(' not in str(a)]
            ck.require(not bad, rule, np_, k,
                       'a step is kept whatever its value',
                       'normalize_path keeps a step only under %s: a falsy '
                       'key (0, "", False) is dropped from every write '
                       'path while reads still resolve it' % sorted(bad), k)


RECURSION_EXCEPTIONS = {
    # after get_path(path) the children are addressed from the node reached
    ('Store.set_emit_value', 'path'),
}


def recursion_forwards(ck, rule, quals):
    """G9: a recursive function hands every mode parameter on: each
    parameter that has a default, is read by the function and is not
    re-derived for the recursion (``path + (k,)``) is passed to every
    recursive call - positionally or by keyword.  A flag that is dropped
    falls back to its default one level down (``check_equality``,
    ``multi_updates``, ``state_type``)."""
    n = 0
    for qual, module in quals:
        fi = ck.fn_opt(qual, module)
        if fi is None:
            continue
        a = fi.node.args
        params = [x.arg for x in a.args]
        nd = len(a.defaults)
        flags = params[len(params) - nd:] if nd else []
        off = 1 if (fi.cls and params and params[0] == 'self') else 0
        for c in A.calls_in(fi.node, fi.name):
            if fi.cls and A.call_receiver(c) is None:
                continue
            n += 1
            passed = {}
            for i, x in enumerate(c.args):
                if i + off < len(params):
                    passed[params[i + off]] = x
            for k in c.keywords:
                if k.arg:
                    passed[k.arg] = k.value
            for fl in flags:
                if (fi.qual, fl) in RECURSION_EXCEPTIONS:
                    continue
                used = any(isinstance(m, ast.Name) and m.id == fl and
                           isinstance(m.ctx, ast.Load)
                           for m in ast.walk(fi.node))
                if not used:
                    continue
                ck.require(fl in passed, rule, fi, c,
                           'the recursive call hands `%s` on' % fl,
                           'the recursive call of %s does not pass `%s`: '
                           'below the first level it falls back to its '
                           'default (%s)' % (
                               fi.qual, fl, A.unparse(a.defaults[
                                   flags.index(fl)])), c)
    return n


def per_iteration_accumulators(ck, rule, fi, what):
    """G10: a list/dict that is grown inside an inner loop (or directly) and
    handed to a call or stored *inside an outer loop* belongs to that
    iteration: its (re)initialisation must lie inside the outer loop and
    dominate the growth within the iteration.  An accumulator hoisted out
    of the loop carries the entries of earlier iterations along."""
    cfg = cfg_of(fi.node)
    n = 0
    defs = local_defs(fi.node)
    for outer in A.walk_no_nested(fi.node):
        if not isinstance(outer, (ast.For, ast.While)):
            continue
        for c in A.calls_in(outer, ('append', 'extend', 'add', 'update')):
            r = A.call_receiver(c)
            if not isinstance(r, ast.Name):
                continue
            name = r.id
            inits = [d for d in defs.get(name, []) if d.kind == 'assign'
                     and isinstance(d.value, (ast.List, ast.Dict, ast.Set))
                     and not getattr(d.value, 'elts', getattr(
                         d.value, 'keys', None))]
            if not inits:
                continue
            # consumed (passed on / stored) inside the outer loop?
            consumed = False
            for m in A.walk_no_nested(outer):
                if isinstance(m, ast.Call) and m is not c and any(
                        A.is_name(a, name) for a in m.args):
                    consumed = True
                if isinstance(m, ast.Assign) and A.is_name(m.value, name) \
                        and isinstance(m.targets[0], ast.Subscript):
                    consumed = True
            if not consumed:
                continue
            n += 1
            rn = {cfg.node(d.stmt) for d in inits
                  if within(d.stmt, outer)} - {None}
            be = cfg.loops[id(outer)]['body_entry']
            ok = bool(rn) and (be in rn or cfg.must_pass(
                be, cfg.node(c), rn, within=cfg.loop_nodes(outer)))
            ck.require(ok, rule, fi, c,
                       '%s is started afresh in every round before it is '
                       'grown' % name,
                       '%s is grown and used inside the loop over %s but '
                       'initialised outside it: every round also carries '
                       'what the earlier rounds collected' % (name, what), c)
    return n


def no_key_skipped(ck, rule, fi, message):
    """Every loop of ``fi`` over the items of its first parameter handles
    every item: no continue/break/return inside (other than under an
    isinstance test of the value, which separates leaves from branches)."""
    cfg = cfg_of(fi.node)
    p0 = A.params_of(fi.node)[0]
    n = 0
    for lp in A.walk_no_nested(fi.node):
        if not isinstance(lp, ast.For) or p0 not in A.names_in(lp.iter):
            continue
        n += 1
        body = cfg.loop_nodes(lp)
        bad = [cfg.info[x]['stmt'] for x in body if isinstance(
            cfg.info[x]['stmt'], (ast.Continue, ast.Break))]
        bad = [b for b in bad if not all(
            a[0] in ('isinstance', 'notisinstance')
            for a in cfg.guards(cfg.node(b)) - cfg.guards(
                cfg.loops[id(lp)]['body_entry']))]
        ck.require(not bad, rule, fi, bad[0] if bad else lp,
                   'every key is handled at every depth', message,
                   bad[0] if bad else lp)
    return n


def deep_merge_check_shape(ck, rule):
    """deep_merge_check refuses a conflicting value: by identity when
    check_equality is off, by value when it is on - and only then."""
    f = ck.fn('deep_merge_check', 'library.dict_utils')
    cfg = cfg_of(f.node)
    ps = A.params_of(f.node)
    dct, mrg = ps[0], ps[1]
    flag = ps[2] if len(ps) > 2 else 'check_equality'
    raises = [r for r in A.walk_no_nested(f.node) if isinstance(r, ast.Raise)]
    modes = set()
    for r in raises:
        g = cfg.guards(cfg.node(r))
        has_in = any(a[0] == 'in' and a[2] == dct for a in g)
        ident = any(a[0] == 'isnot' and dct in a[1] and mrg in a[2]
                    or a[0] == 'isnot' and mrg in a[1] and dct in a[2]
                    for a in g)
        value = any(a[0] == '!=' and ((dct in a[1] and mrg in a[2]) or
                                      (mrg in a[1] and dct in a[2]))
                    for a in g)
        if has_in and ident and ('falsy', flag) in g:
            modes.add('identity')
        elif has_in and value and ('truthy', flag) in g:
            modes.add('equality')
        else:
            ck.fail(rule, f, r, 'deep_merge_check refuses a value under %s: '
                    'neither "present, check_equality off, not the same '
                    'object" nor "present, check_equality on, not equal"'
                    % sorted(g), r)
    ck.require(modes == {'identity', 'equality'}, rule, f, f.node.name,
               'conflicts are refused by identity (flag off) and by value '
               '(flag on)',
               'deep_merge_check no longer refuses conflicting values in '
               'mode(s) %s: a second, different row for a time that was '
               'already emitted would overwrite the first' % sorted(
                   {'identity', 'equality'} - modes))


def setdefault_before_append(ck, rule, fi):
    """Every ``X[k].append(v)`` / ``X[k][..].append(v)`` on the dictionary
    the function fills is preceded by the creation of ``X[k]`` exactly when
    the key is missing (guard ``k not in X``): created when present it
    would wipe what earlier rows appended, not created when missing it
    raises or - worse - appends to another entry."""
    cfg = cfg_of(fi.node)
    n = 0
    for s in A.walk_no_nested(fi.node):
        if not (isinstance(s, ast.Assign) and isinstance(
                s.targets[0], ast.Subscript) and isinstance(
                s.value, (ast.List, ast.Dict))):
            continue
        empty = (isinstance(s.value, ast.List) and not s.value.elts) or (
            isinstance(s.value, ast.Dict) and (not s.value.keys or all(
                isinstance(v, ast.List) and not v.elts
                for v in s.value.values)))
        if not empty:
            continue
        tgt = s.targets[0]
        if not isinstance(tgt.value, ast.Name):
            continue
        n += 1
        k, X = A.unparse(tgt.slice), tgt.value.id
        g = cfg.guards(cfg.node(s))
        ck.require(('notin', k, X) in g, rule, fi, s,
                   'an empty series is created only for a key that is not '
                   'there yet',
                   '%s is (re)created under %s: the series collected from '
                   'earlier rows is wiped (or never created), so the list '
                   'no longer lines up with the time vector' % (
                       A.unparse(tgt), sorted(
                           a for a in g if X in str(a))), s)
    return n


def target_not_rebound_by_truthiness(ck, rule, quals):
    """G11: a helper that merges into its first parameter in place and hands
    it back may replace a missing target (``is None``) by a new dictionary,
    never a merely EMPTY one: ``dct = dct or {}`` / ``if not dct: dct = {}``
    make the recursion merge into a throw-away dictionary whenever the
    existing target is an empty dict, and what was merged is lost."""
    n = 0
    for qual, module in quals:
        fi = ck.fn_opt(qual, module)
        if fi is None:
            continue
        ps = A.params_of(fi.node)
        if not ps:
            continue
        cfg = cfg_of(fi.node)
        for p in ps[:1]:
            for s in A.walk_no_nested(fi.node):
                if not (isinstance(s, ast.Assign) and A.is_name(
                        s.targets[0], p)):
                    continue
                n += 1
                v = s.value
                by_or = isinstance(v, ast.BoolOp) and isinstance(
                    v.op, ast.Or) and A.is_name(v.values[0], p)
                g = cfg.guards(cfg.node(s))
                by_if = ('falsy', p) in g
                ck.require(not by_or and not by_if, rule, fi, s,
                           '`%s` is replaced only when it is None' % p,
                           '%s replaces its argument `%s` by a new object '
                           'whenever it is falsy (%s): an existing but '
                           'empty dictionary is swapped for a throw-away '
                           'one, and what the (recursive) merge puts there '
                           'is lost' % (fi.qual, p, A.short(s, 40)), s)
    return n


def multi_update_collision_shape(ck, rule):
    """deep_merge_multi_update keeps EVERY colliding value: a collision with
    a value that is already a _multi_update wrapper appends to its list
    (under exactly that test), any other collision wraps both values into a
    new two-element list, old value first."""
    f = ck.fn('deep_merge_multi_update', 'library.dict_utils')
    cfg = cfg_of(f.node)
    dct = A.params_of(f.node)[0]
    apps = [c for c in A.calls_in(f.node, 'append')
            if 'multi_update' in A.unparse(c.func).lower()]
    ck.require(bool(apps), rule, f, f.node.name,
               'a further collision is appended to the existing wrapper',
               'deep_merge_multi_update no longer appends a third colliding '
               'value to the _multi_update list: it is lost or nested')
    for c in apps:
        g = cfg.guards(cfg.node(c))
        ok = any(a[0] == 'in' and 'MULTI_UPDATE_KEY' in str(a[1]) +
                 str(a[2]) or a[0] == 'in' and "_multi_update" in str(a[1])
                 for a in g) and any(
            a[0] == 'isinstance' and 'dict' in str(a[2]) for a in g) and \
            any(a[0] == 'in' and a[2] == dct for a in g)
        ck.require(ok, rule, f, c,
                   'the append happens exactly when the existing value is a '
                   '_multi_update wrapper',
                   'the append to the _multi_update list is guarded by %s '
                   'instead of "key present, value is a dict that has the '
                   '_multi_update key": a third update for a variable is '
                   'nested inside the wrapper or replaces it' % sorted(g), c)
    wraps = [s for s in A.walk_no_nested(f.node) if isinstance(s, ast.Assign)
             and isinstance(s.value, ast.Dict) and len(s.value.keys) == 1 and
             'multi_update' in A.unparse(s.value.keys[0]).lower()]
    ck.require(bool(wraps), rule, f, f.node.name,
               'a first collision wraps both values', None)
    for s in wraps:
        v = s.value.values[0]
        ok = isinstance(v, ast.List) and len(v.elts) == 2 and \
            dct in A.names_in(v.elts[0]) and dct not in A.names_in(v.elts[1])
        g = cfg.guards(cfg.node(s))
        ok = ok and any(a[0] == 'in' and a[2] == dct for a in g)
        ck.require(ok, rule, f, s,
                   'the wrapper lists the existing value, then the new one',
                   'the _multi_update wrapper is built as %s (under %s): '
                   'colliding updates are applied in the wrong order or one '
                   'of them is dropped' % (A.unparse(v), sorted(g)), s)
