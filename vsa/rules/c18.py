"""C18 - timeseries and query views of emitted data lose nothing."""

import ast

from .. import astutil as A
from ..cfg import cfg_of, within
from ..dataflow import derives, local_defs, reaching

EXPL = (
    'Presence is never tested by truthiness, and there is one append per '
    'cell: in the query and timeseries functions a value obtained from '
    'emitted data (get_in / dict.get / a value target of .items() or '
    '.values()) is never used bare as a branch or filter condition (the '
    'accepted forms compare with None or use isinstance); the time vector '
    'and the value lists derive from one iteration order of the same '
    'mapping (no independent sort or filter); value_in_embedded_dict '
    'performs exactly one append per leaf per row on every path. Not '
    'decided: cell-by-cell equality of the views with the raw data.')

SCOPE = [('RAMEmitter.get_data', 'core.emitter'),
         ('timeseries_from_data', 'core.emitter'),
         ('path_timeseries_from_data', 'core.emitter'),
         ('path_timeseries_from_embedded_timeseries', 'core.emitter'),
         ('value_in_embedded_dict', 'library.dict_utils'),
         ('make_path_dict', 'library.dict_utils'),
         ('get_path_list_from_dict', 'library.dict_utils'),
         ('get_value_from_path', 'library.dict_utils')]


def check(ck):
    ck.explanation = EXPL
    ck.technique = ('truthiness-taint rule over data-derived values, '
                    'iteration-order agreement, CFG must-pass-through / '
                    'at-most-once for appends')
    r18_1(ck)
    r18_2(ck)
    r18_3(ck)
    from . import helpers as H
    ck.rule('R18.4', 'get_in and assoc_path, with which a query is answered, keep their recursion skeleton')
    H.get_in_shape(ck, 'R18.4')
    H.assoc_path_shape(ck, 'R18.4')
    ck.rule('R18.5', 'paths_to_dict (query results) places each value at '
            'its own path; make_path_dict (path timeseries) reads each '
            'value at its whole path')
    H.paths_to_dict_shape(ck, 'R18.5')
    H.make_path_dict_shape(ck, 'R18.5')
    H.recursion_forwards(ck, 'R18.5', [
        ('value_in_embedded_dict', 'library.dict_utils'),
        ('get_path_list_from_dict', 'library.dict_utils'),
        ('make_path_dict', 'library.dict_utils')])
    ck.rule('R18.8', 'each row of a query is built from that row alone (the '
            'list of found values is started afresh for every time), and '
            'flattening keeps every key at every depth (only the top-level '
            "'time' vector is set aside, by the caller)")
    H.per_iteration_accumulators(
        ck, 'R18.8', ck.fn('RAMEmitter.get_data', 'core.emitter'),
        'the saved times')
    for q in ('get_path_list_from_dict', 'value_in_embedded_dict'):
        H.no_key_skipped(
            ck, 'R18.8', ck.fn(q, 'library.dict_utils'),
            '%s skips keys while walking the data: a variable with that '
            'name is dropped at every nesting depth, not only the '
            "top-level 'time' vector" % q)
    n = H.setdefault_before_append(
        ck, 'R18.8', ck.fn('value_in_embedded_dict', 'library.dict_utils'))
    vf = ck.fn('value_in_embedded_dict', 'library.dict_utils')
    n += sum(1 for c in A.calls_in(vf.node, 'setdefault'))
    ck.floor('R18.8', n, 3, 'series creations in value_in_embedded_dict')
    # whether a value carries units is decided by its type, never by the
    # truthiness of the value or of its magnitude
    cfgv = cfg_of(vf.node)
    for lp in A.walk_no_nested(vf.node):
        if not isinstance(lp, ast.For) or not isinstance(
                lp.target, ast.Tuple) or len(lp.target.elts) != 2:
            continue
        val = A.unparse(lp.target.elts[1])
        tainted = {val}
        for nm, ds in local_defs(vf.node).items():
            if any(d.value is not None and val in A.names_in(d.value)
                   and not isinstance(d.value, (ast.Dict, ast.List))
                   for d in ds):
                tainted.add(nm)
        for test, where in conditions(vf):
            bad = [A.unparse(op) for op in truthy_operands(test)
                   if (isinstance(op, ast.Name) and op.id in tainted) or (
                       isinstance(op, ast.Attribute) and A.is_name(
                           op.value, val))]
            ck.require(not bad, 'R18.8', vf, test,
                       'no truthiness test on an emitted value or its '
                       'magnitude',
                       'value_in_embedded_dict tests the truthiness of `%s`, '
                       'taken from the emitted value: a quantity whose '
                       'magnitude is 0 is filed as a plain value under '
                       'another key and the series falls out of step with '
                       'the time vector' % ', '.join(bad), where,
                       extra={'positive': True})
    r18_7(ck)


def r18_7(ck):
    ck.rule('R18.7', 'a queried view is the view of the queried raw data: '
            'every get_* method of an emitter that takes a query hands it '
            'on to the get_* method it builds on (the selection happens on '
            'the raw data, where a variable is addressed by its path - in '
            'the flattened forms a unit-carrying variable sits under a '
            '(name, unit) key that no queried path equals)')
    n = 0
    for cname in ('Emitter', 'RAMEmitter', 'SharedRamEmitter',
                  'DatabaseEmitter', 'NullEmitter'):
        ci = ck.repo.cls(cname, required=False)
        if ci is None:
            continue
        for mname, m in sorted(ci.methods.items()):
            ps = A.params_of(m.node)
            if 'query' not in ps or not mname.startswith('get_'):
                continue
            ck.functions.add(m.fq)
            for c in A.calls_in(m.node):
                nm = A.call_name(c)
                if not nm or not nm.startswith('get_') or not A.is_name(
                        A.call_receiver(c), 'self'):
                    continue
                callee = ck.repo.method(cname, nm)
                if callee is None or 'query' not in A.params_of(callee.node):
                    continue
                n += 1
                idx = A.params_of(callee.node).index('query') - 1
                a = A.arg_of(c, idx, 'query')
                ck.require(A.is_name(a, 'query'), 'R18.7', m, c,
                           'the query is handed on to %s' % nm,
                           '%s.%s builds on self.%s(...) without its query '
                           '(%s): the selection is made later on another '
                           'form of the data, where some queried variables '
                           'are no longer found under their path' % (
                               cname, mname, nm, A.unparse(c)), c)
    ck.floor('R18.7', n, 3, 'query-forwarding calls in emitters')
    from . import c14
    ck.shared('R18.6', 'reading the emitted data back rebuilds every '
              'container element by element: the list and dict '
              'deserializers apply deserialize_value to every element',
              c14.r14_4)


def tainted_names(f):
    """Locals bound to values read out of data containers."""
    out = {}
    for name, ds in local_defs(f.node).items():
        for d in ds:
            v = d.value
            if d.kind == 'assign' and isinstance(v, ast.Call) and (
                    A.call_name(v) == 'get_in' or (
                        A.call_name(v) == 'get' and
                        A.call_receiver(v) is not None) or
                    A.call_name(v) == 'get_value_from_path'):
                out[name] = d
            if d.kind == 'assign' and isinstance(v, ast.Subscript):
                out[name] = d
            if d.kind == 'for' and isinstance(v, ast.Call) and \
                    A.call_name(v) in ('items', 'values'):
                tgt = d.stmt.target
                if A.call_name(v) == 'values' and A.is_name(tgt, name):
                    out[name] = d
                if A.call_name(v) == 'items' and isinstance(
                        tgt, ast.Tuple) and len(tgt.elts) == 2 and \
                        A.is_name(tgt.elts[1], name):
                    out[name] = d
    return out


def conditions(f):
    for n in ast.walk(f.node):
        if isinstance(n, (ast.If, ast.While)):
            yield n.test, n
        elif isinstance(n, ast.IfExp):
            yield n.test, n
        elif isinstance(n, ast.comprehension):
            for c in n.ifs:
                yield c, c


def truthy_operands(test):
    """Names used by truthiness inside a condition."""
    out = []
    if isinstance(test, ast.BoolOp):
        for v in test.values:
            out += truthy_operands(v)
    elif isinstance(test, ast.UnaryOp) and isinstance(test.op, ast.Not):
        out += truthy_operands(test.operand)
    elif isinstance(test, ast.Name):
        out.append(test)
    elif isinstance(test, ast.Call) and A.call_name(test) in (
            'get_in', 'get') and not (
            A.call_name(test) == 'get' and A.call_receiver(test) is None):
        out.append(test)
    elif isinstance(test, ast.Call) and A.is_name(test.func, 'bool') and \
            test.args:
        out += truthy_operands(test.args[0])
    return out


def r18_1(ck):
    ck.rule('R18.1', 'presence test: a value read out of emitted data is '
            'never used bare as a branch or filter condition')
    n = 0
    for q, m in SCOPE:
        f = ck.fn(q, m)
        if q == 'path_timeseries_from_embedded_timeseries':
            # its items are whole series (variable -> list), never cells:
            # dropping an empty series loses no emitted value
            continue
        taint = tainted_names(f)
        # comprehension targets over .items()/.values()
        comp_taint = set()
        for c in ast.walk(f.node):
            if isinstance(c, ast.comprehension) and isinstance(
                    c.iter, ast.Call) and A.call_name(c.iter) in (
                    'items', 'values'):
                if A.call_name(c.iter) == 'values' and isinstance(
                        c.target, ast.Name):
                    comp_taint.add(c.target.id)
                if A.call_name(c.iter) == 'items' and isinstance(
                        c.target, ast.Tuple) and len(c.target.elts) == 2 \
                        and isinstance(c.target.elts[1], ast.Name):
                    comp_taint.add(c.target.elts[1].id)
        for test, where in conditions(f):
            n += 1
            bad = []
            for op in truthy_operands(test):
                if isinstance(op, ast.Name) and (op.id in taint or
                                                 op.id in comp_taint):
                    bad.append(op.id)
                elif isinstance(op, ast.Call):
                    bad.append(A.unparse(op))
            ck.require(not bad, 'R18.1', f, test,
                       'no truthiness test on data-derived values',
                       'the presence of `%s` (a value read from emitted '
                       'data) is tested by truthiness: values equal to 0, '
                       'False, "" or [] are dropped from the result'
                       % ', '.join(bad), where)
    ck.floor('R18.1', n, 6, 'conditions in query/timeseries functions')
    gd = ck.fn('RAMEmitter.get_data', 'core.emitter')
    cfg = cfg_of(gd.node)
    apps = [c for c in A.calls_in(gd.node, 'append')]
    ok = False
    for a in apps:
        g = cfg.guards(cfg.node(a))
        extra = {x for x in g if x[0] in ('isnot', 'truthy', 'falsy', 'is',
                                          '==', '!=')
                 and x != ('truthy', A.params_of(gd.node)[1])}
        ok = extra <= {x for x in extra if x[0] == 'isnot' and
                       x[2] == 'None'}
        ck.require(ok, 'R18.1', gd, a,
                   'a queried value is kept unless it is absent (None)',
                   'a queried value is filtered by %s' % sorted(extra), a)
        ck.require(any(x[0] == 'isnot' and x[2] == 'None' for x in g),
                   'R18.1', gd, a,
                   'a path that is absent at a time (get_in gives None) is '
                   'left out of that row',
                   'every queried path is put into every row, found or '
                   'not: a variable that did not exist at a time (before '
                   'an agent was born, after it was removed) appears there '
                   'with the value None', a)
    # the values of a row are collected somewhere, and under the "found"
    # test: appends (checked above) or a comprehension with that filter
    comps = [c for c in ast.walk(gd.node) if isinstance(c, ast.ListComp)
             and any(A.call_name(x) == 'get_in' for x in A.calls_in(c))]
    for h in [x for x in ck.repo.functions if x.cls == gd.cls and
              x.name.startswith('_') and any(
                  A.call_name(c) == x.name for c in A.calls_in(gd.node))]:
        comps += [c for c in ast.walk(h.node) if isinstance(c, ast.ListComp)
                  and any(A.call_name(x) == 'get_in'
                          for x in A.calls_in(c))]
        apps = apps + [c for c in A.calls_in(h.node, 'append')]
    for c in comps:
        found = any(isinstance(t, ast.Compare) and isinstance(
            t.ops[0], ast.IsNot) and isinstance(
            t.comparators[0], ast.Constant) and
            t.comparators[0].value is None
            for g2 in c.generators for t in g2.ifs)
        ck.require(found, 'R18.1', gd, c,
                   'a path that is absent at a time (get_in gives None) is '
                   'left out of that row',
                   'every queried path is put into every row, found or '
                   'not: a variable that did not exist at a time appears '
                   'there with the value None', c)
    ck.require(bool(apps) or bool(comps), 'R18.1', gd, gd.node.name,
               'the queried values of a row are collected',
               'get_data(query) no longer collects the values found at the '
               'queried paths: every row of a queried history is empty')
    # every saved time gets a row, every queried path is looked up (loops
    # or comprehensions, here or in a private helper called from here)
    q = A.params_of(gd.node)[1]
    iters = [(A.unparse(n2.iter), None) for n2 in ast.walk(gd.node)
             if isinstance(n2, (ast.For, ast.comprehension))]
    for c in A.calls_in(gd.node):
        nm = A.call_name(c)
        if not nm or not nm.startswith('_') or nm.startswith('__'):
            continue
        h = ck.repo.method(gd.cls, nm) if gd.cls else None
        if h is None or not any(A.is_name(a, q) for a in c.args):
            continue
        hp = A.params_of(h.node)
        static = not hp or hp[0] != 'self'
        for i, a in enumerate(c.args):
            if A.is_name(a, q):
                j = i if static else i + 1
                if j < len(hp):
                    iters += [(A.unparse(n2.iter), hp[j])
                              for n2 in ast.walk(h.node) if isinstance(
                                  n2, (ast.For, ast.comprehension))]
    ok = any('self.saved_data.items()' in it for it, _p in iters) and any(
        it == (p_ or q) for it, p_ in iters)
    ck.require(ok, 'R18.1', gd, gd.node.name,
               'the query visits every saved time and every queried path',
               'get_data(query) no longer iterates all times x all paths')
    st = [s for s in A.walk_no_nested(gd.node) if isinstance(s, ast.Assign)
          and isinstance(s.targets[0], ast.Subscript) and A.unparse(
              s.targets[0].value) in {
                  r.value.id for r in A.walk_no_nested(gd.node)
                  if isinstance(r, ast.Return)
                  and isinstance(r.value, ast.Name)}]
    ok = bool(st) and all(cfg.guards(cfg.node(s)) <= {
        ('truthy', A.params_of(gd.node)[1])} for s in st)
    # ... or the rows are one unfiltered dict comprehension over the times
    for r in A.walk_no_nested(gd.node):
        if isinstance(r, ast.Return) and isinstance(
                r.value, ast.DictComp) and not st:
            g = r.value.generators
            ok = len(g) == 1 and not g[0].ifs and \
                'self.saved_data.items()' in A.unparse(g[0].iter) and \
                A.unparse(r.value.key) == A.unparse(g[0].target.elts[0]) \
                if isinstance(g[0].target, ast.Tuple) else False
    ck.require(ok, 'R18.1', gd, st[0] if st else gd.node.name,
               'a row is produced for every emitted time', None)


def r18_2(ck):
    ck.rule('R18.2', 'alignment: time vector and value lists come from one '
            'iteration order of the same mapping; exactly one append per '
            'leaf per row')
    f = ck.fn('timeseries_from_data', 'core.emitter')
    data = A.params_of(f.node)[0]
    # what is stored under 'time' (through a local or directly)
    from ..dataflow import expand
    tstores = [s2 for s2 in A.walk_no_nested(f.node)
               if isinstance(s2, ast.Assign) and isinstance(
                   s2.targets[0], ast.Subscript) and A.subscript_key(
                   s2.targets[0]) == 'time']
    ck.require(bool(tstores), 'R18.2', f, "embedded_timeseries['time']",
               "the time vector is stored under 'time'", None)
    for s2 in tstores:
        v = expand(f.node, s2.value, s2)
        ok = isinstance(v, ast.Call) and A.is_name(v.func, 'list') and \
            len(v.args) == 1 and A.unparse(v.args[0]) in (
                data + '.keys()', data)
        ck.require(ok, 'R18.2', f, s2,
                   'the time vector is list(data.keys()): the insertion '
                   'order shared with data.values()',
                   'the time vector is %s: ordered independently of the '
                   'rows, so values no longer line up with their times'
                   % A.unparse(v), s2)
    loops = [n for n in A.walk_no_nested(f.node) if isinstance(n, ast.For)]
    if not loops and any(A.call_name(c) in ('reduce', 'map', 'accumulate')
                         for c in A.calls_in(f.node)):
        ck.undecided('R18.2', f, f.node.name,
                     'the rows are folded by a higher-order function '
                     '(reduce/map), not by a loop: no recogniser')
        loops = None
    ok = loops is None or (
        len(loops) == 1 and A.unparse(loops[0].iter) == data + '.values()')
    ck.require(ok, 'R18.2', f, loops[0] if loops else f.node.name,
               'rows are visited as data.values() in one pass',
               'the rows are not visited as data.values() (filtered or '
               're-ordered): %s' % (A.unparse(loops[0].iter)
                                    if loops else 'no loop'))
    if loops:
        cfg = cfg_of(f.node)
        calls = [c for c in A.calls_in(loops[0], 'value_in_embedded_dict')]
        ok = len(calls) == 1 and A.unparse(A.arg_of(calls[0], 0)) == \
            A.unparse(loops[0].target)
        ck.require(ok, 'R18.2', f, calls[0] if calls else loops[0],
                   'each row is folded into the timeseries once', None)
        if calls:
            g = cfg.guards(cfg.node(calls[0])) - cfg.guards(
                cfg.loops[id(loops[0])]['body_entry'])
            ok = g <= {('isinstance', A.unparse(loops[0].target), 'dict')}
            ck.require(ok, 'R18.2', f, calls[0],
                       'no row is skipped (other than non-dict rows)',
                       'rows are skipped under %s' % sorted(g), calls[0])
    # value_in_embedded_dict
    v = ck.fn('value_in_embedded_dict', 'library.dict_utils')
    cfg = cfg_of(v.node)
    loop = [n for n in A.walk_no_nested(v.node) if isinstance(n, ast.For)]
    ck.require(len(loop) == 1 and '.items()' in A.unparse(loop[0].iter),
               'R18.2', v, v.node.name,
               'every key of the row is visited', None)
    if not loop:
        return
    loop = loop[0]
    valv = A.unparse(loop.target.elts[1])
    hdr = cfg.loops[id(loop)]['header']
    body = cfg.loop_nodes(loop)
    apps = {}
    for c in A.calls_in(loop, 'append'):
        if A.unparse(A.arg_of(c, 0)) in (valv, valv + '.magnitude'):
            apps[cfg.node(c)] = c
    ck.floor('R18.2', len(apps), 2, 'value appends')
    # leaf branches: edge nodes with notisinstance(value, dict)
    starts = [n for n in body if cfg.info[n]['kind'] == 'edge' and
              cfg.info[n].get('cond') is not None and
              ('notisinstance', valv, 'dict') in A.cond_atoms(
                  cfg.info[n]['cond'], cfg.info[n]['pol'])]
    ck.require(bool(starts), 'R18.2', v, loop,
               'leaves are told apart from sub-dictionaries by isinstance',
               'value_in_embedded_dict no longer separates leaves from '
               'sub-dictionaries with isinstance', loop)
    for s in starts:
        ok = cfg.must_pass(s, hdr, set(apps), within=body | {hdr})
        ck.require(ok, 'R18.2', v, 'leaf branch of value_in_embedded_dict',
                   'every leaf of every row appends its value on every path',
                   'a leaf value can be skipped (no append on some path): '
                   'the list falls out of step with the time vector', loop)
    for a, c in apps.items():
        others = set(apps) - {a}
        twice = cfg.reach_without(a, others, {hdr}, within=body | {hdr})
        ck.require(not twice, 'R18.2', v, c,
                   'at most one value append per leaf per row', 'a leaf '
                   'value can be appended twice for one row', c)
    rec = [c for c in A.calls_in(loop, 'value_in_embedded_dict')]
    ok = bool(rec) and any(('isinstance', valv, 'dict') in cfg.guards(
        cfg.node(c)) for c in rec)
    ck.require(ok, 'R18.2', v, rec[0] if rec else loop,
               'sub-dictionaries are descended into', None)
    p = ck.fn('path_timeseries_from_embedded_timeseries', 'core.emitter')
    src = A.params_of(p.node)[0]
    for test, where in conditions(p):
        atoms = A.cond_atoms(test, True)
        ok = False
        # the only thing left out is the TOP-LEVEL 'time' entry
        for c in ast.walk(p.node):
            if isinstance(c, ast.comprehension) and test in c.ifs and \
                    A.unparse(c.iter) == src + '.items()' and isinstance(
                        c.target, ast.Tuple):
                k = A.unparse(c.target.elts[0])
                v = A.unparse(c.target.elts[1])
                # dropping an EMPTY series loses no emitted value
                ok = ('!=', "'time'", k) in atoms and atoms <= {
                    ('!=', "'time'", k), ('truthy', v)}
        ck.require(ok, 'R18.2', p, test,
                   "only the top-level 'time' entry is left out of the "
                   'flattening',
                   'the path timeseries filters with `%s`: columns other '
                   "than the top-level 'time' vector are dropped" %
                   A.unparse(test), where)
    ok = any(A.call_name(c) == 'make_path_dict' for c in A.calls_in(p.node)) \
        and any(isinstance(s, ast.Assign) and isinstance(
            s.targets[0], ast.Subscript) and A.subscript_key(
            s.targets[0]) == 'time' for s in A.walk_no_nested(p.node))
    ck.require(ok, 'R18.2', p, p.node.name,
               'the path timeseries is the flattened embedded timeseries '
               'plus the same time vector', None)


def r18_3(ck):
    ck.rule('R18.3', 'the views are recomputed from the data on every call '
            'and the paths are the keys: the query / timeseries functions '
            'and emitter getters keep no state (no attribute or module-level '
            'writes), and get_path_list_from_dict uses each dictionary key '
            'as ONE path element')
    mod_e = ck.repo.module('core.emitter')
    mod_d = ck.repo.module('library.dict_utils')
    n = 0
    targets = [ck.fn(q, m) for q, m in SCOPE]
    for cname in ('Emitter', 'RAMEmitter', 'SharedRamEmitter'):
        ci = ck.repo.cls(cname, required=False)
        if ci is None:
            continue
        for key, m in ci.methods.items():
            if m.name.startswith('get_'):
                targets.append(m)
    for f in targets:
        n += 1
        ck.functions.add(f.fq)
        mod = ck.repo.modules[f.module]
        bad = []
        for s2 in ast.walk(f.node):
            if isinstance(s2, (ast.Global, ast.Nonlocal)):
                bad.append(s2)
            if isinstance(s2, (ast.Assign, ast.AugAssign, ast.AnnAssign)):
                for t in A.assigned_targets(s2):
                    if isinstance(t, ast.Attribute) and A.is_name(
                            t.value, 'self'):
                        bad.append(s2)
                    if isinstance(t, ast.Subscript):
                        ch = A.attr_chain(t.value) if not isinstance(
                            t.value, ast.Name) else [t.value.id]
                        if ch and (ch[0] in mod.assigns or (
                                ch[0] == 'self' and len(ch) >= 2)):
                            bad.append(s2)
            if isinstance(s2, ast.Call) and isinstance(
                    s2.func, ast.Attribute) and s2.func.attr in (
                    'setdefault', 'update', 'append', 'add') and isinstance(
                    s2.func.value, ast.Name) and s2.func.value.id in \
                    mod.assigns:
                bad.append(s2)
        ck.require(not bad, 'R18.3', f, bad[0] if bad else f.node.name,
                   'no state is kept between calls',
                   '%s stores state outside its arguments (%s): a cached '
                   'answer goes stale when more data is emitted, or leaks '
                   'from one history to the next' % (
                       f.qual, A.short(bad[0], 50) if bad else ''),
                   bad[0] if bad else None)
    ck.floor('R18.3', n, 10, 'query / view functions')
    g = ck.fn('get_path_list_from_dict', 'library.dict_utils')
    lp = [l for l in A.walk_no_nested(g.node) if isinstance(l, ast.For)
          and '.items()' in A.unparse(l.iter)]
    ok = bool(lp)
    if ok:
        key = A.unparse(lp[0].target.elts[0])
        for s2 in A.walk_no_nested(g.node):
            if isinstance(s2, ast.Assign) and A.is_name(
                    s2.targets[0], 'path'):
                v = s2.value
                head = v.left if isinstance(v, ast.BinOp) else v
                good = isinstance(head, ast.Tuple) and len(
                    head.elts) == 1 and A.unparse(head.elts[0]) == key
                ck.require(good, 'R18.3', g, s2,
                           'a path starts with the key as one element: '
                           '(key,)',
                           'a path is built as %s: a key that is itself a '
                           'tuple (a variable with units) is spliced into '
                           'the path and the value can no longer be found'
                           % A.unparse(v), s2)
        spl = [c for c in A.calls_in(g.node, 'isinstance')
               if key in A.names_in(c)]
        ck.require(not spl, 'R18.3', g, spl[0] if spl else g.node.name,
                   'keys are not inspected (every key is one path element)',
                   'get_path_list_from_dict treats some keys specially (%s)'
                   % (A.unparse(spl[0]) if spl else ''),
                   spl[0] if spl else None)
    ck.require(ok, 'R18.3', g, g.node.name,
               'the dictionary is walked item by item', None)
