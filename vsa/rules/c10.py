"""C10 - the engine runs exactly what is in the hierarchy after any
structural history."""

import ast

from .. import astutil as A
from ..cfg import cfg_of, within
from ..dataflow import derives, local_defs, reaching
from ..engine_model import RunFor
from .roles import contributions

EXPL = (
    "The engine's bookkeeping is a faithful fold of what the store reports: "
    'the tuple orders of every reporter/consumer pair agree (move, insert, '
    'divide -> Store.apply_update -> Engine.apply_update); each reported '
    'list is folded into the matching published dictionary with the loop '
    'item; every process reaches _add_process_path and every step '
    '_add_step_path with its dependencies from the same batch; the '
    'parallelised objects are the ones registered and written back into the '
    'store; reporters partition nodes into processes and steps, report '
    'flows with steps and never a None flow; every one of the seven engine '
    'registries has a remover keyed on the deleted prefix and every '
    'reported deletion reaches it; new paths start at the current clock; '
    'reported paths are absolute. Not decided: trajectory equality of a '
    'rebuilt engine.')

KINDS = ['topology', 'process', 'step', 'flow', 'deletion', 'expire']


def kind_of(name):
    n = name.lower()
    for k in KINDS:
        if k in n:
            return k
    if 'delet' in n:
        return 'deletion'
    return None


def check(ck):
    ck.explanation = EXPL
    ck.technique = ('writer/reader tuple-order agreement, fold agreement by '
                    'loop-item provenance, exhaustiveness against a frozen '
                    'registry table, branch exclusivity via CFG guards, path '
                    'provenance')
    r10_7(ck)
    r10_1(ck)
    r10_2(ck)
    r10_3(ck)
    r10_4(ck)
    r10_5(ck)
    r10_6(ck)
    r10_8(ck)
    r10_9(ck)
    r10_10(ck)
    r10_11(ck)
    r10_12(ck)
    r10_13(ck)
    r10_14(ck)
    from . import c05
    ck.shared('R10.15', 'the step registry of the engine follows the '
              'hierarchy: a step that left is removed from the collection '
              'it is kept in (sequential list or graph), and the layers of '
              'a phase are a list fixed when the phase begins, not a live '
              'view of collections that structural updates change',
              c05.r05_4, c05.r05_7)
    from . import c11
    ck.shared('R10.16', 'what the engine publishes for one daughter is not '
              'shared with the other: each inheriting daughter gets its own '
              'deep copy of the processes, topology and flow of the mother '
              '(the published dictionaries are edited in place when a part '
              'of one daughter is deleted later)',
              c11.r11_3)
    from . import c17
    ck.shared('R10.17', 'what the store reports is keyed by the absolute '
              'path of the node as the tree stands now: path_for() is '
              'computed from the outer links at every call (no path '
              'remembered from before a move)',
              c17.r17_5)


def _ret_tuples(fi):
    out = []
    for r in A.walk_no_nested(fi.node):
        if isinstance(r, ast.Return) and isinstance(r.value, ast.Tuple):
            out.append(r)
    return out


def _kinds_of_tuple(t):
    return [kind_of(A.unparse(e)) for e in t.elts]


def _agree(a, b):
    """Two kind sequences agree when they have the same length and no
    position carries two different kinds (a name that says nothing about
    its kind - None - agrees with anything)."""
    return len(a) == len(b) and all(
        x == y for x, y in zip(a, b) if x is not None and y is not None)


def positional_kinds(fnode):
    """{local name: kind} for the names that unpack the 6-tuple result of
    Store.apply_update in ``fnode``: the kind is given by the position
    (names need not say it)."""
    out = {}
    for c in A.calls_in(fnode, 'apply_update'):
        st = c
        while not isinstance(st, ast.stmt):
            st = st._parent
        if isinstance(st, ast.Assign) and isinstance(
                st.targets[0], ast.Tuple) and len(
                st.targets[0].elts) == 6:
            for k, e in zip(KINDS, st.targets[0].elts):
                if isinstance(e, ast.Name):
                    out[e.id] = k
    return out


def r10_7(ck):
    ck.rule('R10.7', 'tuple-order agreement: each consumer unpacks the '
            'update lists in the order its producer returns them')
    sa = ck.fn('Store.apply_update', 'core.store')
    ea = ck.fn('Engine.apply_update', 'core.engine')
    n = 0
    prod = [r for r in _ret_tuples(sa) if len(r.value.elts) == 6]
    ck.require(bool(prod), 'R10.7', sa, sa.node.name,
               'Store.apply_update returns a 6-tuple of update lists', None)
    if not prod:
        return
    order = _kinds_of_tuple(prod[0].value)
    ck.require(_agree(order, KINDS), 'R10.7', sa, prod[0],
               'order: topology, process, step, flow, deletions, expire',
               'Store.apply_update returns its lists in the order %s' %
               order, prod[0])
    # consumers of Store.apply_update
    for fi in (sa, ea):
        for c in A.calls_in(fi.node, 'apply_update'):
            st = c
            while not isinstance(st, ast.stmt):
                st = st._parent
            if isinstance(st, ast.Assign) and isinstance(
                    st.targets[0], ast.Tuple) and len(
                    st.targets[0].elts) == 6:
                n += 1
                got = _kinds_of_tuple(st.targets[0])
                ck.require(_agree(got, order) and _agree(got, KINDS),
                           'R10.7', fi, st,
                           'unpack order equals the return order of '
                           'Store.apply_update',
                           'the result of Store.apply_update is unpacked as '
                           '%s but returned as %s: lists end up in the '
                           'wrong registry' % (got, order), st)
    # reporters
    for meth in ('move', 'insert', 'divide'):
        fi = ck.fn('Store.' + meth, 'core.store')
        rts = _ret_tuples(fi)
        if not rts:
            ck.fail('R10.7', fi, fi.node.name, 'reporter returns no tuple')
            continue
        porder = _kinds_of_tuple(rts[0].value)
        for c in A.calls_in(sa.node, meth):
            if not A.is_name(A.call_receiver(c), 'self'):
                continue
            st = c
            while not isinstance(st, ast.stmt):
                st = st._parent
            if isinstance(st, ast.Assign) and isinstance(
                    st.targets[0], ast.Tuple):
                n += 1
                got = _kinds_of_tuple(st.targets[0])
                ck.require(_agree(got, porder), 'R10.7', sa, st,
                           'unpack order equals the return order of '
                           'Store.' + meth,
                           'Store.%s returns %s but its result is unpacked '
                           'as %s' % (meth, porder, got), st)
                # each unpacked list is folded into the list of its kind
                for e in st.targets[0].elts:
                    nm = A.unparse(e)
                    k = kind_of(nm)
                    ext = [x for x in A.calls_in(sa.node, 'extend')
                           if x.args and A.is_name(x.args[0], nm)]
                    ok = bool(ext) and all(kind_of(A.unparse(
                        A.call_receiver(x))) in (k, None) or k is None
                        for x in ext)
                    ck.require(ok, 'R10.7', sa, st,
                               '%s is folded into the %s list' % (nm, k),
                               'the %s reported by Store.%s are not folded '
                               'into the %s list of apply_update' % (
                                   nm, meth, k), st)
    # inner results folded by kind
    for c in A.calls_in(sa.node, 'apply_update'):
        st = c
        while not isinstance(st, ast.stmt):
            st = st._parent
        if isinstance(st, ast.Assign) and isinstance(
                st.targets[0], ast.Tuple) and len(st.targets[0].elts) == 6:
            for e in st.targets[0].elts[:5]:
                nm = A.unparse(e)
                k = KINDS[list(st.targets[0].elts).index(e)]
                ext = [x for x in A.calls_in(sa.node, 'extend')
                       if x.args and A.is_name(x.args[0], nm)]
                ok = bool(ext) and all(kind_of(A.unparse(
                    A.call_receiver(x))) in (k, None) for x in ext)
                ck.require(ok, 'R10.7', sa, st,
                           "a child's %s list is folded into this node's "
                           '%s list' % (k, k),
                           "the %s list reported by a child is dropped or "
                           'folded into the wrong list' % k, st)
    ck.floor('R10.7', n, 5, 'producer/consumer tuple pairs')


def r10_1(ck):
    ck.rule('R10.1', 'fold agreement: each reported list is folded into the '
            'matching published dictionary with the item of the loop')
    f = ck.fn('Engine.apply_update', 'core.engine')
    want = {'topology': 'self.topology', 'flow': 'self.flow',
            'process': 'self.processes', 'step': 'self.steps'}
    found = {}
    for c in A.calls_in(f.node, 'assoc_path'):
        loop = None
        p = c
        while p is not None and p is not f.node:
            if isinstance(p, ast.For):
                loop = p
                break
            p = p._parent
        if loop is None or not isinstance(loop.target, ast.Tuple) or \
                not isinstance(loop.iter, ast.Name):
            continue
        k = local_kind(f.node, loop.iter.id)
        if k not in want:
            continue
        found[k] = c
        pathv = A.unparse(loop.target.elts[0])
        itemv = A.unparse(loop.target.elts[1])
        a0, a1, a2 = A.arg_of(c, 0), A.arg_of(c, 1), A.arg_of(c, 2)
        ck.require(A.unparse(a0) == want[k], 'R10.1', f, c,
                   'the %s list is folded into %s' % (k, want[k]),
                   'the %s updates are stored into %s instead of %s' % (
                       k, A.unparse(a0), want[k]), c)
        ck.require(A.unparse(a1) == pathv, 'R10.1', f, c,
                   'stored at the reported path', None, c)
        ok = derives(f.node, a2, lambda x: A.is_name(x, itemv), at=c) and \
            not A.is_name(a2, loop.iter.id)
        ck.require(ok, 'R10.1', f, c,
                   'the value stored is the item of this iteration',
                   'the value stored for a %s update is %s, not the loop '
                   'item %s' % (k, A.unparse(a2), itemv), c)
    for k in sorted(want):
        ck.require(k in found, 'R10.1', f, 'fold of the %s list' % k,
                   'the %s list is folded into %s' % (k, want[k]),
                   'the %s updates reported by the store are no longer '
                   'written into %s: the published composite goes stale'
                   % (k, want[k]))
    ck.floor('R10.1', len(found), 4, 'folded lists')


def local_kind(fnode, name):
    """Kind of a local of Engine.apply_update: by its position in the
    unpacked store result, else by the single positional local it is
    computed from, else by what its name says."""
    pk = positional_kinds(fnode)
    if name in pk:
        return pk[name]
    kinds = set()
    for d in local_defs(fnode).get(name, []):
        if d.value is not None:
            kinds |= {pk[x] for x in A.names_in(d.value) if x in pk}
    if len(kinds) == 1:
        return kinds.pop()
    return kind_of(name)


def r10_2(ck):
    ck.rule('R10.2', 'registration: every reported process reaches '
            '_add_process_path, every step _add_step_path with its '
            'dependencies from the flow of the same batch; the parallelised '
            'objects are registered and written back into the store')
    f = ck.fn('Engine.apply_update', 'core.engine')
    cfg = cfg_of(f.node)

    def loops_over(kind):
        out = []
        for n in A.walk_no_nested(f.node):
            if isinstance(n, ast.For) and isinstance(n.iter, ast.Name) and \
                    isinstance(n.target, ast.Tuple) and len(
                        n.target.elts) == 2 and \
                    local_kind(f.node, n.iter.id) == kind:
                out.append(n)
        return out
    for kind, meth in (('process', '_add_process_path'),
                       ('step', '_add_step_path')):
        regs = []
        for lp in loops_over(kind):
            for c in A.calls_in(lp, meth):
                regs.append((lp, c))
        ck.require(bool(regs), 'R10.2', f, meth,
                   'every reported %s is registered with %s' % (kind, meth),
                   'reported %s updates are no longer registered with the '
                   'scheduler (%s)' % (kind, meth))
        for lp, c in regs:
            pathv = A.unparse(lp.target.elts[0])
            itemv = A.unparse(lp.target.elts[1])
            ok = A.unparse(A.arg_of(c, 0)) == itemv and A.unparse(
                A.arg_of(c, 1)) == pathv
            ck.require(ok, 'R10.2', f, c,
                       'registered with its own object and path', None, c)
            ok = cfg.must_pass(cfg.loops[id(lp)]['body_entry'],
                               cfg.loops[id(lp)]['header'], {cfg.node(c)})
            ck.require(ok, 'R10.2', f, c,
                       'every item of the list is registered', None, c)
            if kind == 'step':
                dep = A.arg_of(c, 2, 'relative_dependencies')

                def from_flow(x):
                    if isinstance(x, ast.Call) and A.call_name(x) == 'get' \
                            and x.args and A.unparse(x.args[0]) == pathv:
                        return True
                    if isinstance(x, ast.Subscript) and A.unparse(
                            x.slice) == pathv:
                        return True
                    return False
                ok = derives(f.node, dep, from_flow, at=c) and derives(
                    f.node, dep, lambda x: isinstance(x, ast.Name) and
                    local_kind(f.node, x.id) == 'flow', at=c, depth=4)
                ck.require(ok, 'R10.2', f, c,
                           "the step's dependencies are its flow entry of "
                           'the same batch',
                           'a step created by a structural update is '
                           'registered with dependencies %s instead of its '
                           'reported flow entry: it would run as a legacy '
                           'deriver' % A.unparse(dep), c)
    # parallelised and written back
    for kind in ('process', 'step'):
        par = False
        for d in [x for lst in local_defs(f.node).values() for x in lst]:
            if local_kind(f.node, d.name) == kind and \
                    d.value is not None and any(
                    A.call_name(c) == '_parallelize_processes'
                    for c in A.calls_in(d.value)):
                par = True
        ck.require(par, 'R10.2', f, '%s list' % kind,
                   'reported %s objects are parallelised before '
                   'registration' % kind,
                   'new %s objects are not passed through '
                   '_parallelize_processes' % kind)
        wb = False
        for lp in loops_over(kind):
            for s in A.walk_no_nested(lp):
                if isinstance(s, ast.Assign) and isinstance(
                        s.targets[0], ast.Attribute) and \
                        s.targets[0].attr == 'value' and 'get_path' in \
                        A.unparse(s.targets[0]) and A.unparse(
                            s.value) == A.unparse(lp.target.elts[1]):
                    wb = True
        ck.require(wb, 'R10.2', f, '%s write-back' % kind,
                   'the (possibly parallelised) %s object is written back '
                   'into its store node' % kind,
                   'the store keeps the unwrapped %s object: the engine '
                   'and the hierarchy hold different objects' % kind)


def _loop(x, stop):
    p = x
    while p is not None and p is not stop:
        if isinstance(p, ast.For):
            return p
        p = getattr(p, '_parent', None)
    return None


ROLES = ('process_updates', 'step_updates', 'flow_updates',
         'topology_updates', 'deletions')


def reporter_names(fnode):
    """role -> local name, read off the tuple a reporter (Store.move,
    insert, divide) returns: (processes, steps, flow, topology[,
    deletions]).  Falls back to the role names themselves."""
    out = {r: r for r in ROLES}
    for r in A.walk_no_nested(fnode):
        if isinstance(r, ast.Return) and isinstance(r.value, ast.Tuple) and \
                len(r.value.elts) in (4, 5) and all(
                    isinstance(e, ast.Name) for e in r.value.elts):
            for role, e in zip(ROLES, r.value.elts):
                out[role] = e.id
    return out


def returned_lists(fnode):
    """Locals that are assigned a list literal and appear in a returned
    value."""
    lists = {nm for nm, ds in local_defs(fnode).items()
             if any(d.kind == 'assign' and isinstance(d.value, ast.List)
                    for d in ds)}
    out = set()
    for r in A.walk_no_nested(fnode):
        if isinstance(r, ast.Return) and r.value is not None:
            out |= A.names_in(r.value) & lists
    return out


def r10_3(ck):
    ck.rule('R10.3', 'reporters partition nodes: one node is reported as '
            'process or as step on exclusive branches of an is_step() test; '
            'a None flow is not reported; a reporter of steps also reports '
            'their flow')
    for q in ('Store.move', 'Store.divide'):
        f = ck.fn(q, 'core.store')
        cfg = cfg_of(f.node)
        N = reporter_names(f.node)
        pa = [c for c in A.calls_in(f.node, 'append')
              if A.unparse(A.call_receiver(c)) == N['process_updates']]
        sa = [c for c in A.calls_in(f.node, 'append')
              if A.unparse(A.call_receiver(c)) == N['step_updates']]
        ck.require(bool(pa) and bool(sa), 'R10.3', f, f.node.name,
                   q + ' reports processes and steps separately',
                   q + ' no longer reports both processes and steps')
        for a in pa:
            g = cfg.guards(cfg.node(a))
            ok = any(x[0] == 'falsy' and x[1].endswith('.is_step()')
                     for x in g)
            ck.require(ok, 'R10.3', f, a,
                       'a node is reported as a process only when it is not '
                       'a step',
                       'a node is reported as a process without testing '
                       'is_step(): a step would be registered twice and run '
                       'twice per phase', a)
        for a in sa:
            g = cfg.guards(cfg.node(a))
            ok = any(x[0] == 'truthy' and x[1].endswith('.is_step()')
                     for x in g)
            ck.require(ok, 'R10.3', f, a,
                       'a node is reported as a step only when is_step()',
                       None, a)
    mv = ck.fn('Store.move', 'core.store')
    cfg = cfg_of(mv.node)
    fa = [c for c in A.calls_in(mv.node, 'append')
          if A.unparse(A.call_receiver(c)) == reporter_names(
              mv.node)['flow_updates']]
    ck.require(bool(fa), 'R10.3', mv, mv.node.name,
               'move reports the flow of moved steps',
               'Store.move no longer reports the flow of moved steps')
    for a in fa:
        g = cfg.guards(cfg.node(a))
        ok = any(x[0] == 'isnot' and x[1].endswith('.flow') and
                 x[2] == 'None' for x in g) and any(
            x[0] == 'truthy' and x[1].endswith('.is_step()') for x in g)
        ck.require(ok, 'R10.3', mv, a,
                   'a flow is reported only for steps that have one',
                   'move reports a None flow (or a flow for a non-step): '
                   'the engine raises or mis-registers the step', a)
    ins = ck.fn('Store.insert', 'core.store')
    param = A.params_of(ins.node)[1]
    for lst, field in (('process_updates', 'processes'),
                       ('step_updates', 'steps'), ('flow_updates', 'flow'),
                       ('topology_updates', 'topology')):
        ext = contributions(ins.node, reporter_names(ins.node)[lst])

        def from_field(x, field=field):
            if isinstance(x, ast.Subscript) and A.is_name(x.value, param) \
                    and A.subscript_key(x) == field:
                return True
            if isinstance(x, ast.Call) and A.call_name(x) == 'get' and \
                    A.is_name(A.call_receiver(x), param) and x.args and \
                    isinstance(x.args[0], ast.Constant) and \
                    x.args[0].value == field:
                return True
            return False
        ok = bool(ext) and any(derives(ins.node, e, from_field, at=c)
                               for e, c, _k in ext)
        ck.require(ok, 'R10.3', ins, "report of insertion['%s']" % field,
                   "the inserted %s are reported to the engine" % field,
                   "Store.insert no longer reports the inserted %s: %s" % (
                       field, 'generated flow steps would be demoted to '
                       'sequential derivers' if field == 'flow' else
                       'the engine would not learn about them'))
    # the flow is reported per step (leaf paths), by the same flattening as
    # the processes and steps: the engine looks dependencies up by step path
    for q in ('Store.insert', 'Store.divide'):
        fq = ck.fn(q, 'core.store')
        fl = [c for c in A.calls_in(fq.node, ('extend', 'append'))
              if A.unparse(A.call_receiver(c)) == reporter_names(
                  fq.node)['flow_updates'] and c.args]
        for c in fl:
            okf = derives(fq.node, c.args[0], lambda x: isinstance(
                x, ast.Call) and A.call_name(x) == 'dict_to_paths', at=c)
            ck.require(okf, 'R10.3', fq, c,
                       'the reported flow is flattened to one entry per '
                       'step (dict_to_paths)',
                       '%s reports the flow one level deep: for steps in a '
                       'nested compartment the engine finds no '
                       'dependencies under the step path and registers '
                       'them as legacy sequential derivers' % q, c)
    dv = ck.fn('Store.divide', 'core.store')
    ext = [c for c in A.calls_in(dv.node, 'extend')
           if A.unparse(A.call_receiver(c)) == reporter_names(
               dv.node)['flow_updates']]
    # the flow reported is the one the daughter was generated with
    gflow = {A.unparse(A.arg_of(g, 3, 'flow'))
             for g in A.calls_in(dv.node, 'generate')
             if A.is_name(A.call_receiver(g), 'self')
             and A.arg_of(g, 3, 'flow') is not None}
    ok = bool(ext) and bool(gflow) and all(derives(
        dv.node, c.args[0], lambda x: isinstance(x, ast.Name)
        and x.id in gflow, at=c) for c in ext)
    ck.require(ok, 'R10.3', dv, ext[0] if ext else dv.node.name,
               "divide reports each daughter's flow", None)
    # explicit daughter steps are generated together with the processes
    gens = [c for c in A.calls_in(dv.node, 'generate')
            if A.is_name(A.call_receiver(c), 'self')]
    if gens:
        g = gens[0]
        procs = A.arg_of(g, 1, 'processes')
        merged = False
        for c in A.calls_in(dv.node, ('deep_merge_check', 'deep_merge',
                                      'update')):
            txt = A.unparse(c)
            if "'steps'" in txt and isinstance(procs, ast.Name) and \
                    procs.id in A.names_in(c):
                merged = True
        steps_arg = A.arg_of(g, 2, 'steps')
        if steps_arg is not None and "'steps'" in A.unparse(steps_arg):
            merged = True
        ck.require(merged, 'R10.3', dv, g,
                   "a daughter's explicit steps are generated with its "
                   'processes',
                   "the 'steps' of a daughter specification are dropped by "
                   'Store.divide', g)


REGISTRIES = ['processes', 'steps', 'topology', 'flow', 'process_paths',
              '_step_paths', '_step_graph', 'front']


def r10_4(ck):
    ck.rule('R10.4', 'deletion exhaustiveness: each of the seven engine '
            'registries has a remover in Engine._delete_path keyed on the '
            'deleted prefix; every reported deletion reaches it')
    f = ck.fn('Engine._delete_path', 'core.engine')
    cfg = cfg_of(f.node)
    param = A.params_of(f.node)[1]
    n = 0
    for reg in REGISTRIES:
        ok = False
        if reg in ('processes', 'steps', 'topology', 'flow'):
            for c in A.calls_in(f.node, 'delete_in'):
                if A.unparse(A.arg_of(c, 0)) == 'self.' + reg and A.is_name(
                        A.arg_of(c, 1), param):
                    ok = cfg.postdominates(cfg.node(c), cfg.entry)
        elif reg in ('process_paths', '_step_paths'):
            for d in A.walk_no_nested(f.node):
                if isinstance(d, ast.Delete) and A.unparse(
                        d.targets[0]).startswith('self.%s[' % reg):
                    lp = _loop(d, f.node)
                    g = cfg.guards(cfg.node(d))
                    key = A.unparse(d.targets[0].slice)
                    ok = lp is not None and ('self.' + reg) in A.unparse(
                        lp.iter) and any(
                        a[0] == 'truthy' and a[1].replace(' ', '') ==
                        'starts_with(%s,%s)' % (key, param) for a in g) and \
                        (isinstance(lp.iter, ast.Call) and A.call_name(
                            lp.iter) in ('list', 'tuple', 'sorted', 'copy'))
        elif reg == 'front':
            # the schedule (due time, update in flight) goes with the
            # process: a process created at the same path later in the same
            # batch must not inherit it
            cands = [c for c in A.calls_in(f.node, 'pop')
                     if A.unparse(A.call_receiver(c)) == 'self.front']
            cands += [d for d in A.walk_no_nested(f.node)
                      if isinstance(d, ast.Delete) and A.unparse(
                          d.targets[0]).startswith('self.front[')]
            for c in cands:
                g = cfg.guards(cfg.node(c))
                if any(a[0] == 'truthy' and a[1].replace(' ', '').startswith(
                        'starts_with(') and a[1].replace(' ', '').endswith(
                        ',%s)' % param) for a in g):
                    ok = True
        else:
            for c in A.calls_in(f.node, 'remove'):
                if 'self._step_graph' in A.unparse(c.func):
                    g = cfg.guards(cfg.node(c))
                    ok = any(a[0] == 'truthy' and 'starts_with(' in a[1]
                             for a in g)
                    # any further condition must not exclude a kind of step
                    for a in sorted(g):
                        if a[0] == 'truthy' and 'starts_with(' in a[1]:
                            continue
                        fine = False
                        if a[0] == 'in' and a[2] == 'self._step_graph':
                            cont = ck.repo.method('_StepGraph',
                                                  '__contains__')
                            txt = A.unparse(cont.node) if cont else ''
                            fine = 'self._graph' in txt and \
                                'self._sequential_steps' in txt
                        ck.require(fine, 'R10.4', f, c,
                                   'a deleted step is removed from the step '
                                   'graph whatever kind of step it is',
                                   'the removal from the step graph is '
                                   'conditional on %s, which does not cover '
                                   'sequential steps (those without a flow '
                                   'entry): a deleted deriver stays listed '
                                   'and runs twice when its path comes back'
                                   % (a,), c)
        n += ok
        ck.require(ok, 'R10.4', f, 'remover for self.' + reg,
                   'entries under the deleted prefix are removed from '
                   'self.' + reg,
                   'Engine._delete_path no longer clears self.%s for the '
                   'deleted subtree: %s' % (
                       reg, 'deleted processes/steps keep being scheduled'
                       if 'path' in reg or 'graph' in reg else
                       'a process created at the same path later in the '
                       'same batch inherits the due time and the update in '
                       'flight of the deleted one' if reg == 'front' else
                       'the published composite keeps deleted entries'))
    ck.floor('R10.4', n, 0, 'registries')
    sw = ck.fn('starts_with', 'core.engine')
    p = A.params_of(sw.node)
    ok = _is_prefix_test(sw.node, p[0], p[1])
    ck.require(ok, 'R10.4', sw, sw.node.name,
               'starts_with(a, sub) tests that sub is a prefix of a',
               'starts_with no longer tests the prefix relation')
    ea = ck.fn('Engine.apply_update', 'core.engine')
    cfge = cfg_of(ea.node)
    calls = [c for c in A.calls_in(ea.node, '_delete_path')]
    ok = False
    for c in calls:
        lp = _loop(c, ea.node)
        if lp is not None and isinstance(lp.iter, ast.Name) and (
                positional_kinds(ea.node).get(lp.iter.id)
                or kind_of(lp.iter.id)) == 'deletion' and A.unparse(
                A.arg_of(c, 0)) == A.unparse(lp.target):
            ok = cfge.must_pass(cfge.loops[id(lp)]['body_entry'],
                                cfge.loops[id(lp)]['header'],
                                {cfge.node(c)})
    ck.require(ok, 'R10.4', ea, calls[0] if calls else ea.node.name,
               'every reported deletion reaches Engine._delete_path',
               'deletions reported by the store are not passed to '
               'Engine._delete_path')


def r10_5(ck):
    ck.rule('R10.5', 'birth time: a path first seen by run_for gets a front '
            'entry at the current global time before it is polled')
    rf = RunFor(ck)
    f, cfg, fm = rf.fi, rf.cfg, rf.front
    pathv = rf.poll_targets()[0]
    ok = False
    for (stmt, tgt, val) in fm.entry_literal_writes():
        if not within(stmt, rf.poll_loop):
            continue
        g = cfg.guards(cfg.node(stmt))
        good = ('notin', pathv, 'self.front') in g and isinstance(
            val, ast.Call) and A.call_name(val) == 'empty_front' and \
            val.args and A.is_self_attr(val.args[0], 'global_time') and \
            A.unparse(tgt.slice) == pathv
        ck.require(good, 'R10.5', f, stmt,
                   'a new path starts at the current global time with no '
                   'update',
                   'a newly created process does not start at the time of '
                   'its creation (%s)' % A.unparse(val), stmt)
        ok = ok or good
    ck.require(ok, 'R10.5', f, 'polling loop',
               'unseen paths get a front entry before they are polled',
               'run_for no longer creates a front entry for new paths')
    # the membership test dominates the first read of the entry
    reads = [n for n, k in fm.slot_reads(rf.poll_loop, 'time')]
    tests = [n for n in A.walk_no_nested(rf.poll_loop)
             if isinstance(n, ast.If) and ('notin', pathv, 'self.front') in
             A.cond_atoms(n.test, True)]
    if reads and tests:
        ok = all(cfg.dominates(cfg.node(tests[0]), cfg.node(r))
                 for r in reads)
        ck.require(ok, 'R10.5', f, tests[0],
                   'the entry is created before its first read', None,
                   tests[0])


def r10_6(ck):
    ck.rule('R10.6', 'reported paths are absolute: every path placed into a '
            'returned list derives from path_for()')
    n = 0
    for q in ('Store.move', 'Store.insert', 'Store.divide', 'Store.delete'):
        f = ck.fn(q, 'core.store')
        rl = returned_lists(f.node)
        here_p = (A.params_of(f.node) + [None, None, None])[2]
        for c in A.calls_in(f.node, ('append', 'extend')):
            recv = A.unparse(A.call_receiver(c))
            if recv not in rl:
                continue
            if not c.args:
                continue
            n += 1

            def absolute(x):
                if isinstance(x, ast.Call) and A.call_name(x) == 'path_for':
                    return True
                if isinstance(x, ast.Name) and x.id == here_p and \
                        q == 'Store.delete':
                    return True
                return False
            ok = derives(f.node, c.args[0], absolute, at=c, depth=6)
            ck.require(ok, 'R10.6', f, c,
                       'the reported path is rooted at path_for()',
                       "a path reported to the engine is relative to this "
                       "node: the engine's root-relative registries would "
                       'be wrong for nested compartments', c)
    ck.floor('R10.6', n, 12, 'report sites')
    d = ck.fn('Store.delete', 'core.store')
    cfg = cfg_of(d.node)
    hp = A.params_of(d.node)[2]
    ok = any(isinstance(s, ast.Assign) and isinstance(
        s.targets[0], ast.Name)
             and isinstance(s.value, ast.Call) and A.call_name(
                 s.value) == 'path_for' and A.is_name(
                 A.call_receiver(s.value), 'self') and (
                 'is', hp, 'None') in cfg.guards(cfg.node(s))
             for s in A.walk_no_nested(d.node))
    ck.require(ok, 'R10.6', d, 'here', "delete's `here` defaults to "
               'self.path_for()', None)
    sa = ck.fn('Store.apply_update', 'core.store')
    for c in A.calls_in(sa.node, 'delete'):
        if A.is_name(A.call_receiver(c), 'self') and len(c.args) == 2:
            a1 = c.args[1]
            ok = derives(sa.node, a1, lambda x: isinstance(x, ast.Call) and
                         A.call_name(x) == 'path_for' and A.is_name(
                             A.call_receiver(x), 'self'), at=c)
            ck.require(ok, 'R10.6', sa, c,
                       'delete is told the absolute path of this node',
                       None, c)
    mv = ck.fn('Store.move', 'core.store')
    # the new paths are rooted at the *target*
    # roles: the node returned by add_node, and the path handed to it
    tv = sp = None
    for an_c in A.calls_in(mv.node, 'add_node'):
        sp = A.unparse(A.arg_of(an_c, 0, 'path'))
        par = getattr(an_c, '_parent', None)
        if isinstance(par, ast.Assign) and isinstance(
                par.targets[0], ast.Name):
            tv = par.targets[0].id

    def at_target(v):
        for x in ast.walk(v):
            if isinstance(x, ast.Call) and A.call_name(x) == 'path_for':
                r = A.call_receiver(x)
                if (tv and A.is_name(r, tv)) or (
                        isinstance(r, ast.Call)
                        and A.call_name(r) == 'add_node'):
                    return True
        return False
    tp = [d2 for lst in local_defs(mv.node).values() for d2 in lst
          if d2.value is not None and d2.kind == 'assign'
          and at_target(d2.value)]
    ok = bool(tp) and sp is not None and all(
        sp in A.unparse(d2.value).replace(
            '.add_node(%s' % sp, '') for d2 in tp)
    ck.require(ok, 'R10.6', mv, tp[0].stmt if tp else 'target_path',
               'moved processes are reported under the target path plus '
               'the source key', None)


def _is_prefix_test(fnode, a, sub):
    """Does ``fnode`` compute "sub is a prefix of a"?  Two accepted shapes:
    a slice comparison  a[:len(sub)] == sub  (possibly through tuple/list),
    or a length guard len(sub) <= len(a) together with an element-wise
    equality over enumerate(sub) / zip(a, sub) / range(len(sub))."""
    def strip(e):
        while isinstance(e, ast.Call) and A.call_name(e) in (
                'tuple', 'list') and len(e.args) == 1:
            e = e.args[0]
        return e
    atoms = set()
    for n in ast.walk(fnode):
        if isinstance(n, ast.Compare) and len(n.ops) == 1:
            atoms |= A.cond_atoms(n, True)
            if isinstance(n.ops[0], ast.Eq):
                l, r = strip(n.left), strip(n.comparators[0])
                for x, y in ((l, r), (r, l)):
                    if A.is_name(y, sub) and A.unparse(x) == \
                            '%s[:len(%s)]' % (a, sub):
                        return True
    guard = ('<=', 'len(%s)' % sub, 'len(%s)' % a) in atoms or \
        ('<', 'len(%s)' % a, 'len(%s)' % sub) in atoms
    elem = False
    for n in ast.walk(fnode):
        it = tgt = None
        if isinstance(n, ast.comprehension):
            it, tgt = n.iter, n.target
        elif isinstance(n, ast.For):
            it, tgt = n.iter, n.target
        if it is None or not isinstance(it, ast.Call):
            continue
        nm = A.call_name(it)
        args = [A.unparse(x) for x in it.args]
        if nm == 'enumerate' and args == [sub] and isinstance(
                tgt, ast.Tuple) and len(tgt.elts) == 2:
            i, el = (A.unparse(x) for x in tgt.elts)
            want = {('==', *sorted(('%s[%s]' % (a, i), el)))}
        elif nm == 'zip' and sorted(args) == sorted([a, sub]) and \
                isinstance(tgt, ast.Tuple) and len(tgt.elts) == 2:
            want = {('==', *sorted(A.unparse(x) for x in tgt.elts))}
        elif nm == 'range' and args == ['len(%s)' % sub]:
            i = A.unparse(tgt)
            want = {('==', *sorted(('%s[%s]' % (a, i),
                                    '%s[%s]' % (sub, i))))}
        else:
            continue
        if want & atoms or {('!=',) + w[1:] for w in want} & atoms:
            elem = True
    return guard and elem


def add_node_summary(ck):
    """From the body of Store.add_node(path, node): (location of the
    returned node relative to self, location of the attached node relative
    to the returned node), as symbolic paths over the parameter name."""
    from ..pathalg import eval_path
    f = ck.fn('Store.add_node', 'core.store')
    pth, nod = A.params_of(f.node)[1:3]
    ret_loc, attach = None, None
    rets = [r for r in A.walk_no_nested(f.node) if isinstance(r, ast.Return)]
    if not rets or not all(isinstance(r.value, ast.Name) for r in rets) or \
            len({r.value.id for r in rets}) != 1:
        return f, None, None
    rv = rets[0].value.id
    for d in local_defs(f.node).get(rv, []):
        v = d.value
        if isinstance(v, ast.Call) and A.call_name(v) == '_establish_path' \
                and A.is_name(A.call_receiver(v), 'self'):
            ret_loc = eval_path(f.node, A.arg_of(v, 0), d.stmt)
    for c in A.calls_in(f.node, 'update'):
        recv = A.call_receiver(c)
        if isinstance(recv, ast.Attribute) and recv.attr == 'inner' and \
                A.is_name(recv.value, rv) and c.args and isinstance(
                    c.args[0], ast.Dict) and A.is_name(
                    c.args[0].values[0], nod):
            k = c.args[0].keys[0]
            if isinstance(k, ast.Subscript) and A.unparse(k.slice) == '-1' \
                    and isinstance(k.value, ast.Name):
                attach = [('last', k.value.id)]
    for s2 in A.walk_no_nested(f.node):
        if isinstance(s2, ast.Assign) and isinstance(
                s2.targets[0], ast.Subscript) and A.unparse(
                s2.targets[0].value) == rv + '.inner' and A.is_name(
                s2.value, nod):
            k = s2.targets[0].slice
            if isinstance(k, ast.Subscript) and A.unparse(k.slice) == '-1':
                attach = [('last', A.unparse(k.value))]
    return f, ret_loc, attach


def r10_8(ck):
    ck.rule('R10.8', 'a moved subtree is reported where it was attached: '
            'the path prefix under which Store.move reports the moved '
            'processes equals, in a symbolic path algebra (concatenation, '
            'p[:-1], p[-1:], path_for()), the location at which add_node '
            'attached the node; insert and divide report under path_for() '
            '+ the path they generated at')
    from ..pathalg import eval_path, normalise, show
    an, ret_loc, attach = add_node_summary(ck)
    ck.require(ret_loc is not None and attach is not None, 'R10.8', an,
               an.node.name,
               'add_node attaches the node at inner[path[-1]] of the node '
               'it establishes at path[:-1] and returns that node',
               'the shape of Store.add_node is not recognised (returned '
               'node / attach key)')
    mv = ck.fn('Store.move', 'core.store')
    calls = [c for c in A.calls_in(mv.node, 'add_node')]
    if ret_loc is None or attach is None or not calls:
        return
    c = calls[0]
    st = c
    while not isinstance(st, ast.stmt):
        st = st._parent
    # the node returned by add_node: kept in a local, or used directly
    tv = st.targets[0].id if isinstance(st, ast.Assign) and isinstance(
        st.targets[0], ast.Name) and st.value is c else None
    recv = A.unparse(A.call_receiver(c))
    parg = A.arg_of(c, 0, 'path')
    pname = A.params_of(an.node)[1]
    if not isinstance(parg, ast.Name):
        ck.fail('R10.8', mv, c, 'add_node path argument is not a local', c)
        return

    def subst(path):
        return [(k, parg.id if v == pname else v) for k, v in path]
    t_loc = normalise([('node', recv)] + subst(ret_loc))
    attached = normalise(t_loc + subst(attach))
    n = 0
    for a in A.calls_in(mv.node, 'append'):
        r = A.unparse(A.call_receiver(a))
        if r not in returned_lists(mv.node) or not a.args or not isinstance(
                a.args[0], ast.Tuple):
            continue
        pe = a.args[0].elts[0]
        env = {'@resolve': lambda rc: t_loc if rc is c else None}
        if tv:
            env[tv] = t_loc
        val = eval_path(mv.node, pe, a, env)
        if val is None:
            continue
        n += 1
        # the reported path is <prefix> + <path of the process inside the
        # moved node>; the prefix must be the attach location
        lp = a
        while lp is not None and not isinstance(lp, ast.For):
            lp = lp._parent
        inner = A.unparse(lp.target.elts[0]) if lp is not None and \
            isinstance(lp.target, ast.Tuple) else None
        val = normalise(val)
        ok = len(val) >= 1 and val[-1] == ('seq', inner) and \
            normalise(val[:-1]) == attached
        ck.require(ok, 'R10.8', mv, a,
                   'reported path = %s + path inside the moved node'
                   % show(attached),
                   'the moved processes are reported under %s but the '
                   'subtree was attached at %s: for a source given as a '
                   'path of several elements the engine looks the '
                   'processes up at a path that does not exist' % (
                       show(val[:-1]), show(attached)), a)
    ck.floor('R10.8', n, 3, 'reports of moved processes')
    for q in ('Store.insert', 'Store.divide'):
        f = ck.fn(q, 'core.store')
        gens = [g for g in A.calls_in(f.node, 'generate')
                if A.is_name(A.call_receiver(g), 'self')]
        for g in gens:
            gp = eval_path(f.node, A.arg_of(g, 0, 'path'), g)
            # the root under which the new subtree is reported: the base
            # handed to dict_to_paths
            roots = {A.unparse(A.arg_of(c2, 0)) for c2 in A.calls_in(
                f.node, 'dict_to_paths') if isinstance(
                A.arg_of(c2, 0), ast.Name)}
            for d in [d for r_ in sorted(roots)
                      for d in local_defs(f.node).get(r_, [])
                      if d.kind == 'assign']:
                rv = eval_path(f.node, d.value, d.stmt)
                want = normalise([('node', 'self')] + (gp or []))
                ok = rv is not None and gp is not None and \
                    normalise(rv) == want
                ck.require(ok, 'R10.8', f, d.stmt,
                           'the reported root is path_for() + the path the '
                           'subtree was generated at',
                           '%s reports new processes under %s but '
                           'generates them at %s' % (
                               q, show(rv or []), show(want)), d.stmt)


def r10_9(ck):
    ck.rule('R10.9', 'write-back into the Composite: in the composite '
            "branch of Engine._make_store each published part is either "
            "the composite's own dictionary (a plain alias, updated in "
            'place later) or is explicitly written back into the composite')
    ms = ck.fn('Engine._make_store', 'core.engine')
    cfg = cfg_of(ms.node)
    n = 0
    for part in ('processes', 'steps', 'flow', 'topology'):
        assigns = [s for s in A.walk_no_nested(ms.node)
                   if isinstance(s, ast.Assign) and A.unparse(
                       s.targets[0]) == 'self.' + part and 'composite[' in
                   A.unparse(s.value)]
        for s in assigns:
            n += 1
            alias = A.unparse(s.value) == "composite['%s']" % part
            back = [b for b in A.walk_no_nested(ms.node)
                    if isinstance(b, ast.Assign) and A.unparse(
                        b.targets[0]) == "composite['%s']" % part and
                    A.unparse(b.value) == 'self.' + part]
            ok = alias or (bool(back) and cfg.reach_without(
                cfg.node(s), cfg.node(back[0]), set()))
            ck.require(ok, 'R10.9', ms, s,
                       "self.%s aliases composite['%s'] or is written back"
                       % (part, part),
                       "self.%s is %s: structural updates folded into it "
                       'later never reach the Composite the engine was '
                       'built from' % (part, A.unparse(s.value)), s)
    ck.floor('R10.9', n, 4, 'parts loaded from a composite')


def memo_attributes(ck, ci):
    """Memoised attributes of a class: self.A assigned under `self.A is
    None` from a computation that reads other self attributes."""
    out = {}
    for m in ci.methods.values():
        cfg = cfg_of(m.node)
        for s in A.walk_no_nested(m.node):
            if isinstance(s, ast.Assign) and isinstance(
                    s.targets[0], ast.Attribute) and A.is_name(
                    s.targets[0].value, 'self'):
                attr = s.targets[0].attr
                n = cfg.node(s)
                if n is None:
                    continue
                # only private / cache-like attributes are memos; public
                # state filled in when missing (Store.value from a default)
                # is data, not a cache
                if not (attr.startswith('_') or 'cache' in attr or
                        attr.endswith('_view') or attr.endswith('_views')):
                    continue
                if ('is', 'self.' + attr, 'None') in cfg.guards(n):
                    blk = s._parent
                    reads = set()
                    for x in ast.walk(blk):
                        if isinstance(x, ast.Attribute) and A.is_name(
                                x.value, 'self') and x.attr != attr and \
                                isinstance(getattr(x, 'ctx', None),
                                           ast.Load):
                            reads.add(x.attr)
                    out.setdefault(attr, set()).update(reads)
    return out


def r10_10(ck):
    ck.rule('R10.10', 'memo invalidation: a value cached on an object '
            '(assigned under `self.A is None`) is reset by every method of '
            'the class that mutates an attribute the cached value was '
            'computed from')
    from .c19 import attr_effects
    n = 0
    for name in ('_StepGraph', 'Engine', 'Store'):
        ci = ck.repo.cls(name)
        memos = memo_attributes(ck, ci)
        for attr, sources in sorted(memos.items()):
            for key, m in sorted(ci.methods.items()):
                if m.name == '__init__':
                    continue
                assigned, mutated = attr_effects(ck, ci, m.name, depth=0)
                touched = (assigned | mutated) & sources
                # removal / insertion through method calls on the source
                for c in A.calls_in(m.node):
                    ch = A.attr_chain(c.func) if isinstance(
                        c.func, ast.Attribute) else None
                    if ch and ch[0] == 'self' and len(ch) >= 3 and \
                            ch[1] in sources and ch[-1] in (
                                'add_node', 'add_edge', 'remove_node',
                                'remove_edge', 'append', 'remove', 'pop',
                                'insert', 'clear', 'update', 'extend'):
                        touched.add(ch[1])
                if not touched:
                    continue
                n += 1
                resets = [s for s in A.walk_no_nested(m.node)
                          if isinstance(s, ast.Assign) and A.unparse(
                              s.targets[0]) == 'self.' + attr and
                          isinstance(s.value, ast.Constant) and
                          s.value.value is None]
                ck.require(bool(resets), 'R10.10', m, m.node.name,
                           'mutating self.%s resets the cached self.%s' % (
                               ', self.'.join(sorted(touched)), attr),
                           '%s.%s mutates self.%s but does not reset the '
                           'cached self.%s: the stale value keeps being '
                           'used (a newly added step/process is ignored)'
                           % (name, key, ', self.'.join(sorted(touched)),
                              attr), m.node)
    ck.note('R10.10: %d (memo attribute, mutator) pairs on this tree' % n)


def r10_11(ck, rule='R10.11'):
    ck.rule(rule, 'a moved process keeps its schedule and its update in '
            'flight: when a batch reports a path as deleted and the same '
            'process object under a new path, the engine carries the front '
            'entry over instead of dropping it')
    ea = ck.fn('Engine.apply_update', 'core.engine')
    dp = ck.fn('Engine._delete_path', 'core.engine')
    rd = ck.fn_opt('Engine._remove_deleted_processes', 'core.engine')
    carried = False
    for f in [x for x in (ea, dp, rd) if x is not None]:
        for s2 in A.walk_no_nested(f.node):
            if isinstance(s2, ast.Assign) and isinstance(
                    s2.targets[0], ast.Subscript) and A.is_self_attr(
                    s2.targets[0].value, 'front'):
                v = A.unparse(s2.value)
                if 'self.front.pop(' in v or 'self.front[' in v:
                    carried = True
    loops = [l for l in A.walk_no_nested(ea.node) if isinstance(l, ast.For)
             and isinstance(l.iter, ast.Name) and local_kind(
                 ea.node, l.iter.id) == 'deletion']
    # the construct is named by its role (local names may change)
    ck.require(carried, rule, ea,
               'loop handing every reported deletion to _delete_path',
               
               'front entries of moved processes are transferred to their '
               'new path',
               'the engine treats a move as delete + add: the front entry '
               'of a moved process (its due time and its update in flight) '
               'is dropped by _remove_deleted_processes; the update is '
               'never applied and the process, still holding an unfetched '
               'command, cannot be invoked again',
               loops[0] if loops else None)


def r10_14(ck):
    from . import c04
    rf = RunFor(ck)
    ck.shared('R10.14', 'a process or step is run on the store that is in '
              'the hierarchy now: the engine looks the store up at every '
              'invocation and keeps no per-path cache of stores or views',
              lambda c: c04.r04_3(c, rf))


def r10_12(ck):
    ck.rule('R10.12', 'nothing deleted is invoked or applied again and new '
            'processes start at their creation: front entries of deleted '
            'paths are dropped before polling, and the engine classifies a '
            'wrapped process by asking the process itself (shared with C01 '
            'R01.5 and C13 R13.1)')
    from . import c01, c13
    rf = RunFor(ck)
    c01.r01_5(ck, rf)
    c13.r13_1(ck, only=('is_step',), rule='R10.12')
    OLD, NEW = ('R01.5',), 'R10.12'

    for o in ck.obligations:
        if o['rule'] in OLD:
            o['rule'] = NEW
    for v in ck.violations:
        if v.rule in OLD:
            v.rule = NEW
    for r in OLD:
        ck.rules.pop(r, None)


def r10_13(ck):
    ck.rule('R10.13', 'the dictionary helpers the bookkeeping is written '
            'with keep their recursion skeleton: assoc_path, delete_in, '
            'get_in, dict_to_paths, hierarchy_depth')
    from . import helpers as H
    H.assoc_path_shape(ck, 'R10.13')
    H.delete_in_shape(ck, 'R10.13')
    H.get_in_shape(ck, 'R10.13')
    H.dict_to_paths_shape(ck, 'R10.13')
    H.hierarchy_depth_shape(ck, 'R10.13')
