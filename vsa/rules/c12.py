"""C12 - the emitted history is a faithful, ordered sequence of snapshots."""

import ast

from .. import astutil as A
from ..cfg import cfg_of, within
from ..dataflow import derives, local_defs, reaching
from ..engine_model import RunFor

EXPL = (
    'Where emits sit relative to updates and steps, and that the emit '
    'filter is a flag test and not a value test: in the constructor '
    'run_steps precedes the configuration record which precedes the first '
    'history row, and store_schema is applied before the first emit; in '
    'run_for every _emit_store_data() is dominated within its scheduler '
    'iteration by the advance of global_time and by _send_updates (hence '
    'by the steps), and none sits in the two jump branches; the row is '
    'emit_data() plus time = global_time on table history; the '
    'configuration record is emitted once; Store.emit_data returns a leaf '
    'value iff its emit flag is set and keeps a child unless its data is '
    'None; units are converted before serialising; a branch-level _emit '
    'reaches the whole branch; RAMEmitter copies the row before popping '
    'time and refuses conflicting rows for one time. Not decided: row '
    'contents over run-time states.')


def check(ck):
    ck.explanation = EXPL
    ck.technique = ('CFG dominance within one loop iteration, who-may-call, '
                    'truthiness-taint on emitted values, argument checks')
    r12_1(ck)
    r12_2(ck)
    r12_3(ck)
    r12_4(ck)
    r12_5(ck)
    from . import c15
    c15.r15_9(ck, rule='R12.6')
    from . import c07
    ck.shared('R12.8', 'emit flags reach every node they are declared for: '
              'a child created at run time gets the sub-schema (flags '
              'included) its parent declares for its children, and a '
              'process is configured with the schema it has now, overrides '
              'included, not one remembered from an earlier build',
              c07.r07_5, c16_paths)
    from . import helpers as H
    ck.rule('R12.7', 'assoc_path (embedding of a row) keeps its recursion skeleton')
    H.assoc_path_shape(ck, 'R12.7')
    ck.rule('R12.9', 'the row merge of the RAM emitter compares by value at '
            'every depth: deep_merge_check hands check_equality (and its '
            'other mode parameters) on to its recursion')
    H.recursion_forwards(ck, 'R12.9', [
        ('deep_merge_check', 'library.dict_utils')])
    H.deep_merge_check_shape(ck, 'R12.9')


def r12_1(ck):
    ck.rule('R12.1', 'constructor order: run_steps, then the configuration '
            'record, then the first history row; store_schema applied '
            'before the first emit')
    f = ck.fn('Engine.__init__', 'core.engine')
    cfg = cfg_of(f.node)

    def one(name):
        cs = list(A.calls_in(f.node, name))
        return cfg.node(cs[0]) if len(cs) == 1 else None
    rs, ec, es = one('run_steps'), one('_emit_configuration'), one(
        '_emit_store_data')
    ck.require(None not in (rs, ec, es), 'R12.1', f, f.node.name,
               'the constructor runs the steps and emits configuration and '
               'initial state exactly once each',
               'the constructor no longer has exactly one run_steps / '
               '_emit_configuration / _emit_store_data')
    if None in (rs, ec, es):
        return
    ck.require(cfg.dominates(rs, ec) and cfg.dominates(ec, es), 'R12.1', f,
               'run_steps < _emit_configuration < _emit_store_data',
               'the initial row is emitted after the initial step phase and '
               'after the configuration record',
               'constructor order broken: the first history row would not '
               'reflect the initial step phase, or precede the '
               'configuration record')
    ck.require(cfg.postdominates(es, cfg.entry) and cfg.postdominates(
        ec, cfg.entry), 'R12.1', f, '_emit_store_data()',
        'every construction emits the configuration and the initial row',
        'a constructor path skips the initial emits')
    ac = [c for c in A.calls_in(f.node, '_apply_config')
          if 'store_schema' in A.unparse(c)]
    ok = bool(ac) and cfg.reach_without(cfg.node(ac[0]), es, set()) and \
        not cfg.reach_without(es, cfg.node(ac[0]), set())
    ck.require(ok, 'R12.1', f, ac[0] if ac else 'store_schema',
               'store_schema is applied to the state before the first emit',
               'store_schema is not applied before the first history row')
    gt = [s for s in A.walk_no_nested(f.node)
          if isinstance(s, ast.Assign) and A.is_self_attr(
              s.targets[0], 'global_time')]
    ok = bool(gt) and cfg.dominates(cfg.node(gt[0]), es)
    ck.require(ok, 'R12.1', f, gt[0] if gt else 'self.global_time',
               'the clock is initialised before the first row', None)


def r12_2(ck):
    ck.rule('R12.2', 'in run_for every history emit is dominated, within '
            'its scheduler iteration, by the advance of global_time and by '
            '_send_updates; none occurs in the jump branches')
    rf = RunFor(ck)
    f, cfg = rf.fi, rf.cfg
    emits = [c for c in rf.calls('_emit_store_data')]
    ck.floor('R12.2', len(emits), 1, 'history emits in run_for')
    sends = [cfg.node(c) for c in rf.calls('_send_updates')]
    advs = rf.advance_stmts()
    for e in emits:
        en = cfg.node(e)
        inside = within(e, rf.while_loop)
        ck.require(inside, 'R12.2', f, e,
                   'history rows are emitted inside the scheduler loop',
                   'a history row is emitted outside the scheduler loop', e)
        if not inside:
            continue
        ok_s = any(s is not None and cfg.iter_dominates(
            rf.while_loop, s, en) for s in sends)
        ck.require(ok_s, 'R12.2', f, e,
                   '_send_updates (updates and steps) precedes the emit in '
                   'the same iteration',
                   'a history row can be emitted before the updates of its '
                   'time were applied and the steps run', e)
        ok_a = any(cfg.iter_dominates(rf.while_loop, cfg.node(a), en)
                   for a in advs)
        ck.require(ok_a, 'R12.2', f, e,
                   'the clock advance precedes the emit in the same '
                   'iteration',
                   'a history row can be emitted before global_time was '
                   'advanced: its time key would be the previous time', e)
        # the advancing assignment in that branch is the += (middle branch)
        doms = [a for a in advs if cfg.iter_dominates(
            rf.while_loop, cfg.node(a), en)]
        ok = all(isinstance(a, ast.AugAssign) or not A.is_name(
            a.value, rf.end_name) for a in doms)
        ck.require(ok, 'R12.2', f, e,
                   'rows are emitted only in the branch that applies '
                   'updates (not in the jump branches)',
                   'a history row is emitted in a jump branch where no '
                   'update was applied', e)
    # with emit_step 1 there is a row for EVERY time updates were applied:
    # some emit is guarded by `emit_step == 1` and by nothing else beyond
    # the guards of the _send_updates call
    every = False
    for e in emits:
        base = set()
        for c in rf.calls('_send_updates'):
            base |= cfg.guards(cfg.node(c))
        extra = cfg.guards(cfg.node(e)) - base
        if extra and all(a[0] == '==' and 'self.emit_step' in a[1:] and
                         '1' in a[1:] for a in extra):
            every = True
    ck.require(every, 'R12.2', f, 'emit for emit_step == 1',
               'with emit_step 1 a row is emitted after every batch of '
               'updates, whatever the emit clock says',
               'no history emit is tied to `emit_step == 1` alone: with '
               'emit_step 1 and fractional or staggered timesteps, times '
               'at which updates were applied get no row',
               emits[0] if emits else None)
    # emit_step handling: either every step, or when emit_time is reached
    for e in emits:
        g = cfg.guards(cfg.node(e))
        ok = any(a[0] == '==' and 'self.emit_step' in a[1:] for a in g) or \
            any(a[0] in ('<=', '<') and a[1] in rf.emit_names and
                a[2] == 'self.global_time' for a in g)
        ck.require(ok, 'R12.2', f, e,
                   'a row is emitted every step (emit_step 1) or when the '
                   'emit clock has been reached',
                   'history emit is not tied to emit_step / emit_time', e)


def r12_3(ck):
    ck.rule('R12.3', "row = emit_data() + time = global_time on table "
            "'history'; configuration on table 'configuration', emitted "
            'once')
    f = ck.fn('Engine._emit_store_data', 'core.engine')
    calls = list(A.calls_in(f.node, 'emit'))
    ck.require(len(calls) == 1 and 'self.emitter' in A.unparse(
        calls[0].func), 'R12.3', f, f.node.name,
        'the row is handed to the emitter once', None)
    txt = A.unparse(f.node)
    ok = any(A.unparse(c.func) == 'self.state.emit_data'
             for c in A.calls_in(f.node, 'emit_data'))
    ck.require(ok, 'R12.3', f, f.node.name,
               'the row is built from self.state.emit_data()',
               'the history row is not built from self.state.emit_data()')
    time_ok = False
    pairs = []
    for d in ast.walk(f.node):
        if isinstance(d, ast.Dict):
            pairs += [(k, v, d) for k, v in zip(d.keys, d.values)]
        if isinstance(d, ast.Assign) and isinstance(
                d.targets[0], ast.Subscript):
            pairs.append((d.targets[0].slice, d.value, d))
    for k, v, d in pairs:
        if True:
            if True:
                if isinstance(k, ast.Constant) and k.value == 'time':
                    time_ok = A.is_self_attr(v, 'global_time')
                    ck.require(time_ok, 'R12.3', f, d,
                               "the row's time is the global time",
                               "the row's time key is %s, not "
                               'self.global_time' % A.unparse(v), d)
    ck.require(time_ok, 'R12.3', f, f.node.name,
               "the row carries 'time': self.global_time", None)
    # the engine's time wins over a store variable that is named 'time'
    for d in ast.walk(f.node):
        if isinstance(d, ast.Dict) and None in d.keys:
            keys = [k.value if isinstance(k, ast.Constant) else None
                    for k in d.keys]
            if 'time' in keys:
                unpack = [i for i, k in enumerate(d.keys) if k is None]
                ok = keys.index('time') > max(unpack)
                ck.require(ok, 'R12.3', f, d,
                           "'time' is written after the emitted data (the "
                           "engine's time wins)",
                           "the emitted data is unpacked AFTER 'time': an "
                           "emitted top-level variable called 'time' "
                           "replaces the row's time key", d)
    ok = any(isinstance(k, ast.Constant) and k.value == 'table'
             and isinstance(v, ast.Constant) and v.value == 'history'
             for d in ast.walk(f.node) if isinstance(d, ast.Dict)
             for k, v in zip(d.keys, d.values)) or any(
        kw.arg == 'table' and isinstance(kw.value, ast.Constant)
        and kw.value.value == 'history'
        for c in A.calls_in(f.node, 'dict') for kw in c.keywords)
    ck.require(ok, 'R12.3', f, f.node.name, "rows go to table 'history'",
               "history rows are not emitted to table 'history'")
    if calls:
        arg = A.arg_of(calls[0], 0)
        ok = derives(f.node, arg, lambda x: isinstance(x, ast.Call) and
                     A.call_name(x) == 'emit_data', at=calls[0]) or (
            derives(f.node, arg, lambda x: A.is_name(x, 'data'),
                    at=calls[0]))
        ck.require(ok, 'R12.3', f, calls[0],
                   'what is emitted contains the data row', None, calls[0])
    ecallers = []
    for fi in ck.repo.functions:
        if fi.is_test:
            continue
        for c in A.calls_in(fi.node, '_emit_store_data'):
            ecallers.append(fi.qual)
            ck.require(fi.qual in ('Engine.__init__', 'Engine.run_for'),
                       'R12.3', fi, c,
                       'history rows are emitted only by the constructor '
                       'and by run_for (after updates and steps)',
                       'a history row is emitted from %s, outside the '
                       'places where the state is known to be complete for '
                       'its time' % fi.qual, c)
    g = ck.fn('Engine._emit_configuration', 'core.engine')
    ok = "'table': 'configuration'" in A.unparse(g.node)
    ck.require(ok, 'R12.3', g, g.node.name,
               "the configuration goes to table 'configuration'", None)
    callers = []
    for fi in ck.repo.functions:
        if fi.is_test:
            continue
        for c in A.calls_in(fi.node, '_emit_configuration'):
            callers.append(fi.qual)
    ck.require(callers == ['Engine.__init__'], 'R12.3', g,
               'callers of _emit_configuration',
               'the configuration record is emitted once, by the '
               'constructor',
               'the configuration record is emitted from %s' % callers)


def r12_4(ck):
    ck.rule('R12.4', 'flag-not-value filter: a leaf is emitted iff its emit '
            'flag is set; a branch keeps a child unless its data is None; '
            'units are converted before serialising')
    f = ck.fn('Store.emit_data', 'core.store')
    cfg = cfg_of(f.node)
    # branch part
    rec = [c for c in A.calls_in(f.node, 'emit_data')
           if not A.is_name(A.call_receiver(c), 'self')]
    ck.require(bool(rec), 'R12.4', f, f.node.name,
               'emit_data recurses into the children', None)
    for c in rec:
        st = c
        while not isinstance(st, ast.stmt):
            st = st._parent
        if not isinstance(st, ast.Assign):
            continue
        nm = st.targets[0].id
        for s in A.walk_no_nested(f.node):
            if isinstance(s, ast.Assign) and isinstance(
                    s.targets[0], ast.Subscript) and A.is_name(
                    s.value, nm):
                conds = cfg.guard_edges(cfg.node(s))
                bad = []
                for cond, pol in conds:
                    if nm not in A.names_in(cond):
                        continue
                    atoms = A.cond_atoms(cond, pol)
                    for a in atoms:
                        if a[0] in ('truthy', 'falsy') and a[1] == nm:
                            bad.append(a)
                        if a[0] == 'opaque':
                            parts = a[1]
                            if 'is not None' not in parts and \
                                    'is None' not in parts:
                                bad.append(a)
                            # `x is not None or x == 0` is fine
                ck.require(not bad, 'R12.4', f, s,
                           "a child's data is kept unless it is None (no "
                           'truthiness test on emitted values)',
                           "a child's emitted data is filtered by its "
                           'truthiness: variables equal to 0, False, "" or '
                           '{} disappear from the row', s)
    # leaf part: every non-None return is under truthy(self.emit)
    rets = [r for r in A.walk_no_nested(f.node) if isinstance(r, ast.Return)]
    n = 0
    for r in rets:
        v = r.value
        if v is None or (isinstance(v, ast.Constant) and v.value is None):
            continue
        if isinstance(v, ast.Name) and any(
                isinstance(d.value, ast.Dict)
                for d in local_defs(f.node).get(v.id, [])):
            continue        # the row assembled for a branch
        n += 1
        g = cfg.guards(cfg.node(r))
        ck.require(('truthy', 'self.emit') in g, 'R12.4', f, r,
                   'a leaf value is returned only when its emit flag is set',
                   'a leaf value is emitted regardless of its _emit flag', r)
        if ('truthy', 'self.serializer') in g and ('falsy',
                                                   'self.units') not in g:
            # reachable with units set: the value must be converted
            ok = '.to(self.units)' in A.unparse(v) and 'serialize(' in \
                A.unparse(v)
            ck.require(ok, 'R12.4', f, r,
                       'with units and a serializer the value is converted '
                       'to the declared units before it is serialised',
                       'a value with units is serialised without being '
                       'converted to the declared units', r)
    ck.floor('R12.4', n, 3, 'leaf returns of emit_data')
    # a leaf whose flag is off returns None
    ok = any((r.value is None or (isinstance(r.value, ast.Constant) and
                                  r.value.value is None)) for r in rets)
    ck.require(ok, 'R12.4', f, f.node.name,
               'a leaf that is not flagged returns None', None)
    plain = [r for r in rets if A.unparse(r.value) == 'self.value']
    ck.require(bool(plain), 'R12.4', f, f.node.name,
               'a flagged leaf without serializer/units returns its value',
               'the plain-value return of emit_data vanished')


def c16_paths(ck):
    from . import c16
    c16.r16_8_paths(ck)


def _ancestors(x, stop):
    p = getattr(x, '_parent', None)
    while p is not None and p is not stop:
        yield p
        p = getattr(p, '_parent', None)


def r12_5(ck):
    ck.rule('R12.5', 'a branch-level _emit reaches set_emit_value for the '
            'whole branch; RAMEmitter.emit copies the row before popping '
            'time and refuses conflicting rows for one time')
    f = ck.fn('Store._apply_config', 'core.store')
    cfg = cfg_of(f.node)
    calls = [c for c in A.calls_in(f.node, 'set_emit_value')
             if A.is_name(A.call_receiver(c), 'self')]
    ok = False
    for c in calls:
        g = cfg.guards(cfg.node(c))
        if ('in', "'_emit'", 'config') in g and ('truthy',
                                                 'self.inner') in g:
            v = A.arg_of(c, None, 'emit') or A.arg_of(c, 1)
            ok = v is not None and derives(
                f.node, v, lambda x: "'_emit'" in A.unparse(x), at=c)
    ck.require(ok, 'R12.5', f, calls[0] if calls else "'_emit' on a branch",
               'an _emit given for a branch is applied to all its leaves',
               "a branch-level '_emit' no longer reaches set_emit_value: "
               'store_schema emit flags for a branch are ignored')
    sev = ck.fn('Store.set_emit_value', 'core.store')
    sp = A.params_of(sev.node)
    pemit = sp[2] if len(sp) > 2 else 'emit'
    # the leaf takes the flag it is handed ...
    leaf = any(isinstance(s2, ast.Assign) and A.is_self_attr(
        s2.targets[0], 'emit') and A.is_name(s2.value, pemit)
        for s2 in A.walk_no_nested(sev.node))
    # ... and every recursive call (below a path, below each child) hands
    # on that same flag with no path restriction
    rec = [c for c in A.calls_in(sev.node, 'set_emit_value')
           if not A.is_name(A.call_receiver(c), 'self')]

    def hands_on(c):
        e = A.arg_of(c, 1, 'emit')
        pa = A.arg_of(c, 0, 'path')
        return A.is_name(e, pemit) and (pa is None or (
            isinstance(pa, ast.Constant) and pa.value is None))
    in_loop = [c for c in rec if any(
        isinstance(p, ast.For) and 'self.inner' in A.unparse(p.iter)
        for p in _ancestors(c, sev.node))]
    ok = leaf and bool(in_loop) and all(hands_on(c) for c in rec)
    csev = cfg_of(sev.node)
    for c in A.calls_in(sev.node, 'set_emit_value'):
        if A.is_name(A.call_receiver(c), 'self'):
            continue
        lp = c
        while lp is not None and not isinstance(lp, ast.For):
            lp = lp._parent
        if lp is None:
            continue
        extra = csev.guards(csev.node(c)) - csev.guards(
            csev.loops[id(lp)]['body_entry'])
        ck.require(not extra, 'R12.5', sev, c,
                   'the flag is pushed down to every child unconditionally',
                   'children are skipped under %s when a branch flag is '
                   'propagated: leaves deeper in the branch keep their old '
                   'flag' % sorted(extra), c)
    ck.require(ok, 'R12.5', sev, sev.node.name,
               'set_emit_value sets the flag on every leaf below', None)
    e = ck.fn('RAMEmitter.emit', 'core.emitter')
    cfge = cfg_of(e.node)
    data = A.params_of(e.node)[1]
    pops = [c for c in A.calls_in(e.node, 'pop')
            if c.args and isinstance(c.args[0], ast.Constant) and
            c.args[0].value == 'time']
    ck.require(bool(pops), 'R12.5', e, e.node.name,
               'the row is keyed by its time', None)
    for p in pops:
        recv = A.call_receiver(p)
        ok = isinstance(recv, ast.Name) and any(
            isinstance(d.value, ast.Call) and A.call_name(d.value) in (
                'copy', 'dict', 'deepcopy')
            for d in reaching(e.node).at(p, recv.id))
        ck.require(ok, 'R12.5', e, p,
                   "time is popped from a copy of the caller's row",
                   "RAMEmitter.emit pops 'time' from the caller's "
                   'dictionary', p)
    merges = [c for c in A.calls_in(e.node, 'deep_merge_check')]
    ok = False
    for m in merges:
        ce = A.arg_of(m, 2, 'check_equality')
        ok = isinstance(ce, ast.Constant) and ce.value is True and \
            'self.saved_data' in A.unparse(A.arg_of(m, 0))
    ck.require(ok, 'R12.5', e, merges[0] if merges else e.node.name,
               'rows for one time are merged with an equality check '
               '(conflicting rows refused)',
               'RAMEmitter.emit no longer refuses a conflicting row for an '
               'existing time: history could be silently overwritten')
    g = cfge.guards(cfge.node(merges[0])) if merges else set()
    ok = any(a[0] == '==' and "'history'" in a[1:] for a in g)
    ck.require(ok, 'R12.5', e, e.node.name,
               "only 'history' records are stored as rows", None)
    ser = [c for c in A.calls_in(e.node, 'serialize_value')]
    ck.require(bool(ser), 'R12.5', e, e.node.name,
               'every row is serialised before it is stored',
               'RAMEmitter.emit stores rows without serialising them')
