"""C01 - every process update is applied exactly once, at the end of its
interval.  Clause decided: linearity of the deferred update."""

import ast

from .. import astutil as A
from ..cfg import cfg_of, within
from ..dataflow import local_defs, derives, reaching, source_list
from ..engine_model import RunFor, FrontModel, parse_expr, \
    inline_helper_calls
from ..loader import AnalysisError

EXPL = (
    'Decides the linearity clause of C01 on every path of the scheduler: '
    'updates are started only by _process_update (who-may-call), every '
    'started Defer reaches a sink (front slot, apply list or return), a '
    'front update is taken only under the due-time guard and its slot is '
    'cleared in the same iteration, each taken Defer is fetched and applied '
    'exactly once per iteration, in-flight updates of deleted processes are '
    'dropped before polling, the stored due time is the one tested against '
    'the end of the interval, no slot is cleared without a take, and the '
    'update condition gates the invocation. Not decided: the arithmetic '
    'identity value = initial + sum(updates), a runtime quantity.')


def nontest_functions(ck):
    return [f for f in ck.repo.functions if not f.is_test]


def check(ck):
    ck.explanation = EXPL
    ck.technique = ('who-may-call over the resolved index; CFG dominance / '
                    'must-pass-through within one loop iteration; def-use '
                    'over the front-entry slot family')
    ck.assume('processes honour their contract: next_update returns an '
              'update shaped by the ports schema')
    rf = RunFor(ck)
    r01_1(ck)
    r01_2(ck)
    r01_3(ck, rf)
    r01_4(ck)
    r01_5(ck, rf)
    r01_6(ck, rf)
    r01_7(ck, rf)
    r01_8(ck, rf)
    r01_9(ck)
    r01_10(ck)
    r01_12(ck)
    r01_13(ck)
    r01_14(ck, rf)
    from . import c08
    ck.shared('R01.15', 'an increment reaches exactly the variable it was '
              'returned for, through the declared updater: updaters do not '
              'modify the current value in place (an object shared with '
              'another variable would receive the update too) and an '
              'updater named in one update is not kept for later ones',
              c08.r08_7_lookup, c08.r08_8)
    from . import c06
    ck.shared('R01.16', 'the update a process returned is applied as it '
              'was returned: turning it into root-relative form copies it '
              '(no nested dictionary of the returned object is merged '
              'into), so a process that hands back the same object every '
              'time does not see earlier updates accumulate in it and get '
              'applied again',
              c06.r06_7, c08.r08_13)
    ck.shared('R01.17', 'an update reaches the variable the process read: '
              'the writer (inverse_topology) handles every wiring case the '
              'readers handle (sibling case tables agree), otherwise the '
              'part of an update addressed through the unhandled case is '
              'never applied',
              c06.r06_1)


# ------------------------------------------------------------------ R01.1
def r01_1(ck):
    ck.rule('R01.1', 'producer confinement: Defer(...) and '
            'send_command("next_update") only in _process_update (its '
            'helper _invoke_process is folded into it before analysis), '
            '_process_update called only from the engine module')
    pu = ck.fn('_process_update', 'core.engine')
    ck.fn('Defer.get', 'core.engine')
    sites_pu = sites_cu = 0
    for f in nontest_functions(ck):
        for c in A.calls_in(f.node):
            name = A.call_name(c)
            if isinstance(c.func, ast.Name) and name == 'Defer':
                ck.require(
                    f.qual == pu.qual, 'R01.1', f, c,
                    'Defer objects are constructed only by _process_update',
                    'a Defer is constructed outside _process_update: an '
                    'update could be started without being scheduled', c)
            cmd = A.arg_of(c, 0, 'command') if name == 'send_command' \
                else None
            if isinstance(cmd, ast.Constant) and cmd.value == 'next_update':
                ck.require(
                    f.qual == pu.qual, 'R01.1', f, c,
                    "send_command('next_update') only in _process_update",
                    'next_update is started outside _process_update: the '
                    'update it starts is not wrapped in a Defer', c)
            if name == pu.name and (isinstance(c.func, ast.Name) or A.is_name(
                    A.call_receiver(c), 'self')):
                sites_pu += 1
                ck.call_sites += 1
                ck.require(
                    f.module == pu.module, 'R01.1', f, c,
                    '_process_update is called only from the engine module',
                    '_process_update called from outside the engine', c)
            if name == '_calculate_update':
                sites_cu += 1
                ck.call_sites += 1
                ck.require(
                    f.module == pu.module, 'R01.1', f, c,
                    '_calculate_update is called only from the engine '
                    'module', None, c)
    ck.floor('R01.1', sites_pu, 2, 'call sites of _process_update')
    ck.floor('R01.1', sites_cu, 1, 'call sites of _calculate_update')
    # _process_update itself: invokes, wraps the same process, returns it
    invs = [c for c in A.calls_in(pu.node, 'send_command')
            if isinstance(A.arg_of(c, 0, 'command'), ast.Constant) and
            A.arg_of(c, 0, 'command').value == 'next_update']
    cfgp = cfg_of(pu.node)
    ck.require(len(invs) == 1 and not cfgp.guards(cfgp.node(invs[0])),
               'R01.1', pu, pu.node.name,
               '_process_update invokes the process exactly once, '
               'unconditionally',
               '_process_update sends next_update %d times (or only under a '
               'condition)' % len(invs))
    defers = [c for c in A.calls_in(pu.node, 'Defer')]
    rets = [n for n in A.walk_no_nested(pu.node)
            if isinstance(n, ast.Return)]
    for r in rets:
        ok = derives(pu.node, r.value, lambda n: isinstance(n, ast.Call)
                     and A.call_name(n) == 'Defer')
        ck.require(ok, 'R01.1', pu, r,
                   '_process_update returns the Defer it built',
                   'the value returned does not carry the Defer', r)
    if invs and defers:
        d = defers[0]
        first = A.arg_of(d, 0, 'defer')
        recv = A.call_receiver(invs[0])
        ok = derives(pu.node, first, lambda n: n is invs[0]) or (
            isinstance(first, ast.Name) and isinstance(recv, ast.Name)
            and first.id == recv.id == A.params_of(pu.node)[1])
        ck.require(ok, 'R01.1', pu, d,
                   'the Defer waits on the process that was just invoked',
                   'the Defer is built on something other than the invoked '
                   'process', d)


# ------------------------------------------------------------------ R01.2
def _is_sink_use(fm, stmt, name):
    """Is ``stmt`` a sink that consumes local ``name``?"""
    if isinstance(stmt, ast.Return) and stmt.value is not None and \
            name in A.names_in(stmt.value):
        return True
    if isinstance(stmt, ast.Assign) and name in A.names_in(stmt.value):
        for t in stmt.targets:
            if isinstance(t, ast.Subscript) and \
                    A.subscript_key(t) == 'update':
                return True
    if isinstance(stmt, ast.Expr) and isinstance(stmt.value, ast.Call):
        c = stmt.value
        if A.call_name(c) in ('append', 'extend', 'insert') and any(
                name in A.names_in(a) for a in c.args):
            return True
    return False


def r01_2(ck):
    ck.rule('R01.2', 'no dropped Defer: the result of every '
            '_process_update/_calculate_update call reaches a sink (front '
            'update slot, list of updates to apply, or the caller)')
    n_sites = 0
    for f in nontest_functions(ck):
        if not f.module.endswith('core.engine'):
            continue
        cfg = None
        for c in A.calls_in(f.node, ('_process_update', '_calculate_update')):
            n_sites += 1
            stmt = c
            while not isinstance(stmt, ast.stmt):
                stmt = stmt._parent
            if isinstance(stmt, ast.Return):
                ck.ok('R01.2', f, stmt, 'result returned to the caller')
                continue
            if isinstance(stmt, ast.Expr):
                sv = stmt.value
                if isinstance(sv, ast.Call) and A.call_name(sv) in (
                        'append', 'extend', 'insert') and any(
                        A.contains(a, c) for a in sv.args):
                    ck.ok('R01.2', f, stmt, 'result queued directly in a '
                          'list of updates')
                    continue
                ck.fail('R01.2', f, stmt,
                        'the started update is discarded (call used as a '
                        'statement)', stmt)
                continue
            if isinstance(stmt, ast.Assign):
                # the Defer is the first element of the returned pair
                tgt = stmt.targets[0]
                if isinstance(tgt, (ast.Tuple, ast.List)) and tgt.elts:
                    tgt = tgt.elts[0]
                if not isinstance(tgt, ast.Name):
                    s = isinstance(tgt, ast.Subscript) and \
                        A.subscript_key(tgt) == 'update'
                    ck.require(s, 'R01.2', f, stmt,
                               'result stored in a front update slot',
                               'result stored somewhere that is not a sink',
                               stmt)
                    continue
                name = tgt.id
                cfg = cfg_of(f.node)
                fm = FrontModel(f)
                src = cfg.node(stmt)
                sinks = set()
                for n2 in A.walk_no_nested(f.node):
                    if isinstance(n2, ast.stmt) and _is_sink_use(
                            fm, n2, name):
                        # the sink must see *this* definition
                        ds = reaching(f.node).at(n2, name)
                        if any(d.stmt is stmt for d in ds):
                            nn = cfg.node(n2)
                            if nn is not None:
                                sinks.add(nn)
                # enclosing loop header or function exit
                loop = _enclosing_loop(stmt, f.node)
                dst = cfg.loops[id(loop)]['header'] if loop is not None \
                    else cfg.exit
                ok = bool(sinks) and cfg.must_pass(src, dst, sinks)
                ck.require(
                    ok, 'R01.2', f, stmt,
                    'on every path the Defer bound here reaches a sink '
                    'before the iteration ends',
                    'a started update can be lost: %r does not reach a front '
                    'slot / apply list / return on every path' % name, stmt)
                continue
            ck.fail('R01.2', f, stmt, 'unrecognised use of a started update',
                    stmt)
    ck.floor('R01.2', n_sites, 3, 'producer call sites')


def _enclosing_loop(node, stop):
    p = getattr(node, '_parent', None)
    while p is not None and p is not stop:
        if isinstance(p, (ast.For, ast.While)):
            return p
        p = getattr(p, '_parent', None)
    return None


# ------------------------------------------------------------------ R01.3
def _take_sites(ck, rf):
    """Find the take sites: appends (into the list handed to _send_updates)
    of a value read from a front update slot.
    Returns [(append stmt, read node, entry key, loop, list name)]."""
    f, cfg, fm = rf.fi, rf.cfg, rf.front
    sends = rf.calls('_send_updates')
    sites = []
    for s in sends:
        arg = A.arg_of(s, 0, 'update_tuples')
        if not isinstance(arg, ast.Name):
            continue
        lst = arg.id
        # the list may be produced by a helper method of the engine
        helper = None
        ds = [d for d in local_defs(f.node).get(lst, [])
              if d.kind != 'mutate']
        if len(ds) == 1 and isinstance(ds[0].value, ast.Call) and \
                isinstance(ds[0].value.func, ast.Attribute) and A.is_name(
                    ds[0].value.func.value, 'self'):
            helper = ck.repo.method('Engine', ds[0].value.func.attr)
        if helper is not None:
            rf.take_helper = helper
            hf = FrontModel(helper)
            ck.functions.add(helper.fq)
            rets = [r for r in A.walk_no_nested(helper.node)
                    if isinstance(r, ast.Return) and isinstance(
                        r.value, ast.Name)]
            for r in rets:
                hl = r.value.id
                for c in A.calls_in(helper.node, 'append'):
                    if not A.is_name(A.call_receiver(c), hl) or not c.args:
                        continue
                    v = c.args[0]
                    reads = hf.slot_reads(v, 'update')
                    read = None
                    if reads:
                        read = reads[0]
                    elif isinstance(v, ast.Name):
                        for d in reaching(helper.node).at(c, v.id):
                            if d.value is not None:
                                rr = hf.slot_reads(d.value, 'update')
                                if rr:
                                    read = (d.stmt, rr[0][1])
                    if read is None:
                        continue
                    stmt = c
                    while not isinstance(stmt, ast.stmt):
                        stmt = stmt._parent
                    sites.append((stmt, read[0], read[1], _enclosing_loop(
                        stmt, helper.node), hl, r))
            continue
        for c in A.calls_in(f.node, 'append'):
            if not A.is_name(A.call_receiver(c), lst) or not c.args:
                continue
            v = c.args[0]
            reads = fm.slot_reads(v, 'update')
            read = None
            if reads:
                read = reads[0]
            elif isinstance(v, ast.Name):
                for d in reaching(f.node).at(c, v.id):
                    if d.value is not None:
                        rr = fm.slot_reads(d.value, 'update')
                        if rr:
                            read = (d.stmt, rr[0][1])
            if read is None:
                continue
            stmt = c
            while not isinstance(stmt, ast.stmt):
                stmt = stmt._parent
            sites.append((stmt, read[0], read[1], _enclosing_loop(
                stmt, f.node), lst, s))
    return sites


def _time_le_clock(rf, atoms, entry_key):
    """Does the guard set contain  entry['time'] <= self.global_time ?"""
    fm = rf.front
    for a in atoms:
        if a[0] != '<=':
            continue
        try:
            l, r = parse_expr(a[1]), parse_expr(a[2])
        except SyntaxError:
            continue
        s = fm.slot(l)
        if not (s and s[0] == 'time' and s[1] == entry_key):
            continue
        if A.is_self_attr(r, 'global_time'):
            return True
    return False


def r01_3(ck, rf):
    ck.rule('R01.3', 'take-and-clear under the due guard: an update is '
            'taken from front only when entry.time <= global_time, its slot '
            'is emptied in the same iteration, and the list reaches '
            '_send_updates')
    sites = _take_sites(ck, rf)
    ck.floor('R01.3', len(sites), 1, 'take sites feeding _send_updates')
    rf.take_clears = set()
    helper = getattr(rf, 'take_helper', None)
    for stmt, read, ek, loop, lst, send in sites:
        in_helper = helper is not None and within(stmt, helper.node)
        f = helper if in_helper else rf.fi
        cfg = cfg_of(f.node)
        fm = FrontModel(f) if in_helper else rf.front
        n = cfg.node(stmt)
        atoms = cfg.guards(n)

        class _RF:
            front = fm
        ck.require(_time_le_clock(_RF, atoms, ek), 'R01.3', f, stmt,
                   "take is dominated by  entry['time'] <= self.global_time",
                   'an update is taken without the due-time guard '
                   "entry['time'] <= self.global_time (early or late "
                   'application)', stmt)
        if loop is None:
            ck.fail('R01.3', f, stmt, 'take outside a loop over the front',
                    stmt)
            continue
        clears = set()
        for (wstmt, tgt, val, wk) in fm.slot_writes('update'):
            if wk == ek and within(wstmt, loop) and A.is_empty_const(val):
                nn = cfg.node(wstmt)
                if nn is not None:
                    clears.add(nn)
                    rf.take_clears.add(id(wstmt))
        rn = cfg.node(read)
        hdr = cfg.loops[id(loop)]['header']
        # the clear must not precede the read on the way to the append
        ok = bool(clears) and rn is not None and cfg.must_pass(
            rn, hdr, clears, within=cfg.loop_nodes(loop) | {hdr})
        ck.require(ok, 'R01.3', f, stmt,
                   'the taken slot is emptied on every path before the '
                   'iteration ends',
                   'the update slot is not cleared after the take: the same '
                   'update would be applied again on the next pass', stmt)
        # the list reaches _send_updates (or, in a helper, the return that
        # feeds it) on every path out of the loop
        sn = cfg.node(send)
        done = [x for x in cfg.g.successors(hdr)
                if cfg.info[x].get('pol') == 'done']
        outer = _enclosing_loop(loop, f.node)
        dst = {cfg.exit}
        if outer is not None:
            dst.add(cfg.loops[id(outer)]['header'])
        allowed = {sn}
        # tolerate `if updates:` around the send
        for nn, info in cfg.info.items():
            if info['kind'] == 'edge' and info.get('pol') is False and \
                    info.get('cond') is not None and A.is_name(
                        info['cond'], lst):
                allowed.add(nn)
        ok = sn is not None and done and all(
            cfg.must_pass(d, dst, allowed) for d in done)
        ck.require(ok, 'R01.3', f, send,
                   'every path out of the take loop hands the list to '
                   '_send_updates',
                   'taken updates may never be sent: a path leaves the take '
                   'loop without reaching _send_updates', send)
        # the list is fresh in this iteration of the scheduler loop
        ds = [d for d in local_defs(f.node).get(lst, [])
              if d.kind != 'mutate']
        fresh = [d for d in ds if isinstance(d.value, (ast.List,)) and
                 not d.value.elts and (in_helper or within(
                     d.stmt, rf.while_loop))]
        ck.require(bool(fresh) and all(
            cfg.dominates(cfg.node(d.stmt), cfg.node(loop))
            for d in fresh) and len(fresh) == len(ds),
            'R01.3', f, 'list %s' % lst,
            'the list of taken updates starts empty in each scheduler '
            'iteration',
            'the list handed to _send_updates is not reset per iteration: '
            'updates would be applied again')
    if helper is not None:
        # the helper is called inside the scheduler loop, and what it
        # returns goes to _send_updates in the same iteration
        f, cfg = rf.fi, rf.cfg
        hc = [c for c in A.calls_in(rf.while_loop, helper.name)]
        sends = rf.calls('_send_updates')
        ok = len(hc) == 1 and bool(sends) and cfg.iter_dominates(
            rf.while_loop, cfg.node(hc[0]), cfg.node(sends[0]))
        ck.require(ok, 'R01.3', f, hc[0] if hc else helper.name,
                   'the updates taken by the helper are sent in the same '
                   'scheduler iteration', None)


# ------------------------------------------------------------------ R01.4
def _consume_loops(ck, fi):
    """Loops that call self.apply_update(<x>.get(), ...)."""
    out = []
    for loop in A.walk_no_nested(fi.node):
        if not isinstance(loop, ast.For):
            continue
        for c in A.calls_in(loop, 'apply_update'):
            if _enclosing_loop(c, fi.node) is loop:
                out.append((loop, c))
    return out


def r01_4(ck):
    ck.rule('R01.4', 'consume once: each iteration of an apply loop calls '
            '.get() exactly once on its Defer and hands the result with the '
            'paired store to apply_update; Defer.get fetches the command '
            'result exactly once')
    n = 0
    for qual in ('Engine._send_updates', 'Engine.run_steps'):
        f = ck.fn(qual, 'core.engine')
        cfg = cfg_of(f.node)
        loops = _consume_loops(ck, f)
        if not loops:
            ck.fail('R01.4', f, f.node.name,
                    'no loop applies the collected updates through '
                    'self.apply_update')
            continue
        for loop, call in loops:
            n += 1
            body = cfg.loop_nodes(loop)
            hdr = cfg.loops[id(loop)]['header']
            entry = cfg.loops[id(loop)]['body_entry']
            gets = [c for c in A.calls_in(loop, 'get')
                    if not c.args and not c.keywords]
            # .get() with no argument on a loop-bound variable
            loop_names = {t.id for t in ast.walk(loop.target)
                          if isinstance(t, ast.Name)}
            for d in local_defs(f.node).values():
                for dd in d:
                    if dd.kind in ('unpack', 'assign') and within(
                            dd.stmt, loop) and dd.value is not None and \
                            A.names_in(dd.value) & loop_names:
                        loop_names.add(dd.name)
            gets = [c for c in gets if isinstance(
                A.call_receiver(c), ast.Name) and
                A.call_receiver(c).id in loop_names]
            two_phase = False
            if not gets and isinstance(loop.iter, ast.Name):
                # fetch-then-apply: the list applied is an unfiltered
                # comprehension  [(u.get(), s) for u, s in collected]
                src, comps = source_list(f.node, loop.iter.id)
                if len(comps) == 1:
                    lc = comps[0]
                    if isinstance(lc, tuple):
                        # X = []; for e in Y: X.append((e.get(), s))
                        bloop, bcall = lc
                        class _LC:      # same shape as a ListComp
                            pass
                        shim = _LC()
                        shim.elt = bcall.args[0]
                        shim.target = bloop.target
                        shim.node = bcall
                    else:
                        class _LC:
                            pass
                        shim = _LC()
                        shim.elt = lc.elt
                        shim.target = lc.generators[0].target
                        shim.node = lc
                    lc = shim
                    cg = [c for c in A.calls_in(lc.elt, 'get')
                          if not c.args and not c.keywords]
                    tnames = {t.id for t in ast.walk(lc.target)
                              if isinstance(t, ast.Name)}
                    cg = [c for c in cg if isinstance(
                        A.call_receiver(c), ast.Name) and
                        A.call_receiver(c).id in tnames]
                    if len(cg) == 1 and isinstance(lc.elt, ast.Tuple) and \
                            len(lc.elt.elts) == 2 and A.contains(
                                lc.elt.elts[0], cg[0]) and isinstance(
                                loop.target, ast.Tuple) and len(
                                loop.target.elts) == 2:
                        two_phase = True
                        first = A.unparse(loop.target.elts[0])
                        second = A.unparse(loop.target.elts[1])
                        okp = A.unparse(A.arg_of(call, 0, 'update')) == \
                            first and A.unparse(A.arg_of(
                                call, 1, 'state')) == second and A.unparse(
                                lc.elt.elts[1]) in tnames
                        ck.require(okp, 'R01.4', f, call,
                                   'each fetched update is applied with the '
                                   'store that was paired with its Defer',
                                   'fetched updates are not applied with '
                                   'their own stores', call)
                        # the comprehension is evaluated once, before the
                        # apply loop
                        dstmt = [d for d in local_defs(f.node).get(
                            loop.iter.id, [])][-1].stmt
                        while getattr(dstmt, '_parent', None) is not None \
                                and isinstance(dstmt._parent, ast.For) and \
                                dstmt._parent is not loop:
                            dstmt = dstmt._parent
                        ck.require(cfg.dominates(cfg.node(dstmt),
                                                 cfg.node(loop)),
                                   'R01.4', f, dstmt,
                                   'every Defer of the batch is fetched '
                                   'exactly once, before the apply loop',
                                   None, dstmt)
            if two_phase:
                cn = cfg.node(call)
                ok = cfg.must_pass(entry, hdr, {cn}, within=body | {hdr}) \
                    and not cfg.loops[id(loop)]['breaks'] and not any(
                        isinstance(cfg.info[x]['stmt'], ast.Return)
                        for x in body)
                ck.require(ok, 'R01.4', f, loop,
                           'every fetched update reaches apply_update (no '
                           'break / continue / return skips it)',
                           'an iteration can skip apply_update: a fetched '
                           'update would be lost', loop)
                continue
            ck.require(
                len(gets) == 1 and _enclosing_loop(gets[0], f.node) is loop,
                'R01.4', f, loop,
                'exactly one .get() per iteration on the element Defer',
                '%d .get() call sites on the loop element: an update would '
                'be fetched %s' % (len(gets), 'twice' if len(gets) > 1
                                   else 'never'), loop)
            if len(gets) != 1:
                continue
            arg0 = A.arg_of(call, 0, 'update')
            ok = derives(f.node, arg0, lambda x: x is gets[0], at=call)
            ck.require(ok, 'R01.4', f, call,
                       'apply_update receives the value fetched by .get()',
                       'apply_update is not handed the fetched update', call)
            cn = cfg.node(call)
            ok = cfg.must_pass(entry, hdr, {cn}, within=body | {hdr}) and \
                not cfg.loops[id(loop)]['breaks'] and not any(
                    isinstance(cfg.info[x]['stmt'], ast.Return)
                    for x in body)
            ck.require(ok, 'R01.4', f, loop,
                       'every iteration reaches apply_update (no break / '
                       'continue / return skips it)',
                       'an iteration can skip apply_update: a fetched or '
                       'pending update would be lost', loop)
            # the second argument is the store paired with the Defer
            arg1 = A.arg_of(call, 1, 'state')
            recv = A.call_receiver(gets[0])
            ok = arg1 is not None and A.names_in(arg1) & loop_names and \
                not A.same(arg1, recv)
            ck.require(ok, 'R01.4', f, call,
                       'the update is applied from the perspective of the '
                       'store paired with it in the tuple',
                       'apply_update is not given the store that came with '
                       'the Defer', call)
    ck.floor('R01.4', n, 2, 'apply loops')
    dg = ck.fn('Defer.get', 'core.engine')
    res = list(A.calls_in(dg.node, 'get_command_result'))
    ck.require(len(res) == 1, 'R01.4', dg, dg.node.name,
               'Defer.get calls get_command_result exactly once',
               'Defer.get fetches the command result %d times' % len(res))
    rets = [r for r in A.walk_no_nested(dg.node) if isinstance(r, ast.Return)]
    ok = bool(rets) and all(
        r.value is not None and res and derives(
            dg.node, r.value, lambda x: x is res[0]) for r in rets)
    ck.require(ok, 'R01.4', dg, rets[0] if rets else dg.node.name,
               'Defer.get returns a value computed from the command result',
               'Defer.get does not return the fetched update')
    if rets and res:
        r = rets[0]
        from ..dataflow import expand
        rv = expand(dg.node, r.value, r)
        call = rv if isinstance(rv, ast.Call) else None
        ok = call is not None and A.unparse(call.func) == 'self.f' and \
            len(call.args) == 2 and A.unparse(call.args[1]) == 'self.args' \
            and A.contains(call.args[0], res[0])
        ck.require(ok, 'R01.4', dg, r,
                   'Defer.get applies the stored function to (result, args) '
                   'in that order',
                   'Defer.get does not call self.f(result, self.args)', r)
    eg = ck.fn('EmptyDefer.get', 'core.engine')
    rets = [r for r in A.walk_no_nested(eg.node) if isinstance(r, ast.Return)]
    ok = bool(rets) and all(isinstance(r.value, ast.Dict) and not
                            r.value.keys for r in rets)
    ck.require(ok, 'R01.4', eg, rets[0] if rets else eg.node.name,
               'EmptyDefer.get returns an empty update',
               'EmptyDefer.get returns something other than {}')


# ------------------------------------------------------------------ R01.5
def front_leaves_with_process(dp):
    """Does Engine._delete_path drop self.front[path] for every path under
    the deleted prefix?  (the same test as C10 R10.4 'front')"""
    cfg = cfg_of(dp.node)
    param = A.params_of(dp.node)[1]
    cands = [c for c in A.calls_in(dp.node, 'pop')
             if A.unparse(A.call_receiver(c)) == 'self.front']
    cands += [d for d in A.walk_no_nested(dp.node)
              if isinstance(d, ast.Delete) and A.unparse(
                  d.targets[0]).startswith('self.front[')]
    for c in cands:
        g = cfg.guards(cfg.node(c))
        if any(a[0] == 'truthy' and a[1].replace(' ', '').startswith(
                'starts_with(') and a[1].replace(' ', '').endswith(
                ',%s)' % param) for a in g):
            return True
    return False


def r01_5(ck, rf):
    ck.rule('R01.5', 'deleted processes: _remove_deleted_processes() runs in '
            'every scheduler iteration before polling and rebinds front to '
            'the entries whose path is still in process_paths')
    f, cfg = rf.fi, rf.cfg
    # Since front entries are dropped where the process is deleted
    # (Engine._delete_path, C10 R10.4 'front'), every key of front is a key
    # of process_paths and the per-iteration filter is the identity: when
    # that is the case on this tree, how (and whether) the filter is written
    # decides nothing.
    dp = ck.fn('Engine._delete_path', 'core.engine')
    if front_leaves_with_process(dp):
        ck.ok('R01.5', dp, 'front entry dropped in Engine._delete_path',
              'the front entry of a deleted process is dropped where the '
              'process is deleted; the per-iteration filter is redundant')
        return
    calls = [c for c in rf.calls('_remove_deleted_processes')
             if within(c, rf.while_loop)]
    pn = cfg.node(rf.poll_loop)
    ok = any(cfg.iter_dominates(rf.while_loop, cfg.node(c), pn)
             for c in calls)
    ck.require(ok, 'R01.5', f, calls[0] if calls else 'while-loop body',
               'every scheduler iteration passes through '
               '_remove_deleted_processes() before the polling loop',
               'in-flight updates of deleted processes are not dropped '
               'before polling: _remove_deleted_processes() does not '
               'dominate the polling loop', rf.while_loop)
    # the take loop must also come after it (it does, being after polling)
    rd = ck.fn('Engine._remove_deleted_processes', 'core.engine')
    # ... and it filters on every call: no shortcut past the rebuild
    crd = cfg_of(rd.node)
    early = [r for r in A.walk_no_nested(rd.node)
             if isinstance(r, ast.Return) and crd.node(r) is not None
             and crd.guards(crd.node(r))]
    ck.require(not early, 'R01.5', rd, early[0] if early else rd.node.name,
               'the front is filtered on every call',
               '_remove_deleted_processes returns early under %s: when as '
               'many processes were added as deleted the stale entries '
               'survive and a process re-created at such a path inherits '
               'an old due time' % (sorted(crd.guards(crd.node(early[0])))
                                    if early else ''),
               early[0] if early else None)
    ok = False
    for n in A.walk_no_nested(rd.node):
        if isinstance(n, ast.Assign) and any(
                A.is_self_attr(t, 'front') for t in n.targets) and \
                isinstance(n.value, ast.DictComp):
            dc = n.value
            gen = dc.generators[0]
            src_ok = 'self.front' in A.unparse(gen.iter)
            keyname = A.unparse(gen.target.elts[0]) if isinstance(
                gen.target, ast.Tuple) else A.unparse(gen.target)
            filt = set()
            for cond in gen.ifs:
                filt |= A.cond_atoms(cond, True)
            mem = ('in', keyname, 'self.process_paths') in filt
            same_key = A.unparse(dc.key) == keyname
            val_ok = isinstance(gen.target, ast.Tuple) and A.unparse(
                dc.value) == A.unparse(gen.target.elts[1]) or (
                'self.front[' in A.unparse(dc.value))
            ok = src_ok and mem and same_key and val_ok
            ck.require(ok, 'R01.5', rd, n,
                       'front is rebound to its entries whose path is in '
                       'process_paths (entries kept unchanged)',
                       'front is not filtered by membership in '
                       'self.process_paths', n)
            break
    else:
        # alternative idiom: rebuild a new dictionary entry by entry
        c0 = cfg_of(rd.node)
        rebuilt = None
        for s2 in A.walk_no_nested(rd.node):
            if isinstance(s2, ast.Assign) and isinstance(
                    s2.targets[0], ast.Subscript) and isinstance(
                    s2.targets[0].value, ast.Name):
                lp = s2
                while lp is not None and not isinstance(lp, ast.For):
                    lp = getattr(lp, '_parent', None)
                if lp is None or 'self.front' not in A.unparse(lp.iter):
                    continue
                key = A.unparse(s2.targets[0].slice)
                g = c0.guards(c0.node(s2))
                if ('in', key, 'self.process_paths') in g:
                    rebuilt = s2.targets[0].value.id
        if rebuilt is not None and any(
                isinstance(s2, ast.Assign) and any(
                    A.is_self_attr(t, 'front') for t in s2.targets) and
                A.is_name(s2.value, rebuilt)
                for s2 in A.walk_no_nested(rd.node)):
            ck.ok('R01.5', rd, rd.node.name,
                  'front is rebuilt from its entries whose path is in '
                  'process_paths')
            return
        # alternative idiom: delete keys not in process_paths
        dels = [n for n in A.walk_no_nested(rd.node)
                if isinstance(n, ast.Delete) or (
                    isinstance(n, ast.Call) and A.call_name(n) == 'pop')]
        c = cfg_of(rd.node)
        ok = False
        for d in dels:
            nn = c.node(d)
            if nn is None:
                continue
            if any(a[0] == 'notin' and a[2] == 'self.process_paths'
                   for a in c.guards(nn)) and 'self.front' in A.unparse(
                    d if isinstance(d, ast.Delete) else d.func):
                ok = True
        ck.require(ok, 'R01.5', rd, rd.node.name,
                   'front entries whose path left process_paths are removed',
                   '_remove_deleted_processes does not drop front entries '
                   'of deleted processes')


# ------------------------------------------------------------------ R01.6
def r01_6(ck, rf):
    ck.rule('R01.6', 'due time: the time stored with a started update is '
            'the value tested against the end of the interval; the only '
            'writers of a front time slot are entry creation at global_time, '
            'the due time at invocation, and the quiet advance to '
            'global_time')
    f, cfg, fm = rf.fi, rf.cfg, rf.front
    n_writers = 0
    # 1. writers across the engine
    eng = ck.repo.module('core.engine')
    for fi in ck.repo.functions:
        if fi.is_test or fi.module != eng.name or fi.cls != 'Engine':
            continue
        m = FrontModel(fi)
        c = cfg_of(fi.node)
        for (stmt, tgt, val, ek) in m.slot_writes('time'):
            n_writers += 1
            if A.is_self_attr(val, 'global_time'):
                ck.ok('R01.6', fi, stmt,
                      'time slot written with the clock (quiet advance)')
                continue
            if fi.qual == f.qual and isinstance(val, ast.Name):
                atoms = c.guards(c.node(stmt))
                ok = ('<=', val.id, rf.end_name) in atoms
                ck.require(ok, 'R01.6', fi, stmt,
                           'the stored due time is the value guarded by '
                           '<= end_time',
                           'the time stored with the update (%s) is not the '
                           'value that was tested against end_time'
                           % val.id, stmt)
                # the Defer store of the same entry is in the same block
                ups = [w for w in m.slot_writes('update')
                       if w[3] == ek and c.guards(c.node(w[0])) == atoms]
                ck.require(bool(ups), 'R01.6', fi, stmt,
                           'the due time and the Defer are stored together',
                           'due time stored without the matching update',
                           stmt)
                continue
            ck.fail('R01.6', fi, stmt,
                    'unexpected writer of a front time slot: only the due '
                    'time of a started update or the clock may be stored',
                    stmt)
        for (stmt, tgt, val) in m.entry_literal_writes():
            n_writers += 1
            ok = isinstance(val, ast.Call) and A.call_name(val) == \
                'empty_front' and val.args and A.is_self_attr(
                    val.args[0], 'global_time')
            ck.require(ok, 'R01.6', fi, stmt,
                       'a new front entry starts at the current clock with '
                       'no update',
                       'front entry created with something other than '
                       'empty_front(self.global_time)', stmt)
        # dict comprehension in __init__
        for n in A.walk_no_nested(fi.node):
            if isinstance(n, (ast.Assign, ast.AnnAssign)) and any(
                    A.is_self_attr(t, 'front')
                    for t in A.assigned_targets(n)) and isinstance(
                    n.value, ast.DictComp):
                v = n.value.value
                if fi.name == '_remove_deleted_processes':
                    continue
                n_writers += 1
                ok = isinstance(v, ast.Call) and A.call_name(v) == \
                    'empty_front' and v.args and A.is_self_attr(
                        v.args[0], 'global_time')
                ck.require(ok, 'R01.6', fi, n,
                           'initial front entries start at the initial '
                           'clock with no update', None, n)
    # the clock is set before the initial front is built from it
    init = ck.fn('Engine.__init__', 'core.engine')
    ci = cfg_of(init.node)
    gts = [x for x in A.walk_no_nested(init.node)
           if isinstance(x, (ast.Assign, ast.AnnAssign)) and any(
               A.is_self_attr(t, 'global_time')
               for t in A.assigned_targets(x))]
    fronts = [x for x in A.walk_no_nested(init.node)
              if isinstance(x, (ast.Assign, ast.AnnAssign)) and any(
                  A.is_self_attr(t, 'front')
                  for t in A.assigned_targets(x))]
    ok = bool(gts) and bool(fronts) and all(
        ci.dominates(ci.node(gts[0]), ci.node(x)) for x in fronts)
    ck.require(ok, 'R01.6', init, fronts[0] if fronts else 'self.front',
               'global_time is initialised before the front entries are '
               'created from it',
               'the initial front is built before self.global_time is set '
               'from initial_global_time: processes start at a stale clock '
               'value', fronts[0] if fronts else None)
    ck.floor('R01.6', n_writers, 4, 'writers of front time slots')
    ef = ck.fn('empty_front', 'core.engine')
    rets = [r for r in A.walk_no_nested(ef.node) if isinstance(r, ast.Return)]
    ok = False
    if rets and isinstance(rets[0].value, ast.Dict):
        d = {A.unparse(k): v for k, v in zip(rets[0].value.keys,
                                             rets[0].value.values)}
        p = A.params_of(ef.node)[0]
        ok = "'time'" in d and A.is_name(d["'time'"], p) and \
            "'update'" in d and A.is_empty_const(d["'update'"])
    ck.require(ok, 'R01.6', ef, rets[0] if rets else ef.node.name,
               "empty_front(t) is {'time': t, 'update': <empty>}",
               'empty_front does not build a time/empty-update entry')


# ------------------------------------------------------------------ R01.7
def _empty_defer_store(val):
    return any(isinstance(n, ast.Call) and A.call_name(n) == 'EmptyDefer'
               for n in ast.walk(val))


def r01_7(ck, rf):
    ck.rule('R01.7', 'no clear without take: an update slot is emptied only '
            'as the clearing half of a take, or for entries recorded as '
            'quiet (EmptyDefer) in this same iteration')
    f, cfg, fm = rf.fi, rf.cfg, rf.front
    n = 0
    # quiet lists: locals appended to only next to an EmptyDefer store
    quiet_lists = {}
    for c in A.calls_in(f.node, 'append'):
        recv = A.call_receiver(c)
        if not isinstance(recv, ast.Name) or not rf.in_poll(c):
            continue
        node = cfg.node(c)
        g = cfg.guards(node)
        key = A.unparse(c.args[0]) if c.args else None
        paired = False
        for (wstmt, tgt, val, ek) in fm.slot_writes('update'):
            if ek == key and _empty_defer_store(val) and \
                    cfg.guards(cfg.node(wstmt)) == g:
                paired = True
        quiet_lists.setdefault(recv.id, []).append((c, paired))
    quiet_ok = {k for k, v in quiet_lists.items() if all(p for _, p in v)}

    def check_fn(fi, binding, via):
        nonlocal n
        m = FrontModel(fi)
        for (stmt, tgt, val, ek) in m.slot_writes('update'):
            if not A.is_empty_const(val):
                continue
            if id(stmt) in getattr(rf, 'take_clears', set()):
                n += 1
                ck.ok('R01.7', fi, stmt, 'clearing half of a take (R01.3)')
                continue
            n += 1
            loop = _enclosing_loop(stmt, fi.node)
            ok = False
            why = 'the cleared entries are not the ones recorded as quiet'
            if loop is not None and isinstance(loop, ast.For) and \
                    A.unparse(loop.target) == ek:
                it = loop.iter
                src = None
                if isinstance(it, ast.Name):
                    src = binding.get(it.id, it) if binding else it
                if isinstance(src, ast.Name) and src.id in quiet_ok:
                    ok = True
                elif isinstance(src, ast.Name) and src.id in quiet_lists:
                    why = ('the list %s also receives paths that did not '
                           'get an EmptyDefer' % src.id)
            if not ok and fi is not f:
                from ..restructure import pinned as _pinned
                if (fi.module + ':' + fi.qual) not in _pinned():
                    # a new helper (a generator, ...) that could not be
                    # folded into run_for: whether this clear is the
                    # clearing half of a take cannot be seen from here
                    ck.undecided('R01.7', fi, stmt,
                                 'a front slot is emptied in the new helper '
                                 '%s, outside the scheduler loop the rule '
                                 'reads' % fi.qual, stmt)
                    continue
            ck.require(ok, 'R01.7', fi, stmt,
                       'slot emptied only for entries that this iteration '
                       'recorded as quiet',
                       'an update slot is emptied without being taken: '
                       + why + ' - a real pending update could be discarded',
                       stmt)

    check_fn(f, {}, None)
    for c in A.calls_in(f.node):
        callee, binding = inline_helper_calls(ck, f, c)
        if callee is not None and callee.cls == 'Engine' and \
                callee.qual != f.qual and callee.name not in (
                    '_send_updates', '_emit_store_data', 'run_steps',
                    '_remove_deleted_processes', '_process_state'):
            check_fn(callee, binding, c)
    # calls whose value is used (x = self.helper())
    for c in A.calls_in(f.node):
        if isinstance(c.func, ast.Attribute) and A.is_name(
                c.func.value, 'self') and not isinstance(
                getattr(c, '_parent', None), ast.Expr):
            callee = ck.repo.method('Engine', c.func.attr)
            if callee is not None and callee.qual != f.qual and \
                    callee is getattr(rf, 'take_helper', None):
                check_fn(callee, {}, c)
    # anywhere else in Engine: no other function may empty update slots
    for fi in ck.repo.functions:
        if fi.cls != 'Engine' or fi.is_test or fi.qual == f.qual:
            continue
        called = any(A.call_name(c) == fi.name
                     for c in A.calls_in(f.node)) or \
            fi is getattr(rf, 'take_helper', None)
        if called:
            continue
        m = FrontModel(fi)
        for (stmt, tgt, val, ek) in m.slot_writes('update'):
            n += 1
            ck.fail('R01.7', fi, stmt,
                    'front update slot written outside the scheduler loop '
                    'and its helpers', stmt)
    ck.floor('R01.7', n, 1, 'stores of an empty value into update slots')


# ------------------------------------------------------------------ R01.8
def r01_8(ck, rf):
    ck.rule('R01.8', 'the update condition gates the invocation: '
            '_process_update is control-dependent on the true branch of '
            'process.update_condition(interval, states) on the same '
            'interval and states; the false branch starts nothing')
    n = 0
    for qual in ('Engine.run_for', 'Engine._calculate_update'):
        f = ck.fn(qual, 'core.engine')
        cfg = cfg_of(f.node)
        for c in A.calls_in(f.node, '_process_update'):
            n += 1
            node = cfg.node(c)
            interval = A.arg_of(c, 4, 'interval')
            states = A.arg_of(c, 3, 'states')
            process = A.arg_of(c, 1, 'process')
            hit = False
            for cond, pol in cfg.guard_edges(node):
                if pol not in (True, False):
                    continue
                for a in A.cond_atoms(cond, pol):
                    if a[0] != 'truthy':
                        continue
                    try:
                        e = parse_expr(a[1])
                    except SyntaxError:
                        continue
                    if isinstance(e, ast.Call) and A.call_name(e) == \
                            'update_condition' and len(e.args) == 2 and \
                            A.same(e.args[0], interval) and \
                            A.same(e.args[1], states) and A.same(
                                A.call_receiver(e), process):
                        hit = True
            # locals bound to the condition: cond = p.update_condition(..)
            if not hit:
                for atom in cfg.guards(node):
                    if atom[0] == 'truthy' and atom[1].isidentifier():
                        class _N:
                            id = atom[1]
                        cond = _N
                        for d in reaching(f.node).at(c, cond.id):
                            e = d.value
                            if isinstance(e, ast.Call) and A.call_name(
                                    e) == 'update_condition' and len(
                                    e.args) == 2 and A.same(
                                    e.args[0], interval) and A.same(
                                    e.args[1], states):
                                hit = True
            ck.require(hit, 'R01.8', f, c,
                       'the invocation is guarded by the true branch of '
                       'process.update_condition(interval, states)',
                       'a process is invoked although its update condition '
                       'was not consulted (or consulted on other '
                       'arguments): a quiet process would contribute an '
                       'update', c)
    ck.floor('R01.8', n, 2, 'guarded invocations')
    uc = ck.fn('Process.update_condition', 'core.process')
    c = cfg_of(uc.node)
    params = A.params_of(uc.node)
    rets = [r for r in A.walk_no_nested(uc.node) if isinstance(r, ast.Return)]
    cond_rets = 0
    for r in rets:
        node = c.node(r)
        g = c.guards(node)
        if ('truthy', 'self.condition_path') in g or (
                'isnot', 'self.condition_path', 'None') in g:
            cond_rets += 1
            v = r.value
            ok = isinstance(v, ast.Call) and A.call_name(v) == 'get_in' and \
                len(v.args) >= 2 and A.is_name(v.args[0], params[2]) and \
                A.unparse(v.args[1]) == 'self.condition_path'
            ck.require(ok, 'R01.8', uc, r,
                       'with a condition path the answer is the value found '
                       'at that path in states',
                       'update_condition does not return the value at '
                       'condition_path in states', r)
        else:
            ok = isinstance(r.value, ast.Constant) and r.value.value is True
            ck.require(ok, 'R01.8', uc, r,
                       'without a condition path the process always runs',
                       'update_condition does not default to True', r)
    # the condition variable is declared so that the process runs until it
    # is switched off: default True, settable (updater 'set')
    pi = ck.fn('Process.__init__', 'core.process')
    decl = None
    for d in ast.walk(pi.node):
        if isinstance(d, ast.Dict) and any(
                isinstance(k, ast.Constant) and k.value == '_updater'
                for k in d.keys):
            decl = d
    ok = False
    if decl is not None:
        kv = {k.value: v for k, v in zip(decl.keys, decl.values)
              if isinstance(k, ast.Constant)}
        ok = isinstance(kv.get('_default'), ast.Constant) and \
            kv['_default'].value is True and isinstance(
                kv.get('_updater'), ast.Constant) and \
            kv['_updater'].value == 'set'
    ck.require(ok, 'R01.8', pi, decl if decl is not None else pi.node.name,
               "the condition variable is declared with '_default': True "
               "and '_updater': 'set'",
               'the condition variable of a conditional process is no '
               'longer declared as default-True / set: the process starts '
               'switched off, or switching it accumulates instead of sets')
    cfgp = cfg_of(pi.node)
    mo = [c for c in A.calls_in(pi.node, 'merge_overrides')]
    ok = bool(mo) and any(('truthy', 'self._condition_path') in cfgp.guards(
        cfgp.node(c)) for c in mo)
    ck.require(ok, 'R01.8', pi, mo[0] if mo else pi.node.name,
               'the declaration is merged into the schema overrides exactly '
               'when a condition path is configured', None)
    ck.require(cond_rets >= 1, 'R01.8', uc, uc.node.name,
               'update_condition consults self.condition_path',
               'update_condition ignores the configured condition path')


# ------------------------------------------------------------------ R01.9
def r01_9(ck):
    ck.rule('R01.9', 'the clock never passes a pending due time: on every '
            'abstract path through the polling body a process with an '
            'update in flight (or just started) lowers full_step by the '
            'distance to its due time, so the update is applied at the end '
            'of its interval and not later')
    from ..sched import SchedulerAnalysis
    from ..linear import Lin, eq, entails
    sa = SchedulerAnalysis(ck)
    f = sa.rf.fi
    gt = Lin.sym('gt')
    n = 0
    seen = set()
    for st in sa.poll_states:
        # the entry's time at the end of the path
        key = sa.path_var
        t = st.slots.get(('time', key), Lin.sym('pt'))
        quiet = any(e[0] == 'append' and e[3] == key for e in st.events)
        terms = [e for e in st.events if e[0] == 'fullstep-term']
        trace = ', '.join('%s=%s' % x for x in st.trace)
        if quiet:
            continue
        n += 1
        ok = False
        for e in terms:
            term = e[2]
            if isinstance(term, Lin) and isinstance(t, Lin):
                # term <= due time - clock  (never shoots past the event)
                from ..linear import le
                if entails(st.facts, le(term, t - gt)):
                    ok = True
        # deferred processes (future beyond end) bound the step by more
        # than the remaining interval; they hold no update
        holds_update = any(e[0] == 'invoke' for e in st.events) or not any(
            e[0] in ('invoke', 'timestep') for e in st.events)
        if not holds_update:
            ok = ok or bool(terms)
        label = st.trace[-1][0] if st.trace else 'polling body'
        k = (label, ok)
        if k in seen:
            continue
        seen.add(k)
        ck.require(ok, 'R01.9', f, 'polling path ending at: ' + label,
                   'full_step is bounded by the distance to the due time of '
                   'this process',
                   'on the path [%s] the step of the clock is not bounded '
                   'by the due time of the process: the clock can pass a '
                   'pending update, which is then applied late' % trace,
                   sa.rf.poll_loop)
    ck.floor('R01.9', n, 4, 'abstract polling paths holding or starting an '
             'update')


# ----------------------------------------------------------- R01.10, R01.11
def r01_10(ck):
    ck.rule('R01.10', 'an update is applied at the end of the interval it '
            'was computed for: stored due time - previous entry time == '
            'interval argument on every abstract path (shared with C02 '
            'R02.1)')
    ck.rule('R01.11', 'the scheduling members of a parallel process '
            '(update_condition, next_update, calculate_timestep) are '
            'forwarded to the wrapped process on every path (shared with '
            'C13 R13.1)')
    from ..sched import SchedulerAnalysis
    from . import c02, c13
    sa = SchedulerAnalysis(ck)
    c02.r02_1(ck, sa)
    for o in ck.obligations:
        if o['rule'] == 'R02.1':
            o['rule'] = 'R01.10'
    for v in ck.violations:
        if v.rule == 'R02.1':
            v.rule = 'R01.10'
    ck.rules.pop('R02.1', None)
    c13.r13_1(ck, only=('update_condition', 'next_update',
                        'calculate_timestep'), rule='R01.11')


def iteration_accumulators(rf):
    """Locals of run_for that are grown or folded inside the scheduler loop
    (append / x = f(x, ..) / x += ..) and whose content decides what is
    scheduled or applied: the arguments of _advance_quiet_paths and
    _send_updates, the lists iterated to write front entries, and whatever
    the new clock value is computed from.  {name: [mutating statements]}."""
    f = rf.fnode
    defs = local_defs(f)
    acc = {}
    for name, ds in defs.items():
        muts = []
        for d in ds:
            if not within(d.stmt, rf.while_loop):
                continue
            if d.kind in ('mutate', 'aug'):
                muts.append(d.stmt)
            elif d.kind == 'assign' and d.value is not None and \
                    name in A.names_in(d.value):
                muts.append(d.stmt)
        if muts:
            acc[name] = muts
    sinks = []
    for c in A.calls_in(rf.while_loop):
        if A.call_name(c) in ('_advance_quiet_paths', '_send_updates'):
            sinks += [(a, c) for a in c.args]
    for n in A.walk_no_nested(rf.while_loop):
        if isinstance(n, ast.For) and any(
                isinstance(s2, ast.Assign) and 'self.front' in A.unparse(
                    s2.targets[0]) for s2 in A.walk_no_nested(n)):
            sinks.append((n.iter, n))
        if isinstance(n, ast.Assign) and A.is_self_attr(
                n.targets[0], 'global_time'):
            sinks.append((n.value, n))
    out = {}
    for name, muts in acc.items():
        if any(derives(f, e, lambda x: A.is_name(x, name), at=at)
               for e, at in sinks):
            out[name] = muts
    return out


def r01_14(ck, rf, rule='R01.14'):
    ck.rule(rule, 'what one scheduler iteration collects (quiet paths, due '
            'updates, the minimal step) is reset in that iteration: every '
            'such accumulator is re-initialised inside the loop, before it '
            'is grown - nothing is carried over from an earlier iteration')
    f = rf.fi
    cfg = rf.cfg
    accs = iteration_accumulators(rf)
    n = 0
    for name, muts in sorted(accs.items()):
        resets = [d for d in local_defs(rf.fnode).get(name, [])
                  if d.kind == 'assign' and d.value is not None
                  and name not in A.names_in(d.value)]
        inside = [d for d in resets if within(d.stmt, rf.while_loop)]
        for m in muts:
            n += 1
            rn = {cfg.node(d.stmt) for d in inside} - {None}
            be = cfg.loops[id(rf.while_loop)]['body_entry']
            ok = bool(rn) and (be in rn or cfg.must_pass(
                be, cfg.node(m), rn,
                within=cfg.loop_nodes(rf.while_loop)))
            ck.require(ok, rule, f, m,
                       '%s is reset in every iteration before it is grown'
                       % name,
                       '%s is grown in the scheduler loop but initialised '
                       'outside it (or not on every path): entries of an '
                       'earlier iteration are acted on again - a process '
                       'that was quiet then has its pending update applied '
                       'early' % name, m)
    ck.floor(rule, n, 3, 'accumulator growth sites in the scheduler loop')


def r01_12(ck):
    """Updates in flight of *moved* (not deleted) processes are not lost
    (shared with C10 R10.11)."""
    from . import c10
    c10.r10_11(ck, rule='R01.12')


def r01_13(ck):
    ck.rule('R01.13', 'no part of a returned update is lost on the way to '
            'the store: colliding port updates stay separate updates, and '
            'a leaf applies its updater whatever the value of the update '
            '(shared with C06 R06.2 and C08 R08.5)')
    from . import c06, c08
    c06.r06_2(ck)
    c08.r08_5(ck)
    c08.r08_11(ck, rule='R01.13')
    OLD, NEW = ('R06.2', 'R08.5'), 'R01.13'

    for o in ck.obligations:
        if o['rule'] in OLD:
            o['rule'] = NEW
    for v in ck.violations:
        if v.rule in OLD:
            v.rule = NEW
    for r in OLD:
        ck.rules.pop(r, None)
