"""C04 - processes started together see one committed snapshot."""

import ast

from .. import astutil as A
from ..callgraph import callgraph, store_write_sites
from ..cfg import cfg_of, within
from ..dataflow import reaching, derives
from ..engine_model import RunFor

EXPL = (
    'Effect analysis over the call graph: no function reachable (may-edges, '
    'receiver-typed) from the body of the polling loop of run_for, or from '
    'the compute loop of one step layer, writes store state or applies an '
    'update; the apply loop of a layer starts only after the compute loop '
    'has finished; the states handed to a process are read from the store '
    'in the same iteration (no cache). Hence nothing is applied between the '
    'invocations of one pass / one layer, for every composite. Not decided: '
    'the metamorphic equality of trajectories under permutation of listing '
    'order (quantifies over runtime trajectories).')

FORBIDDEN = {'Engine.apply_update', 'Engine._send_updates',
             'Engine.run_steps', 'Store.apply_update', 'Store.set_value',
             'Store.generate', 'Store.insert', 'Store.divide', 'Store.move',
             'Store.delete', 'Store.add'}


def process_family(ck):
    fam = {'Process'}
    for ci in ck.repo.subclasses('Process', include_tests=True):
        fam.add(ci.name)
    return fam


def effect_scan(ck, rule, fi, roots_calls, what):
    """No store write reachable from the given call expressions."""
    cg = callgraph(ck.repo)
    fam = process_family(ck)
    roots = []
    for c in roots_calls:
        ck.call_sites += 1
        for callee in cg.resolve_call(fi, c):
            roots.append(callee)
    seen = cg.reachable(
        roots, stop=lambda f: f.cls in fam)
    bad = 0
    for fq, (f, parent, call) in sorted(seen.items()):
        if f.cls in fam:
            continue        # trusted boundary: user callbacks
        ck.functions.add(f.fq)
        writes = store_write_sites(f.node)
        if f.qual in FORBIDDEN or writes:
            bad += 1
            chain = ' -> '.join(cg.path_to(seen, fq))
            ck.fail(rule, fi, '%s: reaches %s' % (what, f.qual),
                    '%s can write the store before all processes of the '
                    'pass have been started: %s%s' % (
                        what, chain,
                        (' writes `%s`' % A.short(writes[0], 60))
                        if writes else ' applies updates'),
                    roots_calls[0] if roots_calls else None)
    if not bad:
        ck.ok(rule, fi, what,
              'no store-writing function among the %d functions reachable '
              'from it' % len(seen))
    return len(seen)


def direct_writes(ck, rule, fi, region, what):
    bad = [n for n in store_write_sites(region)]
    ck.require(not bad, rule, fi, bad[0] if bad else what,
               'no direct store write inside ' + what,
               'a store attribute is written inside ' + what,
               bad[0] if bad else None)


def check(ck):
    ck.explanation = EXPL
    ck.technique = ('call-graph effect analysis (writes-store-state) with '
                    'receiver typing; CFG dominance between the compute and '
                    'apply loops; reaching definitions')
    ck.assume('user callbacks (calculate_timestep, update_condition, '
              'next_update) do not mutate the states they are handed')
    rf = RunFor(ck)
    r04_1(ck, rf)
    r04_2(ck)
    r04_3(ck, rf)
    r04_4(ck)
    from . import c05, c07, c08, c16
    ck.shared('R04.5', 'nothing makes the result depend on the listing '
              'order: updaters are the declared ones and leave shared '
              'objects alone (so that commuting updates commute), the '
              'sub-schema a store keeps is not shared with the process that '
              'was listed first, and dependency edges between steps do not '
              'depend on which step was registered first',
              c08.r08_7_lookup, c08.r08_8, c07.r07_7, c05.r05_4,
              c16.r16_6)
    ck.shared('R04.6', 'the steps of one layer all read the state their '
              'dependencies left: the views are rebuilt after every layer '
              'whose updates were structural, before the next layer is '
              'started (a later layer reading through a stale view would '
              'see another state than a step of the same layer that reads '
              'the live store)',
              c05.r05_3)


def r04_1(ck, rf):
    ck.rule('R04.1', 'polling is read-only: nothing reachable from the body '
            'of the polling loop writes store state or applies updates')
    calls = [c for c in A.calls_in(rf.poll_loop)]
    n = effect_scan(ck, 'R04.1', rf.fi, calls,
                    'the polling loop of run_for')
    direct_writes(ck, 'R04.1', rf.fi, rf.poll_loop, 'the polling loop')
    ck.floor('R04.1', n, 5, 'functions reachable from the polling loop')


def r04_2(ck):
    ck.rule('R04.2', 'compute-then-apply per layer: within one layer of '
            'run_steps the loop that starts the steps writes nothing, and '
            'the loop that applies their updates is entered only after it '
            'has finished')
    f = ck.fn('Engine.run_steps', 'core.engine')
    cfg = cfg_of(f.node)
    comp = [c for c in A.calls_in(f.node, '_calculate_update')]
    appl = [c for c in A.calls_in(f.node, 'apply_update')]
    ck.require(bool(comp) and bool(appl), 'R04.2', f, f.node.name,
               'run_steps computes updates with _calculate_update and '
               'applies them with apply_update',
               'run_steps no longer has separate compute and apply calls')
    if not comp or not appl:
        return

    def loop_of(x):
        p = x
        while p is not None and p is not f.node:
            if isinstance(p, ast.For):
                return p
            p = getattr(p, '_parent', None)
        return None
    cl, al = loop_of(comp[0]), loop_of(appl[0])
    ok = cl is not None and al is not None and cl is not al and \
        not within(al, cl) and not within(appl[0], cl)
    ck.require(ok, 'R04.2', f, appl[0],
               'updates are applied in a loop separate from the one that '
               'starts the steps',
               'a step update is applied inside the loop that starts the '
               'steps of the layer: later steps of the same layer see it',
               appl[0])
    if not ok:
        return
    layer = loop_of(cl._parent)
    ck.require(layer is not None and within(al, layer), 'R04.2', f, cl,
               'both loops belong to one layer iteration', None, cl)
    done = [x for x in cfg.g.successors(cfg.loops[id(cl)]['header'])
            if cfg.info[x].get('pol') == 'done']
    ok = bool(done) and cfg.dominates(done[0], cfg.node(al))
    ck.require(ok, 'R04.2', f, al,
               'the apply loop is entered only after the compute loop of '
               'the layer has finished',
               'the apply loop can start before every step of the layer was '
               'started', al)
    calls = [c for c in A.calls_in(cl)]
    effect_scan(ck, 'R04.2', f, calls, 'the compute loop of run_steps')
    direct_writes(ck, 'R04.2', f, cl, 'the compute loop')


def r04_3(ck, rf):
    ck.rule('R04.3', 'fresh views: the states handed to a process derive '
            'from a _process_state(path) call of the same iteration, which '
            'reads the live store through its topology view')
    n = 0
    for qual in ('Engine.run_for', 'Engine._calculate_update'):
        f = ck.fn(qual, 'core.engine')
        for c in list(A.calls_in(f.node, '_process_update')) + list(
                A.calls_in(f.node, 'update_condition')) + list(
                A.calls_in(f.node, 'calculate_timestep')):
            nm = A.call_name(c)
            arg = {'_process_update': A.arg_of(c, 3, 'states'),
                   'update_condition': A.arg_of(c, 1, 'states'),
                   'calculate_timestep': A.arg_of(c, 0, 'states')}[nm]
            n += 1
            ok = False
            why = 'states is not a local bound from _process_state'
            if isinstance(arg, ast.Name):
                ds = reaching(f.node).at(c, arg.id)
                srcs = [d for d in ds]
                ok = bool(srcs) and all(
                    isinstance(d.value, ast.Call) and A.call_name(
                        d.value) == '_process_state' for d in srcs)
                if ok and qual == 'Engine.run_for':
                    ok = all(within(d.stmt, rf.poll_loop) for d in srcs)
                    why = 'states was computed outside this iteration'
                if ok:
                    # the path argument is this iteration's path
                    pv = rf.poll_targets()[0] if qual == 'Engine.run_for' \
                        else A.params_of(f.node)[1]
                    ok = all(A.is_name(A.arg_of(d.value, 0, 'path'), pv)
                             for d in srcs)
                    why = '_process_state is asked about another path'
            ck.require(ok, 'R04.3', f, c,
                       'states comes from _process_state(path) evaluated in '
                       'this iteration',
                       'the process is handed states that were not read from '
                       'the store in this iteration (%s)' % why, c)
    ck.floor('R04.3', n, 5, 'uses of states')
    ps = ck.fn('Engine._process_state', 'core.engine')
    rets = [r for r in A.walk_no_nested(ps.node) if isinstance(r, ast.Return)]
    param = A.params_of(ps.node)[1]
    ok = bool(rets)
    for r in rets:
        v = r.value
        st = v.elts[1] if isinstance(v, ast.Tuple) and len(v.elts) == 2 \
            else v
        ok = ok and derives(
            ps.node, st, lambda x: isinstance(x, ast.Call) and A.call_name(
                x) == 'view_values', at=r) and derives(
            ps.node, st, lambda x: isinstance(x, ast.Attribute) and
            x.attr == 'topology_view', at=r) and derives(
            ps.node, st, lambda x: isinstance(x, ast.Call) and A.call_name(
                x) == 'get_path' and A.is_name(A.arg_of(x, 0, 'path'),
                                               param), at=r)
    ck.require(ok, 'R04.3', ps, rets[0] if rets else ps.node.name,
               '_process_state reads the live values through the topology '
               'view of the store at the given path',
               '_process_state does not return view_values(store at '
               'path .topology_view)')
    cache = [n for n in A.walk_no_nested(ps.node)
             if isinstance(n, (ast.Assign, ast.AugAssign)) and any(
                 isinstance(t, (ast.Attribute, ast.Subscript))
                 for t in A.assigned_targets(n))]
    cache += [c for c in A.calls_in(ps.node, ('setattr', 'getattr'))]
    for r in rets:
        v = r.value
        st = v.elts[1] if isinstance(v, ast.Tuple) and len(v.elts) == 2 \
            else v
        if isinstance(st, ast.Name):
            for d in reaching(ps.node).at(r, st.id):
                if not (isinstance(d.value, ast.Call) and A.call_name(
                        d.value) == 'view_values'):
                    cache.append(d.stmt)
        elif not (isinstance(st, ast.Call) and A.call_name(st) ==
                  'view_values'):
            cache.append(r)
    ck.require(not cache, 'R04.3', ps, cache[0] if cache else ps.node.name,
               '_process_state keeps no cache: states is exactly the '
               'result of view_values and nothing is stored on objects',
               '_process_state stores or reuses state on an object: views '
               'may be stale',
               cache[0] if cache else None)
    vv = ck.fn('view_values', 'core.store')
    ck.require(not store_write_sites(vv.node), 'R04.3', vv, vv.node.name,
               'view_values writes nothing', 'view_values writes store '
               'state')
    ok = any(isinstance(r, ast.Return) and isinstance(r.value, ast.Call)
             and A.call_name(r.value) == 'get_value'
             for r in A.walk_no_nested(vv.node))
    ck.require(ok, 'R04.3', vv, vv.node.name,
               'a Store in the view is read with get_value() at invocation',
               'view_values no longer reads live values with get_value()')
    gv = ck.fn('Store.get_value', 'core.store')
    ck.require(not store_write_sites(gv.node), 'R04.3', gv, gv.node.name,
               'Store.get_value writes nothing', 'Store.get_value writes '
               'store state')


def r04_4(ck):
    ck.rule('R04.4', 'what the processes of one pass were shown and what '
            'they returned stays as it was until it is applied: built-in '
            'updaters do not modify the current value in place (an update '
            'may alias a viewed value), colliding port updates stay '
            'separate, and steps created or moved by structural updates '
            'keep their layer (shared with C08 R08.8, C06 R06.2, C05 R05.6)')
    from . import c05, c06, c07, c08, c16
    c08.r08_8(ck, rule='R04.4')
    c06.r06_2(ck)
    c05.r05_6(ck)
    # views of processes started together are rebuilt after every
    # structural change, and a schema override stays with its process
    c07.r07_1(ck)
    c07.r07_2(ck)
    c16.r16_7(ck)
    OLD, NEW = ('R06.2', 'R05.6', 'R07.1', 'R07.2', 'R16.7'), 'R04.4'

    for o in ck.obligations:
        if o['rule'] in OLD:
            o['rule'] = NEW
    for v in ck.violations:
        if v.rule in OLD:
            v.rule = NEW
    for r in OLD:
        ck.rules.pop(r, None)
