"""C03 - monotone clock, lands on the end, run_for terminates."""

import ast

from .. import astutil as A
from ..cfg import cfg_of, within
from ..dataflow import local_defs, reaching
from ..linear import Lin, le, lt, eq, entails
from ..sched import SchedulerAnalysis, Tag, MinSet

EXPL = (
    'Progress obligations of the scheduler loop decided in a linear-facts '
    'domain: every abstract path through the polling body either lowers '
    'full_step or records the process as quiet; every term folded into '
    'full_step is proven >= 0 (> 0 before the end) from the dominating '
    'guards; every assignment to global_time is proven non-decreasing, '
    'bounded by end_time and strictly progressing before the end; every '
    'advance brings the quiet entries to the new clock; at loop exit '
    'global_time == end_time; times manufactured by addition are rounded '
    'when a precision is set. Termination follows from these plus the '
    'assumption that timesteps are bounded below by a positive constant. '
    'Not decided: the floating-point grid clause (a runtime quantity).')


def check(ck):
    ck.explanation = EXPL
    ck.technique = ('abstract interpretation over linear forms with '
                    'Fourier-Motzkin entailment (monotonicity, bounds, '
                    'progress); CFG must-pass-through for rounding')
    sa = SchedulerAnalysis(ck)
    quiet = r03_1(ck, sa)
    r03_2(ck, sa, quiet)
    r03_3(ck, sa)
    r03_4(ck, sa)
    r03_5(ck, sa)
    from . import c01
    c01.r01_14(ck, sa.rf, rule='R03.6')
    ck.shared('R03.7', 'no front entry outlives its process: entries of '
              'deleted processes are dropped in every iteration, so a '
              'process created later at the same path starts at the clock '
              'and not at a time that lies in the past (which would turn '
              'the next step negative)',
              lambda c: c01.r01_5(c, sa.rf))


def quiet_lists(sa):
    """Lists that receive the path on polling paths without a term."""
    out = set()
    for st in sa.poll_states:
        if not any(e[0] == 'fullstep-term' for e in st.events):
            for e in st.events:
                if e[0] == 'append' and e[3] == sa.path_var:
                    out.add(e[2])
    return out


def r03_1(ck, sa):
    ck.rule('R03.1', 'exhaustive progress accounting: every path through '
            'the polling body lowers full_step or records the process as '
            'quiet; every advance of the clock brings the quiet entries to '
            'the new time')
    f = sa.rf.fi
    quiet = quiet_lists(sa)
    n = 0
    seen = set()
    for st in sa.poll_states:
        n += 1
        terms = [e for e in st.events if e[0] == 'fullstep-term']
        apps = [e for e in st.events if e[0] == 'append'
                and e[3] == sa.path_var]
        trace = ', '.join('%s=%s' % t for t in st.trace)
        ok = bool(terms) or bool(apps)
        if ok:
            ck.ok('R03.1', f, 'polling path [%s]' % trace,
                  'path accounted for: %s' % (
                      'lowers full_step' if terms else 'recorded as quiet'))
        else:
            last = st.trace[-1][0] if st.trace else 'polling body'
            key = last
            if key in seen:
                continue
            seen.add(key)
            ck.fail('R03.1', f, 'polling path ending at: ' + last,
                    'a process on the path [%s] neither bounds full_step '
                    'nor is recorded as quiet: the clock can shoot past its '
                    'next event or the loop can stall' % trace,
                    sa.rf.poll_loop)
    ck.floor('R03.1', n, 6, 'abstract polling paths')
    # every advance brings quiet entries along
    m = 0
    seen = set()
    for st in sa.adv_states:
        advs = [e for e in st.events if e[0] == 'advance']
        if not advs:
            continue
        m += 1
        last = advs[-1]
        idx = st.events.index(last)
        newgt = st.gt
        ok = False
        cur_forall = None
        for e in st.events[idx + 1:]:
            if e[0] == 'forall-begin':
                cur_forall = e
            elif e[0] == 'forall-end':
                cur_forall = None
            elif e[0] == 'store-time' and cur_forall is not None and \
                    cur_forall[2] in quiet and e[2] in cur_forall[3]:
                v = e[3]
                if isinstance(v, Lin) and isinstance(newgt, Lin) and \
                        entails(st.facts, eq(v, newgt)):
                    ok = True
        stmt = last[1]
        key = (A.unparse(stmt), stmt.lineno, ok)
        if key in seen:
            continue
        seen.add(key)
        ck.require(ok or not quiet, 'R03.1', f,
                   A.unparse(stmt) + ' [advance at branch %s]' %
                   _branch_label(stmt, sa),
                   'after this advance every quiet entry is brought to the '
                   'new clock',
                   'the clock is advanced but the quiet processes (%s) are '
                   'left behind: they fall behind the clock and '
                   'update() cannot complete' % ', '.join(sorted(quiet)),
                   stmt)
    ck.floor('R03.1', m, 3, 'abstract advance paths')
    return quiet


def _branch_label(stmt, sa):
    """Tests of the enclosing ifs (inside the scheduler loop) that mention
    time quantities, with the branch taken."""
    out = []
    p = stmt
    child = stmt
    while p is not None and p is not sa.rf.while_loop:
        par = getattr(p, '_parent', None)
        if isinstance(par, ast.If):
            txt = A.unparse(par.test)
            if any(k in txt for k in ('end_time', 'global_time',
                                      'full_step', 'math.inf')):
                side = any(p is b or within(p, b) for b in par.body)
                out.append('%s: %s' % (txt, side))
        p = par
    return '; '.join(reversed(out)) or 'top'


def r03_2(ck, sa, quiet):
    ck.rule('R03.2', 'positivity and monotonicity: every term of full_step '
            'is >= 0 and > 0 before the end; every assignment to '
            'global_time is non-decreasing, <= end_time, and strictly '
            'increasing while global_time < end_time')
    f = sa.rf.fi
    gt, end = Lin.sym('gt'), Lin.sym('end_time')
    results = {}
    pt = Lin.sym('pt')
    for st in sa.poll_states:
        invoked = False
        for e in st.events:
            if e[0] == 'invoke':
                invoked = True
            if e[0] != 'fullstep-term':
                continue
            stmt, term, facts, trace = e[1], e[2], e[3], e[4]
            # the construct is named by what it computes, not by how it is
            # spelled: the linear form of the term and the kind of path
            if invoked:
                kind = 'after the process was invoked'
            elif entails(facts, le(pt, gt)):
                kind = 'process due but not invoked'
            else:
                kind = 'process not due'
            label = 'full_step term (%r) [%s]' % (term, kind) \
                if isinstance(term, Lin) else \
                'full_step term %s [%s]' % (A.unparse(stmt), kind)
            if not isinstance(term, Lin):
                results.setdefault(label, []).append(
                    (False, stmt, 'term is not linear', trace))
                continue
            nonneg = entails(facts, le(0, term))
            pos = entails(facts + [lt(gt, end)], lt(0, term))
            results.setdefault(label, []).append(
                (nonneg and pos, stmt,
                 'term %r: >=0 %s, >0 before the end %s' % (
                     term, nonneg, pos), trace))
    for label, lst in sorted(results.items()):
        bad = [x for x in lst if not x[0]]
        stmt = lst[0][1]
        if bad:
            trace = ', '.join('%s=%s' % t for t in bad[0][3])
            ck.fail('R03.2', f, label,
                    'a step folded into full_step by `%s` is not provably '
                    'positive (%s) on the path [%s]: the clock can stall or '
                    'run backwards' % (A.unparse(stmt), bad[0][2], trace),
                    stmt,
                    what='term of full_step is >= 0, and > 0 before the end')
        else:
            ck.ok('R03.2', f, label, 'term of full_step is >= 0, and > 0 '
                  'before the end (%d abstract paths)' % len(lst), stmt)
    ck.floor('R03.2', len(results), 3, 'terms folded into full_step')
    # assignments to the clock
    seen = {}
    for st in sa.adv_states:
        for e in st.events:
            if e[0] == 'advance-in-loop':
                ck.fail('R03.2', f, e[1],
                        'global_time is assigned inside an inner loop: not '
                        'analysable as a monotone advance', e[1])
            if e[0] != 'advance':
                continue
            stmt, old, new, facts, flags = e[1], e[2], e[3], e[4], e[5]
            scen = flags.get('scenario')
            label = A.unparse(stmt) + ' [' + _branch_label(stmt, sa) + ']'
            if not isinstance(new, Lin):
                seen.setdefault(label, []).append(
                    (False, stmt, 'new clock value is not a linear '
                     'expression of the clock, full_step and end_time'))
                continue
            mono = entails(facts, le(old, new))
            bound = entails(facts, le(new, end))
            prog = True
            if scen and scen[1] == 'before':
                prog = entails(facts, lt(old, new))
            seen.setdefault(label, []).append(
                (mono and bound and prog, stmt,
                 'new=%r old=%r: monotone %s, bounded %s, progress %s' % (
                     new, old, mono, bound, prog)))
    for label, lst in sorted(seen.items()):
        bad = [x for x in lst if not x[0]]
        stmt = lst[0][1]
        if bad:
            ck.fail('R03.2', f, label,
                    'assignment to global_time not provably monotone / '
                    'bounded / progressing (%s)' % bad[0][2], stmt,
                    what='clock assignment is monotone, bounded by '
                    'end_time and makes progress before the end')
        else:
            ck.ok('R03.2', f, label, 'clock assignment is monotone, '
                  'bounded by end_time and makes progress before the end',
                  stmt)
    ck.floor('R03.2', len(seen), 2, 'assignments to global_time')
    # every advance scenario before the end advances the clock
    stuck = set()
    for st in sa.adv_states:
        scen = st.flags.get('scenario')
        if scen and scen[1] == 'before' and not any(
                e[0] == 'advance' for e in st.events):
            stuck.add(', '.join('%s=%s' % t for t in st.trace))
    for t in sorted(stuck):
        ck.fail('R03.2', f, 'advance section path [%s]' % t,
                'a scheduler iteration before the end leaves global_time '
                'unchanged: run_for would not terminate', sa.rf.while_loop)


def r03_3(ck, sa):
    ck.rule('R03.3', 'landing: the loop exits only with global_time >= '
            'end_time, which with the invariant global_time <= end_time '
            'gives equality; the force_complete flag is reset exactly when '
            'the clock has reached end_time; end_time is start + interval')
    rf = sa.rf
    f = rf.fi
    cfg = rf.cfg
    w = rf.while_loop
    atoms = A.cond_atoms(w.test, False)
    END = rf.end_name
    ok = ('<=', END, 'self.global_time') in atoms
    ck.require(ok, 'R03.3', f, 'while ' + A.unparse(w.test),
               'leaving the loop implies global_time >= end_time',
               'the scheduler loop can exit before global_time reaches '
               'end_time', w)
    # a forced call always gets (at least) one pass, even when the clock
    # already stands at end_time: leaving the loop implies the flag is off
    fparams = [x for x in A.params_of(f.node)[2:]]
    forced = [x for x in fparams if ('falsy', x) in atoms]
    ck.require(bool(forced), 'R03.3', f, 'while ' + A.unparse(w.test),
               'the loop cannot be left (or skipped) while forced completion '
               'is still requested',
               'with force_complete the scheduler loop can be skipped when '
               'global_time already equals end_time: processes that are '
               'behind the clock are never brought up to it (update(0) / '
               'run_for(0, force_complete=True) do nothing)', w)
    # end_time definition
    defs = local_defs(f.node).get(END, [])
    adds = [d for d in defs if isinstance(d.value, ast.BinOp)]
    # "the global time equals start plus interval exactly": the end is the
    # sum and nothing else (rounding it moves the end of an interval that
    # is not on the grid)
    rest = [d for d in defs if d not in adds]
    ok = len(adds) == 1 and isinstance(adds[0].value.op, ast.Add) and {
            A.unparse(adds[0].value.left), A.unparse(adds[0].value.right)} \
        == {'self.global_time', A.params_of(f.node)[1]} and not any(
            within(d.stmt, w) for d in defs) and not rest
    ck.require(ok, 'R03.3', f, defs[0].stmt if defs else 'end_time',
               'end_time = global_time + interval, fixed before the loop',
               'end_time is not start + interval computed once before the '
               'loop', defs[0].stmt if defs else None)
    flag = None
    if isinstance(w.test, ast.BoolOp):
        for v in w.test.values:
            if isinstance(v, ast.Name):
                flag = v.id
    if flag:
        resets = [d for d in local_defs(f.node).get(flag, [])
                  if d.kind != 'param']
        inside = [d for d in resets if within(d.stmt, w)]
        ck.require(bool(inside), 'R03.3', f, 'while ' + A.unparse(w.test),
                   'the forced-completion flag is reset inside the loop',
                   'force_complete is never reset: update() would not '
                   'terminate', w)
        for d in inside:
            is_false = isinstance(d.value, ast.Constant) and \
                d.value.value is False
            node = cfg.node(d.stmt)
            g = cfg.guards(node)
            wg = cfg.guards(cfg.node(w.body[0])) if w.body else set()
            extra = g - wg
            at_end = bool(extra & {
                ('==', END, 'self.global_time'),
                ('<=', END, 'self.global_time')})
            others = {a for a in extra if a not in (
                ('==', END, 'self.global_time'),
                ('<=', END, 'self.global_time'),
                ('truthy', flag))}
            ck.require(is_false and at_end and not others, 'R03.3', f,
                       d.stmt,
                       'the flag is cleared exactly under global_time == '
                       'end_time',
                       'force_complete is reset under a condition that is '
                       'not "the clock reached end_time" (guards: %s)'
                       % sorted(extra), d.stmt)
            # it must be reached at the end of every iteration
            hdr = cfg.loops[id(w)]['header']
            test_node = None
            p = d.stmt
            while p is not None and getattr(p, '_parent', None) is not w:
                p = getattr(p, '_parent', None)
            ok = p is not None and p is w.body[-1]
            ck.require(ok, 'R03.3', f, d.stmt,
                       'the reset is the last thing in the iteration (no '
                       'advance can follow it)',
                       'statements follow the force_complete reset inside '
                       'the loop', d.stmt)


def r03_4(ck, sa):
    ck.rule('R03.4', 'rounding coverage: future and emit_time, manufactured '
            'by addition, pass through round(., global_time_precision) on '
            'the guarded path before their first use')
    rf = sa.rf
    f = rf.fi
    cfg = rf.cfg
    defs = local_defs(f.node)
    # rounding happens only when a precision is set: round(x, None) rounds
    # to whole numbers and would destroy fractional timesteps
    for c in A.calls_in(f.node, 'round'):
        if len(c.args) == 2 and 'global_time_precision' in A.unparse(
                c.args[1]):
            g = cfg.guards(cfg.node(c))
            ck.require(('isnot', 'self.global_time_precision', 'None') in g,
                       'R03.4', f, c,
                       'times are rounded only when a precision is set',
                       'a time is rounded to global_time_precision also '
                       'when none is set: round(x, None) gives a whole '
                       'number, so fractional timesteps collapse onto the '
                       'integers', c)
    # variables: the name stored as due time, and the emit clock
    names = set()
    for (stmt, tgt, val, ek) in rf.front.slot_writes('time'):
        if isinstance(val, ast.Name) and val.id in defs:
            names.add(val.id)
    for n in A.walk_no_nested(f.node):
        if isinstance(n, ast.Compare):
            for side in [n.left] + n.comparators:
                if isinstance(side, ast.Name) and side.id in rf.emit_names:
                    names.add(side.id)
    # the end of the interval is itself computed by addition and becomes
    # the clock when the interval is over
    if rf.end_name in defs:
        names.add(rf.end_name)
    # the clock itself: locals assigned to self.global_time
    for a in rf.advance_stmts():
        if isinstance(a, ast.Assign) and isinstance(a.value, ast.Name) and \
                a.value.id in defs and a.value.id != rf.end_name:
            names.add(a.value.id)
        manufactured = isinstance(a, ast.AugAssign) or (
            isinstance(a, ast.Assign) and any(
                isinstance(x, ast.BinOp) and isinstance(
                    x.op, (ast.Add, ast.Sub)) for x in ast.walk(a.value)))
        if manufactured:
            # g + (f - g) is not always f in floating point
            an = cfg.node(a)
            rounds = set()
            for s2 in A.walk_no_nested(f.node):
                if isinstance(s2, ast.Assign) and any(
                        A.is_self_attr(t, 'global_time')
                        for t in s2.targets) and isinstance(
                        s2.value, ast.Call) and A.call_name(
                        s2.value) == 'round' and 'global_time' in \
                        A.unparse(s2.value.args[0]):
                    rounds.add(cfg.node(s2))
            skip = set()
            for nn, info in cfg.info.items():
                if info['kind'] == 'edge' and info.get('cond') is not None:
                    at = A.cond_atoms(info['cond'], info['pol'])
                    if ('is', 'self.global_time_precision', 'None') in at:
                        skip.add(nn)
            hdr = cfg.loops[id(rf.while_loop)]['header']
            succ = set(cfg.g.successors(an))
            ok = bool(rounds) and all(
                x in rounds or x in skip or cfg.must_pass(
                    x, {hdr, cfg.exit}, rounds | skip) for x in succ)
            ck.require(ok, 'R03.4', f, a,
                       'a clock value manufactured by addition is rounded '
                       '(when a precision is set) before anything uses it',
                       'global_time is advanced by an addition and not put '
                       'back on the grid: g + (f - g) can differ from f by '
                       'one ulp, the clock passes an event due exactly at '
                       'the end and its update is never applied', a)
    n_sites = 0
    for name in sorted(names):
        for d in defs.get(name, []):
            manufactured = False
            if d.kind == 'aug':
                manufactured = True
            elif d.value is not None and any(
                    isinstance(x, ast.BinOp) and isinstance(
                        x.op, (ast.Add, ast.Sub)) for x in ast.walk(d.value)):
                manufactured = not (isinstance(d.value, ast.Call) and
                                    A.call_name(d.value) == 'round')
            if not manufactured:
                continue
            n_sites += 1
            dn = cfg.node(d.stmt)
            if dn is None:
                continue
            # rounding statements for this name
            rounds = set()
            for d2 in defs.get(name, []):
                v = d2.value
                if isinstance(v, ast.Call) and A.call_name(v) == 'round' \
                        and len(v.args) == 2 and A.is_name(
                            v.args[0], name) and A.unparse(
                            v.args[1]) == 'self.global_time_precision':
                    rn = cfg.node(d2.stmt)
                    if rn is not None:
                        rounds.add(rn)
            skip = set()
            for nn, info in cfg.info.items():
                if info['kind'] == 'edge' and info.get('cond') is not None:
                    at = A.cond_atoms(info['cond'], info['pol'])
                    if ('is', 'self.global_time_precision', 'None') in at:
                        skip.add(nn)
            # uses of the name other than in the rounding statement
            uses = set()
            for n in A.walk_no_nested(f.node):
                if isinstance(n, ast.Name) and n.id == name and isinstance(
                        n.ctx, ast.Load):
                    un = cfg.node(n)
                    if un is None or un in rounds or un == dn:
                        continue
                    ust0 = cfg.info[un]['stmt']
                    if isinstance(ust0, (ast.Assign, ast.AugAssign)) and \
                            cfg.info[un]['kind'] == 'stmt' and any(
                                A.is_name(t, name)
                                for t in A.assigned_targets(ust0)):
                        continue    # re-manufactured from itself
                    # a test that only decides whether the value is
                    # re-manufactured in its own body is not a use
                    ust = cfg.info[un]['stmt']
                    if cfg.info[un]['kind'] == 'test' and isinstance(
                            ust, ast.If) and any(
                            isinstance(x, (ast.Assign, ast.AugAssign))
                            and any(A.is_name(t, name)
                                    for t in A.assigned_targets(x))
                            for b in ust.body for x in ast.walk(b)):
                        continue
                    if any(dd.stmt is d.stmt
                           for dd in reaching(f.node).at(n, name)):
                        uses.add(un)
            ok = bool(rounds) and cfg.must_pass(dn, uses, rounds | skip)
            if name == rf.end_name:
                # named by its role; see DESIGN.md (known finding): the
                # property also wants the end to be start + interval
                # exactly, so rounding it is not the repair
                ck.require(ok, 'R03.4', f,
                           'end of the interval (global_time + interval) '
                           'used as computed',
                           'the end of the interval is on the time grid '
                           'when start and interval are',
                           'the end of the interval is the float sum '
                           'global_time + interval, which can miss the '
                           'grid for operands on it (0.1 + 0.2): forced '
                           'completion then hands the process the '
                           'remainder 5.6e-17, whose end rounds back to a '
                           'time that already has a row', d.stmt)
                continue
            ck.require(ok, 'R03.4', f, d.stmt,
                       'value manufactured by addition is rounded (when a '
                       'precision is set) before its first use',
                       '%s is used unrounded although global_time_precision '
                       'is set: event times leave the grid' % name, d.stmt)
    ck.floor('R03.4', n_sites, 3, 'manufactured time values')


def r03_5(ck, sa):
    ck.rule('R03.5', 'no entry starts behind the clock: every front entry '
            'is created at the current global time, and the clock is '
            'initialised before the initial front (shared with C01 R01.6)')
    from . import c01
    c01.r01_6(ck, sa.rf)
    for o in ck.obligations:
        if o['rule'] == 'R01.6':
            o['rule'] = 'R03.5'
    for v in ck.violations:
        if v.rule == 'R01.6':
            v.rule = 'R03.5'
    ck.rules.pop('R01.6', None)
