"""C11 - division gives daughters what the dividers promise; daughters are
independent."""

import ast

from .. import astutil as A
from ..cfg import cfg_of, within
from ..dataflow import derives, local_defs, reaching, resolve_local
from .c08 import registrations, _returns

EXPL = (
    'Divider registration table; algebraic conservation of the built-in '
    'dividers as symbolic return forms (binomial returns [a, state - a]; '
    'the int branch of split returns a permutation of [h + r, h] with '
    'r = state % 2 and h = state // 2 (floor division, exact for all ints); '
    'the float branch [state/2, state/2]; split_dict two complementary '
    'slices of one item list; zero two zeros; set_value the configured '
    'value twice; set the state twice); per-daughter deep copies of the '
    "mother's processes/topology/flow inside the daughters loop; a "
    'branch-level divider is applied to the whole subtree before any '
    'recursion; a child division is kept unless the divider returned None '
    '(never a truthiness test on divided values); the explicit daughter '
    'state is merged over the divided state and then installed. Not '
    'decided: independence of mutable values (divide_set documents that it '
    'does not copy), randomised outcomes.')

DIVIDERS = {
    'binomial': 'divide_binomial', 'set': 'divide_set',
    'split': 'divide_split', 'split_dict': 'divide_split_dict',
    'zero': 'divide_zero', 'no_divide': 'assert_no_divide',
    'set_value': 'divide_set_value', 'null': 'divide_null'}


def check(ck):
    ck.explanation = EXPL
    ck.technique = ('registration-table agreement, symbolic return forms, '
                    'slice-complement rule, loop placement of deep copies, '
                    'argument provenance, truthiness-taint on division '
                    'results')
    r11_1(ck)
    r11_2(ck)
    r11_3(ck)
    r11_4(ck)
    r11_5_6(ck)
    r11_7(ck)
    r11_8(ck)
    from . import helpers as H
    ck.rule('R11.9', 'deep_merge, with which the divided state and the '
            "daughter's explicit initial state are combined, keeps its "
            'recursion skeleton: it recurses into (also empty) nested '
            'dictionaries of the target instead of re-binding them to the '
            'dictionaries of the argument, so the two daughters never share '
            'an object of the initial-state template')
    H.deep_merge_shape(ck, 'R11.9')


def r11_1(ck):
    ck.rule('R11.1', 'divider table: the eight public names are registered '
            'to the intended functions; _get_divider defaults to null for '
            'nodes with a topology and set otherwise')
    init, regs = registrations(ck, 'divider_registry')

    class _F:
        qual = 'vivarium/__init__.py'
        file = init.file
        lineno = 1
    for name, fn in sorted(DIVIDERS.items()):
        got = regs.get(name, [])
        ok = len(got) == 1 and A.is_name(got[0][0], fn)
        ck.require(ok, 'R11.1', _F, "register('%s', ...)" % name,
                   "divider '%s' is registered to %s" % (name, fn),
                   "divider '%s' is registered to %s" % (
                       name, ', '.join(A.unparse(g[0]) for g in got)
                       or 'nothing'), got[0][1] if got else None)
        ck.fn(fn, 'core.registry')
    gd = ck.fn('Store._get_divider', 'core.store')
    cfg = cfg_of(gd.node)
    seen = {}
    for r in _returns(gd):
        g = cfg.guards(cfg.node(r))
        v = r.value
        if isinstance(v, ast.Call) and A.call_name(v) == 'access' and \
                v.args and isinstance(v.args[0], ast.Constant):
            if not any(a[0] == '==' and 'DEFAULT_SCHEMA' in a[1:]
                       for a in g):
                ck.fail('R11.1', gd, r, 'default divider returned without '
                        'the default-marker test', r)
            topo = ('truthy', 'self.topology') in g
            seen['process' if topo else 'variable'] = (v.args[0].value, r)
    ck.require(seen.get('process', (None,))[0] == 'null', 'R11.1', gd,
               seen.get('process', (None, gd.node.name))[1],
               'nodes holding a process default to the null divider',
               'process nodes no longer default to the null divider (%s)'
               % (seen.get('process', ('missing',))[0],))
    ck.require(seen.get('variable', (None,))[0] == 'set', 'R11.1', gd,
               seen.get('variable', (None, gd.node.name))[1],
               'variables default to the set divider',
               'variables no longer default to the set divider (%s)'
               % (seen.get('variable', ('missing',))[0],))
    ok = any(A.unparse(r.value) == 'self.divider' for r in _returns(gd))
    ck.require(ok, 'R11.1', gd, gd.node.name,
               'a declared divider is returned as is', None)
    # ... whatever the node holds: the choice depends on the declaration
    # (and, for the default, on whether the node carries a process) only
    for r in _returns(gd):
        g = cfg.guards(cfg.node(r))
        other = [a for a in g if not any(
            t in ' '.join(str(x) for x in a[1:])
            for t in ('self.divider', 'DEFAULT_SCHEMA', 'self.topology'))]
        none = r.value is None or (isinstance(r.value, ast.Constant)
                                   and r.value.value is None)
        ck.require(not other and not none, 'R11.1', gd, r,
                   'the divider depends on the declaration only',
                   '_get_divider answers %s under %s: a divider declared '
                   'on such a node (a branch-level split_dict, a custom '
                   'divider) is ignored and its children are divided one '
                   'by one' % (A.unparse(r.value) if r.value is not None
                               else 'None', sorted(other)), r)


def _list_ret(r, f):
    v = r.value
    if isinstance(v, ast.List):
        return [resolve_local(f.node, e, r) for e in v.elts], v.elts
    return None, None


def r11_2(ck):
    ck.rule('R11.2', 'conservation forms of the built-in dividers')
    # set
    f = ck.fn('divide_set', 'core.registry')
    p = A.params_of(f.node)
    for r in _returns(f):
        el, raw = _list_ret(r, f)
        ok = el is not None and len(el) == 2 and all(
            A.is_name(e, p[0]) for e in el)
        ck.require(ok, 'R11.2', f, r, 'set gives each daughter the state',
                   'divide_set returns %s' % A.unparse(r.value), r)
    # set_value
    f = ck.fn('divide_set_value', 'core.registry')
    for r in _returns(f):
        el, raw = _list_ret(r, f)
        ok = el is not None and len(el) == 2 and A.same(el[0], el[1]) and \
            "config['value']" in A.unparse(el[0]).replace('"', "'")
        ck.require(ok, 'R11.2', f, r,
                   'set_value gives each daughter the configured value',
                   'divide_set_value returns %s' % A.unparse(r.value), r)
    # zero
    f = ck.fn('divide_zero', 'core.registry')
    for r in _returns(f):
        el, raw = _list_ret(r, f)
        ok = el is not None and len(el) == 2 and all(
            isinstance(e, ast.Constant) and e.value == 0 and
            e.value is not False for e in el)
        ck.require(ok, 'R11.2', f, r, 'zero gives two zeros',
                   'divide_zero returns %s' % A.unparse(r.value), r)
    # null
    f = ck.fn('divide_null', 'core.registry')
    for r in _returns(f):
        ok = r.value is None or (isinstance(r.value, ast.Constant) and
                                 r.value.value is None)
        ck.require(ok, 'R11.2', f, r, 'null returns None (variable skipped)',
                   'divide_null returns %s' % A.unparse(r.value), r)
    # binomial
    f = ck.fn('divide_binomial', 'core.registry')
    p = A.params_of(f.node)
    for r in _returns(f):
        v = r.value
        ok = isinstance(v, ast.List) and len(v.elts) == 2
        if ok:
            a, b = v.elts
            bdef = resolve_local(f.node, b, r)
            adef = resolve_local(f.node, a, r)
            ok = isinstance(bdef, ast.BinOp) and isinstance(
                bdef.op, ast.Sub) and A.is_name(bdef.left, p[0]) and \
                A.same(bdef.right, a) and isinstance(adef, ast.Call) and \
                'binomial' in A.unparse(adef.func) and A.is_name(
                    adef.args[0], p[0])
        ck.require(ok, 'R11.2', f, r,
                   'binomial returns [a, state - a] with a drawn from '
                   'binomial(state, .)',
                   'divide_binomial does not return [a, state - a]: the '
                   'total is not conserved', r)
    # split
    f = ck.fn('divide_split', 'core.registry')
    p = A.params_of(f.node)[0]
    cfg = cfg_of(f.node)
    n_int = n_float = 0
    for r in _returns(f):
        g = cfg.guards(cfg.node(r))
        el, raw = _list_ret(r, f)
        is_int = any(a[0] == 'isinstance' and a[1] == p and 'int' in a[2]
                     for a in g)
        is_float = any(a[0] == 'isinstance' and a[1] == p and 'float' in
                       a[2] for a in g)
        if is_int:
            n_int += 1
            ok = raw is not None and len(raw) == 2
            if ok:
                # one element is h, the other h + r
                forms = []
                for e in raw:
                    forms.append(e)
                names = set()
                def _unfold(e):
                    # a local bound to `x + y` counts as the sum
                    if isinstance(e, ast.Name):
                        d = resolve_local(f.node, e, r)
                        if isinstance(d, ast.BinOp) and isinstance(
                                d.op, ast.Add):
                            return d
                    return e
                raw = [_unfold(e) for e in raw]
                hs = [e for e in raw if isinstance(e, ast.Name)]
                sums = [e for e in raw if isinstance(e, ast.BinOp) and
                        isinstance(e.op, ast.Add)]
                ok = len(hs) == 1 and len(sums) == 1
                if ok:
                    h = hs[0]
                    s = sums[0]
                    other = s.right if A.same(s.left, h) else (
                        s.left if A.same(s.right, h) else None)
                    ok = other is not None
                    if ok:
                        hd = resolve_local(f.node, h, r)
                        rd = resolve_local(f.node, other, r)
                        h_ok = isinstance(hd, ast.BinOp) and isinstance(
                            hd.op, ast.FloorDiv) and A.is_name(
                            hd.left, p) and isinstance(
                            hd.right, ast.Constant) and hd.right.value == 2
                        r_ok = isinstance(rd, ast.BinOp) and isinstance(
                            rd.op, ast.Mod) and A.is_name(
                            rd.left, p) and isinstance(
                            rd.right, ast.Constant) and rd.right.value == 2
                        if not h_ok:
                            ck.fail('R11.2', f, r,
                                    'the integer half is %s, not state // '
                                    '2: true division loses exactness above '
                                    '2**53 and rounds toward zero for '
                                    'negatives, so the halves do not sum to '
                                    'the mother' % A.unparse(hd), r,
                                    what='integer half by floor division')
                            continue
                        ok = r_ok
            ck.require(ok, 'R11.2', f, r,
                       'int split returns a permutation of [h + r, h], '
                       'h = state // 2, r = state % 2',
                       'the integer branch of divide_split does not return '
                       '[half + remainder, half]: %s' % A.unparse(r.value),
                       r)
        elif is_float:
            n_float += 1
            ok = el is not None and len(el) == 2 and A.same(el[0], el[1])
            if ok:
                e = el[0]
                ok = isinstance(e, ast.BinOp) and isinstance(
                    e.op, ast.Div) and A.is_name(e.left, p) and isinstance(
                    e.right, ast.Constant) and e.right.value == 2
            ck.require(ok, 'R11.2', f, r,
                       'float split returns [state/2, state/2]',
                       'the float branch of divide_split returns %s'
                       % A.unparse(r.value), r)
    ck.require(n_int == 2 and n_float >= 1, 'R11.2', f, f.node.name,
               'split has two int returns (remainder on either side) and a '
               'float return',
               'divide_split lost a branch (int returns: %d, float: %d)'
               % (n_int, n_float))
    # split_dict: slice complement
    f = ck.fn('divide_split_dict', 'core.registry')
    for r in _returns(f):
        el, raw = _list_ret(r, f)
        ok = el is not None and len(el) == 2
        slices = []
        if ok:
            for e in el:
                sub = [x for x in ast.walk(e) if isinstance(x, ast.Subscript)
                       and isinstance(x.slice, ast.Slice)]
                if len(sub) != 1:
                    ok = False
                    break
                slices.append(sub[0])
        if ok:
            s1, s2 = slices
            b1 = resolve_local(f.node, s1.value, r)
            base_ok = A.same(s1.value, s2.value) and 'items()' in \
                A.unparse(b1)
            lo = [s for s in slices if s.slice.lower is not None and
                  s.slice.upper is None]
            hi = [s for s in slices if s.slice.upper is not None and
                  s.slice.lower is None]
            ok = base_ok and len(lo) == 1 and len(hi) == 1 and A.same(
                lo[0].slice.lower, hi[0].slice.upper)
        ck.require(ok, 'R11.2', f, r,
                   'split_dict returns two complementary slices [e:] and '
                   '[:e] of one item list',
                   'the two halves of divide_split_dict are not '
                   'complementary slices: a key is lost or duplicated', r)


def r11_3(ck):
    ck.rule('R11.3', 'per-daughter instances: the deep copies of the '
            "mother's processes, topology and flow are made inside the "
            'daughters loop')
    f = ck.fn('Store.divide', 'core.store')
    from .roles import loops_over_field
    dl = loops_over_field(f.node, 'daughters')
    loop = dl[0] if dl else None
    ck.require(loop is not None, 'R11.3', f, f.node.name,
               'divide loops over the listed daughters', None)
    if loop is None:
        return
    gens = [c for c in A.calls_in(loop, 'generate')
            if A.is_name(A.call_receiver(c), 'self')]
    if not gens:
        ck.fail('R11.3', f, loop, 'no generate call in the daughters loop')
        return
    g = gens[0]
    n = 0
    for idx, nm, getter in ((1, 'processes', 'get_processes'),
                            (3, 'flow', 'get_flow'),
                            (4, 'topology', 'get_topology')):
        a = A.arg_of(g, idx, nm)
        if not isinstance(a, ast.Name):
            ck.fail('R11.3', f, g, '%s argument is not a local' % nm, g)
            continue
        for d in reaching(f.node).at(g, a.id):
            if d.value is None:
                continue
            from_mother = derives(f.node, d.value, lambda x: isinstance(
                x, ast.Call) and A.call_name(x) == getter, at=d.stmt)
            if not from_mother:
                continue
            n += 1
            copied = derives(f.node, d.value, lambda x: isinstance(
                x, ast.Call) and A.call_name(x) == 'deepcopy', at=d.stmt)
            inside = False
            if copied:
                # find the deepcopy statement and require it in the loop,
                # evaluated for every daughter that inherits: no guard on
                # anything that an earlier iteration may have set (a memo)
                cfg = cfg_of(f.node)
                dvar = A.unparse(loop.target.elts[0] if isinstance(
                    loop.target, ast.Tuple) else loop.target)
                for c in A.calls_in(f.node, 'deepcopy'):
                    if within(c, loop) and derives(
                            f.node, c, lambda x: isinstance(x, ast.Call)
                            and A.call_name(x) == getter, at=c):
                        extra = cfg.guards(cfg.node(c)) - cfg.guards(
                            cfg.loops[id(loop)]['body_entry'])
                        memo = [a2 for a2 in extra if dvar not in ' '.join(
                            str(x) for x in a2[1:])]
                        # a pre-seeded memo (second argument) makes the
                        # copies share whatever it lists
                        inside = not memo and len(c.args) == 1 and \
                            not c.keywords
            ck.require(copied and inside, 'R11.3', f, d.stmt,
                       "each daughter gets its own deep copy of the "
                       "mother's %s" % nm,
                       "daughters share the mother's %s objects (no "
                       'per-daughter deepcopy): what one daughter does '
                       'changes the other' % nm, d.stmt)
    ck.floor('R11.3', n, 3, 'inherited parts')


def r11_4(ck):
    ck.rule('R11.4', 'override order: deep_merge(divided, explicit) and the '
            'merged state is installed on the daughter after defaults')
    f = ck.fn('Store.divide', 'core.store')
    cfg = cfg_of(f.node)
    merges = [c for c in A.calls_in(f.node, 'deep_merge')]
    ok = False
    mstmt = None
    for c in merges:
        a0, a1 = A.arg_of(c, 0), A.arg_of(c, 1)
        first = derives(f.node, a0, lambda x: isinstance(x, ast.Call) and
                        A.call_name(x) == 'divide_value', at=c)
        second = 'initial_state' in A.unparse(a1)
        wrong = 'initial_state' in A.unparse(a0)
        if first and second and not wrong:
            ok = True
            mstmt = c
        elif wrong:
            mstmt = c
    ck.require(ok, 'R11.4', f, mstmt if mstmt is not None else f.node.name,
               "the explicit daughter state is merged over the divided "
               'state',
               'the divided state overrides the explicit initial_state of '
               'the daughter (deep_merge arguments swapped or missing)')
    if not ok:
        return
    st = mstmt
    while not isinstance(st, ast.stmt):
        st = st._parent
    merged = st.targets[0].id if isinstance(st, ast.Assign) and isinstance(
        st.targets[0], ast.Name) else None
    sets = [c for c in A.calls_in(f.node, 'set_value')
            if merged and A.is_name(A.arg_of(c, 0), merged)]
    ck.require(bool(sets), 'R11.4', f, st,
               'the merged state is installed with set_value',
               'the merged daughter state is never installed')
    for s in sets:
        dfl = [c for c in A.calls_in(f.node, 'apply_defaults')
               if A.same(A.call_receiver(c), A.call_receiver(s))]
        ok = bool(dfl) and cfg.dominates(cfg.node(dfl[0]), cfg.node(s))
        ck.require(ok, 'R11.4', f, s,
                   'defaults are applied to the daughter before the merged '
                   'state is installed (completed by schema defaults)',
                   None, s)
    # daughters zipped with the divided states in order
    from .roles import loops_over_field, spec_field
    for n in loops_over_field(f.node, 'daughters'):
        if True:
            ok = isinstance(n.iter, ast.Call) and A.call_name(n.iter) == \
                'zip' and len(n.iter.args) == 2
            ck.require(ok, 'R11.4', f, n,
                       'each listed daughter is paired with one divided '
                       'state', None, n)
            break
    dv = [c for c in A.calls_in(f.node, 'divide_value')]
    ok = bool(dv) and spec_field(f.node, A.call_receiver(dv[0]), 'mother',
                                 dv[0])
    ck.require(ok, 'R11.4', f, dv[0] if dv else f.node.name,
               "the state divided is the mother's subtree", None)


def r11_5_6(ck):
    ck.rule('R11.5', "branch-level dividers win: a node's own divider is "
            'applied to its whole subtree value and returned before any '
            'recursion into inner')
    ck.rule('R11.6', 'no value-dependent dropping: a child division is kept '
            'unless the divider returned None; the guard tests the result '
            'object, never the divided values')
    f = ck.fn('Store.divide_value', 'core.store')
    cfg = cfg_of(f.node)
    rec = [c for c in A.calls_in(f.node, 'divide_value')
           if not A.is_name(A.call_receiver(c), 'self')]
    ck.require(bool(rec), 'R11.5', f, f.node.name,
               'divide_value recurses into the children', None)
    dtest = None
    # the local that holds the node's own divider
    dn = 'divider'
    for nm, ds in local_defs(f.node).items():
        if any(isinstance(d.value, ast.Call) and A.call_name(d.value) ==
               '_get_divider' for d in ds):
            dn = nm
    for n in A.walk_no_nested(f.node):
        if isinstance(n, ast.If) and A.unparse(n.test) == dn and \
                n._parent is f.node:
            dtest = n
    ok = dtest is not None and isinstance(dtest.test, ast.Name)
    ck.require(ok, 'R11.5', f, dtest if dtest is not None else f.node.name,
               'the own-divider test is `if divider:` and nothing else',
               'the own divider of a node is only honoured under an extra '
               'condition: a branch-level divider would be ignored for '
               'nodes with children')
    if dtest is not None:
        # every path through the true branch returns
        body_nodes = [cfg.node(s) for s in dtest.body]
        t_edge = [x for x in cfg.g.successors(cfg.node(dtest))
                  if cfg.info[x].get('pol') is True]
        for r in rec:
            ok = t_edge and not cfg.reach_without(t_edge[0], cfg.node(r),
                                                  set())
            ck.require(ok, 'R11.5', f, r,
                       'recursion is unreachable once the node has its own '
                       'divider', 'a node with its own divider still '
                       'recurses into its children', r)
        for r in _returns(f):
            if within(r, dtest) and any(r is b or within(r, b)
                                        for b in dtest.body):
                v = r.value
                ok = isinstance(v, ast.Call) and A.is_name(
                    v.func, dn) and A.unparse(
                    A.arg_of(v, 0)) == 'self.get_value()'
                ck.require(ok, 'R11.5', f, r,
                           'the divider is applied to the whole subtree '
                           'value', 'the own divider is not applied to '
                           'self.get_value()', r)
        gd = [d for d in local_defs(f.node).get(dn, [])]
        ok = bool(gd) and isinstance(gd[0].value, ast.Call) and A.call_name(
            gd[0].value) == '_get_divider'
        ck.require(ok, 'R11.5', f, gd[0].stmt if gd else 'divider',
                   'the divider consulted is self._get_divider()', None)
    for r in rec:
        st = r
        while not isinstance(st, ast.stmt):
            st = st._parent
        if not (isinstance(st, ast.Assign) and isinstance(
                st.targets[0], ast.Name)):
            continue
        nm = st.targets[0].id
        stores = [s for s in A.walk_no_nested(f.node)
                  if isinstance(s, ast.Assign) and isinstance(
                      s.targets[0], ast.Subscript) and derives(
                      f.node, s.value, lambda x: A.is_name(x, nm), at=s)]
        # the division result and everything taken out of it
        tainted = {nm}
        for lp in A.walk_no_nested(f.node):
            if isinstance(lp, ast.For) and derives(
                    f.node, lp.iter, lambda x: A.is_name(x, nm), at=lp):
                tainted |= {y.id for y in ast.walk(lp.target)
                            if isinstance(y, ast.Name)}
        import re as _re
        for s in stores:
            g = cfg.guards(cfg.node(s))
            extra = set()
            for a in g:
                txt = ' '.join(str(x) for x in a[1:])
                if any(_re.search(r'\b%s\b' % _re.escape(t), txt)
                       for t in tainted):
                    extra.add(a)
            ok = extra <= {('truthy', nm), ('isnot', nm, 'None')}
            ck.require(ok, 'R11.6', f, s,
                       "a child's shares are stored unless the divider "
                       'returned None',
                       "a child's division is dropped depending on the "
                       'divided values (%s): a daughter loses a variable '
                       'whose share is 0, False or empty' % sorted(
                           extra - {('truthy', nm),
                                    ('isnot', nm, 'None')}), s)
        ck.require(bool(stores), 'R11.6', f, st,
                   "each child's shares are stored under its key", None, st)


def r11_7(ck):
    """Daughters stay independent under later updates (shared with C08)."""
    from . import c08
    c08.r08_8(ck, rule='R11.7')


from .c07 import _PV  # noqa: E402


def r11_8(ck):
    ck.rule('R11.8', 'a divider that declares a topology is given the '
            'values at the paths it names, resolved from the divided node: '
            'in Store.topology_state every get_path / outer_path on a '
            'topology path is called on self; divide_value hands the '
            'divider the result as `state` and the config as `config`')
    f = ck.fn('Store.topology_state', 'core.store')
    n = 0
    for c in A.calls_in(f.node, ('get_path', 'outer_path')):
        a0 = A.arg_of(c, 0)
        if a0 is None or _PV(f) not in A.names_in(a0):
            continue
        n += 1
        ck.require(A.is_name(A.call_receiver(c), 'self'), 'R11.8', f, c,
                   'the path is resolved from the divided node (self)',
                   'a divider topology path is resolved from `%s`, which '
                   'earlier entries may have re-bound: the divider is given '
                   'values from the wrong place' % A.unparse(
                       A.call_receiver(c)), c)
    ck.floor('R11.8', n, 3, 'path resolutions in topology_state')
    dv = ck.fn('Store.divide_value', 'core.store')
    from ..dataflow import dict_entries, expand
    from ..loader import enclosing_stmt
    ok = False
    for c in A.calls_in(dv.node):
        if not (isinstance(c.func, ast.Name) and any(
                isinstance(d.value, ast.Call) and A.call_name(d.value) ==
                '_get_divider'
                for d in local_defs(dv.node).get(c.func.id, []))):
            continue
        a0 = A.arg_of(c, 0)
        a0 = expand(dv.node, a0, enclosing_stmt(c)) if a0 is not None \
            else None
        if a0 is None or A.unparse(a0) != 'self.get_value()':
            ok = False
            break
        entries = [(k.arg, k.value, c) for k in c.keywords if k.arg]
        for k in c.keywords:
            if k.arg is None:
                e = k.value
                if isinstance(e, ast.Name):
                    entries += dict_entries(dv.node, e.id)
                elif isinstance(e, ast.Dict):
                    entries += [(kk.value if isinstance(kk, ast.Constant)
                                 else None, vv, c)
                                for kk, vv in zip(e.keys, e.values)]
        if not entries:
            continue        # the plain divider(value) call
        st = [expand(dv.node, v, enclosing_stmt(s2))
              for k, v, s2 in entries if k == 'state']
        cf = [expand(dv.node, v, enclosing_stmt(s2))
              for k, v, s2 in entries if k == 'config']
        ok = bool(st) and all(
            isinstance(v, ast.Call) and A.call_name(v) == 'topology_state'
            and A.is_name(A.call_receiver(v), 'self')
            and "['topology']" in A.unparse(v.args[0] if v.args else v)
            for v in st) and bool(cf) and all(
            "['config']" in A.unparse(v) for v in cf) and {
                k for k, _v, _s in entries} <= {'state', 'config'}
    ck.require(ok, 'R11.8', dv, dv.node.name,
               'divide_value passes state=topology_state(topology) and '
               'config=config to the divider', None)
