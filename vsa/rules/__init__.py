"""Rule registry: property id -> check function."""

import importlib

RULES = {}

for _pid in ('c01', 'c02', 'c03', 'c04', 'c05', 'c06', 'c07', 'c08', 'c09',
             'c10', 'c11', 'c12', 'c13', 'c14', 'c15', 'c16', 'c17', 'c18',
             'c19'):
    try:
        _m = importlib.import_module('.' + _pid, __name__)
    except ModuleNotFoundError as _e:
        if _e.name and _e.name.endswith(_pid):
            continue
        raise
    RULES[_pid.upper()] = _m.check
