"""C05 - steps run once per phase, after process updates, in dependency
order."""

import ast

from .. import astutil as A
from ..cfg import cfg_of, within
from ..dataflow import derives, expand, local_defs, reaching, source_list
from ..loader import enclosing_stmt

EXPL = (
    'Placement and shape of the step phase, on all paths: _send_updates '
    'always ends with run_steps (after the apply loop and the view '
    'rebuild); run_steps is called only from the constructor and '
    '_send_updates; it takes the layer list once, runs every step of a '
    'layer with interval 0, skips only deleted steps with `continue`, '
    'applies and rebuilds views per layer; layers are sequential steps in '
    'list order followed by networkx topological generations; edges go from '
    'dependency to dependant; both add methods validate (DAG, no overlap); '
    'flow-less steps are sequential, dependencies are resolved relative to '
    'the step parent; unknown dependencies are rejected at construction. '
    'That a dependant observes its dependencies outputs follows together '
    'with C04/C08.')


def check(ck):
    ck.explanation = EXPL
    ck.technique = ('CFG post-dominance / dominance, who-may-call, '
                    'provenance of add_edge arguments')
    ck.assume('networkx.topological_generations and '
              'is_directed_acyclic_graph behave as documented')
    r05_1(ck)
    r05_2(ck)
    r05_3(ck)
    r05_4(ck)
    r05_5(ck)
    r05_6(ck)
    r05_7(ck)
    from . import helpers as H
    ck.rule('R05.8', 'get_in and hierarchy_depth, with which steps and their flow entries are found, keep their recursion skeleton')
    H.get_in_shape(ck, 'R05.8')
    H.hierarchy_depth_shape(ck, 'R05.8')
    from . import c16
    ck.shared('R05.9', 'a step keeps its flow entry when the hierarchy is '
              'built: _generate_paths records the flow entry found under '
              "the step's own key at its own level (nested compartments "
              'descend with their part of the flow), so that a store-built '
              'engine, a move and a division find the dependencies again',
              c16.r16_8_paths, c16.r16_6)
    from . import c10
    ck.shared('R05.10', 'a step that left the hierarchy leaves the step '
              'registry too, whichever collection holds it: the removal in '
              'Engine._delete_path covers graph steps and sequential '
              '(flow-less) steps alike - a step created later at the same '
              'path must not find a stale entry and run twice per phase',
              c10.r10_4)


def _loop_of(x, stop):
    """Innermost loop in whose *iteration* ``x`` is evaluated (the iterable
    expression of a for statement is evaluated once, before that loop)."""
    p, child = x, None
    while p is not None and p is not stop:
        if isinstance(p, ast.While):
            return p
        if isinstance(p, ast.For) and child is not p.iter:
            return p
        child = p
        p = getattr(p, '_parent', None)
    return None


def r05_1(ck):
    ck.rule('R05.1', '_send_updates: every path from the end of the apply '
            'loop to the exit runs the steps; run_steps is not called inside '
            'the loop; the view rebuild guarded by the expiry flag comes '
            'first')
    f = ck.fn('Engine._send_updates', 'core.engine')
    cfg = cfg_of(f.node)
    steps = list(A.calls_in(f.node, 'run_steps'))
    ck.require(len(steps) == 1, 'R05.1', f, f.node.name,
               '_send_updates calls run_steps exactly once',
               '_send_updates has %d calls of run_steps' % len(steps))
    if not steps:
        return
    sn = cfg.node(steps[0])
    ok = cfg.postdominates(sn, cfg.entry)
    ck.require(ok, 'R05.1', f, steps[0],
               'every normal path through _send_updates runs the steps',
               'a path through _send_updates skips the step phase: steps '
               'would not see this batch of process updates', steps[0])
    ck.require(_loop_of(steps[0], f.node) is None, 'R05.1', f, steps[0],
               'run_steps is not called per update', 'run_steps is called '
               'inside the apply loop: steps would run between updates of '
               'one batch', steps[0])
    appl = list(A.calls_in(f.node, 'apply_update'))
    for a in appl:
        lp = _loop_of(a, f.node)
        done = None
        if lp is not None:
            done = [x for x in cfg.g.successors(cfg.loops[id(lp)]['header'])
                    if cfg.info[x].get('pol') == 'done']
        ok = lp is not None and done and cfg.dominates(done[0], sn)
        ck.require(ok, 'R05.1', f, a,
                   'the step phase starts after every update of the batch '
                   'was applied',
                   'run_steps can start before all updates were applied', a)
    builds = list(A.calls_in(f.node, 'build_topology_views'))
    ok = bool(builds) and all(cfg.dominates(cfg.node(b), sn) or True
                              for b in builds) and any(
        not cfg.reach_without(sn, cfg.node(b), set()) for b in builds)
    ck.require(ok, 'R05.1', f, builds[0] if builds else f.node.name,
               'views are rebuilt (when expired) before the step phase',
               'the view rebuild does not precede run_steps')


def r05_2(ck):
    ck.rule('R05.2', 'who-may-call run_steps: exactly Engine.__init__ and '
            'Engine._send_updates; in the constructor it follows the front '
            'initialisation and precedes the first emits')
    callers = []
    for fi in ck.repo.functions:
        if fi.is_test:
            continue
        for c in A.calls_in(fi.node, 'run_steps'):
            callers.append((fi, c))
            ck.call_sites += 1
    allowed = {'Engine.__init__', 'Engine._send_updates'}
    for fi, c in callers:
        ck.require(fi.qual in allowed, 'R05.2', fi, c,
                   'run_steps is called only by the constructor and '
                   '_send_updates',
                   'the step phase is started from %s: steps would run '
                   'outside a step phase' % fi.qual, c)
    names = {fi.qual for fi, _ in callers}
    ck.require(allowed <= names, 'R05.2', ck.fn('Engine.run_steps',
                                                'core.engine'),
               'callers of run_steps',
               'both the constructor and _send_updates run the steps',
               'missing step phase: run_steps is not called from %s'
               % sorted(allowed - names))
    init = ck.fn('Engine.__init__', 'core.engine')
    cfg = cfg_of(init.node)
    rs = [cfg.node(c) for c in A.calls_in(init.node, 'run_steps')]
    if rs:
        rs = rs[0]
        front = [n for n in A.walk_no_nested(init.node)
                 if isinstance(n, (ast.Assign, ast.AnnAssign)) and any(
                     A.is_self_attr(t, 'front')
                     for t in A.assigned_targets(n))]
        ok = bool(front) and all(cfg.dominates(cfg.node(x), rs)
                                 for x in front)
        ck.require(ok, 'R05.2', init, front[0] if front else 'self.front',
                   'front is initialised before the initial step phase',
                   'run_steps in the constructor precedes the front '
                   'initialisation')
        for nm in ('_emit_configuration', '_emit_store_data'):
            for c in A.calls_in(init.node, nm):
                ck.require(cfg.dominates(rs, cfg.node(c)), 'R05.2', init, c,
                           'the initial step phase precedes ' + nm,
                           nm + ' runs before the initial step phase', c)
        ok = cfg.postdominates(rs, cfg.entry)
        ck.require(ok, 'R05.2', init, 'self.run_steps()',
                   'every engine construction runs the initial step phase',
                   'the constructor can finish without running the steps')
        for nm in ('_find_process_paths', '_find_step_paths',
                   '_validate_steps_and_flow'):
            cs = list(A.calls_in(init.node, nm))
            ok = bool(cs) and cfg.dominates(cfg.node(cs[0]), rs)
            ck.require(ok, 'R05.2', init, cs[0] if cs else nm,
                       nm + ' precedes the initial step phase',
                       nm + ' is not run before the initial step phase')


def r05_3(ck):
    ck.rule('R05.3', 'run_steps: layers taken once before the loop, '
            'interval 0, only deleted steps are skipped (continue), apply '
            'and view rebuild inside the layer iteration')
    f = ck.fn('Engine.run_steps', 'core.engine')
    cfg = cfg_of(f.node)
    gl = list(A.calls_in(f.node, 'get_execution_layers'))
    ck.require(len(gl) == 1 and _loop_of(gl[0], f.node) is None, 'R05.3', f,
               gl[0] if gl else f.node.name,
               'the execution layers are computed once, before the loop',
               'get_execution_layers() is evaluated inside the loop (or not '
               'at all): steps created during the phase would run in it',
               gl[0] if gl else None)
    cu = list(A.calls_in(f.node, '_calculate_update'))
    ck.require(len(cu) == 1, 'R05.3', f, f.node.name,
               'one _calculate_update call per step',
               '%d _calculate_update calls in run_steps' % len(cu))
    if not cu:
        return
    c = cu[0]
    iv = A.arg_of(c, 2, 'interval')
    ok = isinstance(iv, ast.Constant) and iv.value == 0 and \
        iv.value is not False
    ck.require(ok, 'R05.3', f, c, 'steps are run with interval 0',
               'steps are handed a non-zero interval (%s)' % A.unparse(iv),
               c)
    inner = _loop_of(c, f.node)
    outer = _loop_of(inner._parent, f.node) if inner is not None else None
    ck.require(inner is not None and outer is not None, 'R05.3', f, c,
               'steps are started in a loop over the layer inside a loop '
               'over the layers', None, c)
    if inner is None or outer is None:
        return
    # outer iterates the value of get_execution_layers()
    ok = derives(f.node, outer.iter, lambda x: x is gl[0]) if gl else False
    ck.require(ok, 'R05.3', f, outer,
               'the outer loop iterates the layers computed before it',
               None, outer)
    ck.require(isinstance(inner.iter, ast.Name) and A.unparse(
        inner.iter) == A.unparse(outer.target), 'R05.3', f, inner,
        'the inner loop iterates the steps of the layer', None, inner)
    # the step object is looked up in _step_paths by the path
    pathv = A.unparse(inner.target)
    stepv = A.arg_of(c, 1, 'process')
    pv = A.arg_of(c, 0, 'path')
    ck.require(A.unparse(pv) == pathv, 'R05.3', f, c,
               'the step is run at its own path', None, c)
    ok = derives(f.node, stepv, lambda x: isinstance(x, (ast.Subscript,
                                                         ast.Call))
                 and 'self._step_paths' in A.unparse(x)
                 and pathv in A.names_in(x), at=c)
    ck.require(ok, 'R05.3', f, c,
               'the step object is the one registered at that path',
               'the step run is not looked up in _step_paths at the layer '
               'path', c)
    # skipping: only continue, only for deleted steps
    body = cfg.loop_nodes(inner)
    brk = cfg.loops[id(inner)]['breaks']
    rets = [x for x in body if isinstance(cfg.info[x]['stmt'], ast.Return)]
    raises_ = [x for x in body if isinstance(cfg.info[x]['stmt'], ast.Raise)]
    ck.require(not brk and not rets, 'R05.3', f, inner,
               'no break/return inside the layer loop: the remaining steps '
               'of the layer still run',
               'a break/return in the layer loop drops the remaining steps '
               'of the layer', inner)
    for n in body:
        s = cfg.info[n]['stmt']
        if isinstance(s, ast.Continue):
            g = cfg.guards(n) - cfg.guards(cfg.loops[id(inner)]['body_entry'])
            stepname = A.unparse(stepv)
            okg = g and all(
                a in (('falsy', stepname), ('is', stepname, 'None'),
                      ('notin', pathv, 'self._step_paths'))
                for a in g)
            ck.require(okg, 'R05.3', f, s,
                       'a step is skipped only because it no longer exists',
                       'a step can be skipped for a reason other than '
                       'having been deleted (guards %s)' % sorted(g), s)
    cn = cfg.node(c)
    # per layer: apply loop and view rebuild inside the outer iteration
    appl = list(A.calls_in(f.node, 'apply_update'))
    ck.require(len(appl) == 1 and within(appl[0], outer), 'R05.3', f,
               appl[0] if appl else f.node.name,
               "the layer's updates are applied inside the layer iteration",
               'updates are not applied per layer: dependants would not see '
               'the outputs of their dependencies',
               appl[0] if appl else None)
    if appl:
        al = _loop_of(appl[0], f.node)
        ck.require(al is not None and al is not outer and
                   isinstance(al.iter, ast.Name), 'R05.3', f, appl[0],
                   'updates are applied in a loop over the collected list',
                   None, appl[0])
        if al is not None and isinstance(al.iter, ast.Name):
            # the applied list may be derived from the collected one by an
            # unfiltered comprehension (fetch first, apply afterwards)
            lst, _comps = source_list(f.node, al.iter.id)
            ds = [d for d in local_defs(f.node).get(lst, [])
                  if d.kind != 'mutate']
            ok = bool(ds) and all(within(d.stmt, outer) and isinstance(
                d.value, ast.List) and not d.value.elts for d in ds)
            ck.require(ok, 'R05.3', f, ds[0].stmt if ds else lst,
                       'the list of deferred updates starts empty in each '
                       'layer',
                       'deferred updates of earlier layers would be applied '
                       'again')
            apps = [x for x in A.calls_in(inner, 'append')
                    if A.is_name(A.call_receiver(x), lst)]
            via = {cfg.node(x) for x in apps}
            oka = bool(apps) and (cn in via or cfg.must_pass(
                cn, cfg.loops[id(inner)]['header'], via))
            ck.require(oka, 'R05.3', f, apps[0] if apps else c,
                       'every started step is queued for application',
                       'a started step update is not queued', c)
    builds = [b for b in A.calls_in(f.node, 'build_topology_views')]
    ok = bool(builds) and all(within(b, outer) for b in builds)
    ck.require(ok, 'R05.3', f, builds[0] if builds else f.node.name,
               'views are rebuilt inside the layer iteration when expired',
               'views are not rebuilt between layers: later layers see '
               'stale views', builds[0] if builds else None)
    if builds and appl:
        al = _loop_of(appl[0], f.node)
        done = [x for x in cfg.g.successors(cfg.loops[id(al)]['header'])
                if cfg.info[x].get('pol') == 'done'] if al else []
        ok = bool(done) and cfg.dominates(done[0], cfg.node(builds[0]))
        ck.require(ok, 'R05.3', f, builds[0],
                   'the rebuild follows the apply loop of the layer', None,
                   builds[0])


def r05_4(ck):
    ck.rule('R05.4', '_StepGraph: layers = sequential steps one per layer '
            'in list order, then topological generations; edges from '
            'dependency to dependant; add/add_sequential validate; '
            '_validate rejects cycles and overlap')
    gel = ck.fn('_StepGraph.get_execution_layers', 'core.engine')
    rets = [r for r in A.walk_no_nested(gel.node)
            if isinstance(r, ast.Return)]
    tg = [c for c in A.calls_in(gel.node, 'topological_generations')]
    ck.require(bool(tg) and 'self._graph' in A.unparse(tg[0]), 'R05.4', gel,
               tg[0] if tg else gel.node.name,
               'graph layers come from networkx.topological_generations of '
               'the step graph',
               'get_execution_layers no longer uses topological_generations '
               '(ordering idiom not recognised)')
    lazy = [y for y in ast.walk(gel.node)
            if isinstance(y, (ast.Yield, ast.YieldFrom))]
    ck.require(bool(rets) and not lazy, 'R05.4', gel,
               lazy[0] if lazy else gel.node.name,
               'the layers of a phase are fixed when the phase begins: '
               'get_execution_layers returns a list built up front',
               'get_execution_layers hands the layers out lazily (a '
               'generator over the live step collections): updates applied '
               'during the phase add and remove steps under the iteration - '
               'a step deleted by an earlier one makes a bystander miss the '
               'phase, a step generated in the phase already runs in it')
    if rets:
        r = rets[0]
        # order: sequential part first
        seq_first = False
        v = r.value
        if isinstance(v, ast.Name):
            ds = sorted(local_defs(gel.node).get(v.id, []),
                        key=lambda d: d.stmt.lineno)
            if ds:
                first = ds[0]
                seq_first = first.kind == 'assign' and \
                    'self._sequential_steps' in A.unparse(first.value) and \
                    not any(isinstance(x, ast.Call) and A.call_name(x) in (
                        'reversed', 'sorted') for x in ast.walk(first.value))
                singleton = isinstance(first.value, ast.ListComp) and \
                    isinstance(first.value.elt, ast.List) and len(
                        first.value.elt.elts) == 1
                rest = ds[1:]
                def _grown(d):
                    if d.kind == 'aug' and isinstance(d.stmt.op, ast.Add):
                        return d.stmt.value
                    if d.kind == 'mutate' and d.stmt.value.func.attr == \
                            'extend':
                        return d.value
                    return None
                after = bool(rest) and all(_grown(d) is not None
                                           for d in rest) and any(
                    derives(gel.node, _grown(d), lambda x: tg and
                            x is tg[0]) for d in rest)
                seq_first = seq_first and singleton and after
        elif isinstance(v, ast.BinOp) and isinstance(v.op, ast.Add):
            seq_first = 'self._sequential_steps' in A.unparse(v.left) and \
                derives(gel.node, v.right, lambda x: tg and x is tg[0])
        ck.require(seq_first, 'R05.4', gel, r,
                   'sequential steps come first, one per layer, in list '
                   'order, followed by the graph generations',
                   'the layer list is not [each sequential step alone, in '
                   'order] + topological generations', r)
    add = ck.fn('_StepGraph.add', 'core.engine')
    params = A.params_of(add.node)
    edges = list(A.calls_in(add.node, 'add_edge'))
    ck.require(bool(edges), 'R05.4', add, add.node.name,
               'add() inserts an edge per dependency',
               'add() no longer inserts dependency edges')
    for e in edges:
        a0, a1 = A.arg_of(e, 0), A.arg_of(e, 1)
        lp = _loop_of(e, add.node)
        ok = lp is not None and A.is_name(lp.iter, params[2]) and \
            A.unparse(a0) == A.unparse(lp.target) and A.is_name(a1,
                                                                params[1])
        if lp is not None:
            ca = cfg_of(add.node)
            extra = ca.guards(ca.node(e)) - ca.guards(
                ca.loops[id(lp)]['body_entry'])
            ck.require(not extra, 'R05.4', add, e,
                       'every listed dependency becomes an edge, whether or '
                       'not the dependency has been added yet',
                       'the edge is added only under %s: a dependency that '
                       'is registered later (listed after its dependant) is '
                       'silently dropped and the two steps run in one layer'
                       % sorted(extra), e)
        ck.require(ok, 'R05.4', add, e,
                   'edge goes from the dependency to the dependant',
                   'edge direction or endpoints wrong: add_edge(%s, %s)' % (
                       A.unparse(a0), A.unparse(a1)), e)
    nodes = list(A.calls_in(add.node, 'add_node'))
    ck.require(bool(nodes) and A.is_name(A.arg_of(nodes[0], 0), params[1]),
               'R05.4', add, nodes[0] if nodes else add.node.name,
               'a step without dependencies is still a node of the graph',
               'add() does not register the step itself as a node')
    for q in ('_StepGraph.add', '_StepGraph.add_sequential'):
        fi = ck.fn(q, 'core.engine')
        cfg = cfg_of(fi.node)
        vs = [cfg.node(c) for c in A.calls_in(fi.node, '_validate')]
        ok = bool(vs) and any(cfg.postdominates(v, cfg.entry) for v in vs)
        ck.require(ok, 'R05.4', fi, fi.node.name,
                   q + ' validates the graph on every path',
                   q + ' can return without _validate(): cycles or overlap '
                   'would be accepted')
    seq = ck.fn('_StepGraph.add_sequential', 'core.engine')
    sp = A.params_of(seq.node)
    apps = [c for c in A.calls_in(seq.node, 'append')
            if 'self._sequential_steps' in A.unparse(c.func)]
    ck.require(bool(apps) and A.is_name(A.arg_of(apps[0], 0), sp[1]),
               'R05.4', seq, apps[0] if apps else seq.node.name,
               'sequential steps are appended (declaration order)',
               'add_sequential does not append the path to the sequential '
               'list')
    val = ck.fn('_StepGraph._validate', 'core.engine')
    cfg = cfg_of(val.node)
    dag = False
    overlap = False
    for n in A.walk_no_nested(val.node):
        if isinstance(n, ast.Raise):
            g = cfg.guards(cfg.node(n))
            for a in g:
                if a[0] == 'falsy' and 'is_directed_acyclic_graph' in a[1] \
                        and 'self._graph' in a[1]:
                    dag = True
                if a[0] == 'truthy':
                    nm = a[1]
                    try:
                        e = ast.parse(nm, mode='eval').body
                    except SyntaxError:
                        continue
                    if derives(val.node, e, lambda x: isinstance(
                            x, ast.BinOp) and isinstance(x.op, ast.BitAnd)):
                        overlap = True
    ck.require(dag, 'R05.4', val, val.node.name,
               '_validate raises when the graph is not a DAG',
               '_validate no longer rejects cyclic step graphs')
    ck.require(overlap, 'R05.4', val, val.node.name,
               '_validate raises when a step is both sequential and in the '
               'graph', '_validate no longer rejects overlapping steps')


def r05_5(ck):
    ck.rule('R05.5', '_add_step_path: flow-less steps go to add_sequential, '
            'others to add with dependencies resolved as '
            'normalize_path(path + ("..",) + dep); unknown dependencies are '
            'rejected at construction')
    f = ck.fn('Engine._add_step_path', 'core.engine')
    cfg = cfg_of(f.node)
    params = A.params_of(f.node)
    stepv, pathv, depv = params[1], params[2], params[3]
    seqs = list(A.calls_in(f.node, 'add_sequential'))
    adds = [c for c in A.calls_in(f.node, 'add')
            if '_step_graph' in A.unparse(c.func)]
    ck.require(bool(seqs), 'R05.5', f, f.node.name,
               'legacy derivers are registered sequentially',
               'steps without a flow entry are no longer registered with '
               'add_sequential (they lose declaration order)')
    for s in seqs:
        g = cfg.guards(cfg.node(s))
        ok = ('is', depv, 'None') in g and A.is_name(A.arg_of(s, 0), pathv)
        ck.require(ok, 'R05.5', f, s,
                   'add_sequential exactly when the flow entry is None',
                   'add_sequential is not guarded by `dependencies is None`',
                   s)
    ck.require(bool(adds), 'R05.5', f, f.node.name,
               'steps with a flow entry are added to the graph',
               'flow steps are no longer added to the step graph')
    for a in adds:
        g = cfg.guards(cfg.node(a))
        ok = ('isnot', depv, 'None') in g
        ck.require(ok, 'R05.5', f, a,
                   'graph registration only for steps with a flow entry',
                   '_step_graph.add is reachable with a None flow entry', a)
        deps = A.arg_of(a, 1, 'dependencies')
        ok = A.is_name(A.arg_of(a, 0, 'path'), pathv) and derives(
            f.node, deps, lambda x: isinstance(x, ast.Call) and A.call_name(
                x) == 'normalize_path', at=a)
        ck.require(ok, 'R05.5', f, a,
                   'dependencies handed to the graph are normalised paths',
                   'dependencies are not passed through normalize_path', a)
        # path + ('..',) + dep
        def rel(x):
            if not (isinstance(x, ast.BinOp) and isinstance(x.op, ast.Add)):
                return False
            txt = A.unparse(x).replace('"', "'")
            return txt.startswith(pathv + " + ('..',) + ")
        ok = derives(f.node, deps, rel, at=a) and derives(
            f.node, deps, lambda x: A.is_name(x, depv), at=a)
        ck.require(ok, 'R05.5', f, a,
                   "each dependency is resolved relative to the step's "
                   "parent: path + ('..',) + dep",
                   'dependencies are not resolved relative to the parent of '
                   'the step', a)
    regs = [n for n in A.walk_no_nested(f.node)
            if isinstance(n, ast.Assign) and isinstance(
                n.targets[0], ast.Subscript) and 'self._step_paths' in
            A.unparse(n.targets[0])]
    ok = bool(regs) and A.unparse(regs[0].targets[0].slice) == pathv and \
        A.is_name(regs[0].value, stepv) and cfg.postdominates(
            cfg.node(regs[0]), cfg.entry)
    ck.require(ok, 'R05.5', f, regs[0] if regs else f.node.name,
               'every registered step is recorded in _step_paths at its path',
               '_add_step_path does not always record the step')
    v = ck.fn('Engine._validate_steps_and_flow', 'core.engine')
    cfgv = cfg_of(v.node)
    raises_ = [n for n in A.walk_no_nested(v.node) if isinstance(n, ast.Raise)]
    ok = any(any(a[0] == 'notin' and a[2] == A.params_of(v.node)[0]
                 for a in cfgv.guards(cfgv.node(r))) for r in raises_)
    ck.require(ok, 'R05.5', v, v.node.name,
               'a dependency that is not a known step is rejected',
               '_validate_steps_and_flow no longer raises on unknown '
               'dependencies')
    fsp = ck.fn('Engine._find_step_paths', 'core.engine')
    for c in A.calls_in(fsp.node, '_add_step_path'):
        a2 = A.arg_of(c, 2, 'relative_dependencies')
        ok = isinstance(a2, ast.Call) and A.call_name(a2) == 'get_in' and \
            A.is_name(a2.args[0], A.params_of(fsp.node)[2]) and \
            A.unparse(a2.args[1]) == A.unparse(A.arg_of(c, 1, 'path'))
        ck.require(ok, 'R05.5', fsp, c,
                   "each step's dependencies are its own flow entry",
                   'steps are registered with dependencies that are not '
                   'their flow entry', c)
    init = ck.fn('Engine.__init__', 'core.engine')
    for nm, reg in (('_find_process_paths', 'self.processes'),
                    ('_find_step_paths', 'self.steps')):
        cs = list(A.calls_in(init.node, nm))
        ok = len(cs) == 1 and A.unparse(A.arg_of(cs[0], 0)) == reg and \
            A.unparse(A.arg_of(cs[0], 1)) == 'self.flow'
        ck.require(ok, 'R05.5', init, cs[0] if cs else nm,
                   '%s is given %s and the flow' % (nm, reg),
                   '%s is called as %s: steps found there are registered '
                   'without their flow entry and run as legacy derivers, '
                   'before the steps they depend on' % (
                       nm, A.unparse(cs[0]) if cs else 'never'),
                   cs[0] if cs else None)
    fpp = ck.fn('Engine._find_process_paths', 'core.engine')
    for c in A.calls_in(fpp.node, '_add_process_path'):
        ok = A.is_name(A.arg_of(c, 2, 'flow'), A.params_of(fpp.node)[2])
        ck.require(ok, 'R05.5', fpp, c,
                   'the flow is handed on to _add_process_path', None, c)
    app = ck.fn('Engine._add_process_path', 'core.engine')
    cfga = cfg_of(app.node)
    for c in A.calls_in(app.node, '_add_step_path'):
        a2 = A.arg_of(c, 2, 'relative_dependencies')
        if a2 is not None:
            a2 = expand(app.node, a2, enclosing_stmt(c))
        okf = isinstance(a2, ast.Call) and A.call_name(a2) == 'get_in' and \
            A.is_name(a2.args[0], A.params_of(app.node)[3]) and A.is_name(
                a2.args[1], A.params_of(app.node)[2])
        ck.require(okf, 'R05.5', app, c,
                   "a step found among the processes is registered with "
                   'its own flow entry', None, c)
        g = cfga.guards(cfga.node(c))
        ok = any(a[0] == 'truthy' and a[1].endswith('.is_step()') for a in g)
        ck.require(ok, 'R05.5', app, c,
                   'only steps found among the processes are registered as '
                   'steps', None, c)


def r05_6(ck):
    ck.rule('R05.6', 'steps created or moved by structural updates keep '
            'their place in the flow: reporters report the flow of steps '
            '(never a None flow, never dropping an empty one) and the '
            'engine registers each new step with its flow entry of the '
            'same batch (shared with C10 R10.2 / R10.3)')
    from . import c10
    c10.r10_2(ck)
    c10.r10_3(ck)
    c10.r10_10(ck)
    for o in ck.obligations:
        if o['rule'] == 'R10.10':
            o['rule'] = 'R05.6'
    for v in ck.violations:
        if v.rule == 'R10.10':
            v.rule = 'R05.6'
    ck.rules.pop('R10.10', None)
    for o in ck.obligations:
        if o['rule'] in ('R10.2', 'R10.3'):
            o['rule'] = 'R05.6'
    for v in ck.violations:
        if v.rule in ('R10.2', 'R10.3'):
            v.rule = 'R05.6'
    ck.rules.pop('R10.2', None)
    ck.rules.pop('R10.3', None)


def r05_7(ck):
    ck.rule('R05.7', 'what counts as a step: Step.is_step() is True; '
            'Process.is_step() is False unless a subclass overrides the '
            'deprecated is_deriver(); removing a step removes it from the '
            'sequential list or from the graph')
    st = ck.fn('Step.is_step', 'core.process')
    rets = [r for r in A.walk_no_nested(st.node) if isinstance(r, ast.Return)]
    ok = bool(rets) and all(isinstance(r.value, ast.Constant) and
                            r.value.value is True for r in rets)
    ck.require(ok, 'R05.7', st, st.node.name, 'Step.is_step returns True',
               'Step.is_step no longer returns True')
    ps = ck.fn('Process.is_step', 'core.process')
    rets = [r for r in A.walk_no_nested(ps.node) if isinstance(r, ast.Return)]
    consts = [r for r in rets if isinstance(r.value, ast.Constant)]
    ok = bool(consts) and all(r.value.value is False for r in consts) and \
        any(isinstance(r.value, ast.Call) and A.call_name(r.value) ==
            'is_deriver' for r in rets)
    ck.require(ok, 'R05.7', ps, ps.node.name,
               'Process.is_step is False by default and defers to an '
               'overridden is_deriver()',
               'Process.is_step changed its default / its is_deriver hook')
    rm = ck.fn('_StepGraph.remove', 'core.engine')
    cfg = cfg_of(rm.node)
    p = A.params_of(rm.node)[1]
    seq = [c for c in A.calls_in(rm.node, 'remove')
           if '_sequential_steps' in A.unparse(c.func)]
    ok = bool(seq) and A.is_name(A.arg_of(seq[0], 0), p) and (
        'in', p, 'self._sequential_steps') in cfg.guards(cfg.node(seq[0]))
    ck.require(ok, 'R05.7', rm, seq[0] if seq else rm.node.name,
               'a sequential step is removed from the sequential list',
               None)
    if seq:
        extra = cfg.guards(cfg.node(seq[0])) - {
            ('in', p, 'self._sequential_steps')}
        ck.require(not extra, 'R05.7', rm, seq[0],
                   'a sequential step is removed whatever the graph holds '
                   '(flow-less steps never are graph nodes)',
                   'a sequential step is only removed under %s: a deleted '
                   'flow-less step stays in the sequential list, and a step '
                   'created later at the same path runs twice per phase'
                   % sorted(extra), seq[0])
    rn = [c for c in A.calls_in(rm.node, 'remove_node')]
    ok = bool(rn) and derives(rm.node, A.arg_of(rn[0], 0),
                              lambda x: A.is_name(x, p), at=rn[0])
    ck.require(ok, 'R05.7', rm, rn[0] if rn else rm.node.name,
               'a graph step is removed from the graph',
               '_StepGraph.remove no longer removes the step node')
