"""vsa - repository-specific static analyser for vivarium-core.

Parses /repo (never imports or executes it) and decides structural clauses of
the properties listed in /verif/properties.jsonl.  See /verif/DESIGN.md.
"""

__all__ = ['loader', 'astutil', 'cfg', 'dataflow', 'callgraph', 'linear',
           'report']
