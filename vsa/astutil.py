"""AST helpers: normalised text, condition atoms, access paths, call matching."""

import ast


def unparse(node):
    if node is None:
        return ''
    try:
        return ast.unparse(node)
    except Exception:       # pragma: no cover
        return '<?>'


def short(node, limit=100):
    s = ' '.join(unparse(node).split())
    return s if len(s) <= limit else s[:limit - 3] + '...'


def walk_no_nested(node):
    """Walk a function body without descending into nested defs / lambdas /
    classes (comprehensions are expressions and are walked)."""
    stack = [node]
    first = True
    while stack:
        n = stack.pop()
        if not first and isinstance(n, (ast.FunctionDef, ast.AsyncFunctionDef,
                                        ast.Lambda, ast.ClassDef)):
            continue
        first = False
        yield n
        stack.extend(reversed(list(ast.iter_child_nodes(n))))


def walk_all(node):
    return ast.walk(node)


# --------------------------------------------------------------- constants
def const_value(node):
    """(True, value) if node is a compile-time constant we fold."""
    if isinstance(node, ast.Constant):
        return True, node.value
    if isinstance(node, ast.UnaryOp) and isinstance(node.op, ast.Not):
        ok, v = const_value(node.operand)
        if ok:
            return True, (not v)
    if isinstance(node, ast.BoolOp):
        vals = [const_value(v) for v in node.values]
        if isinstance(node.op, ast.And):
            for ok, v in vals:
                if ok and not v:
                    return True, v
                if not ok:
                    return False, None
            return True, vals[-1][1]
        else:
            for ok, v in vals:
                if ok and v:
                    return True, v
                if not ok:
                    return False, None
            return True, vals[-1][1]
    if isinstance(node, (ast.Tuple, ast.List)) and not node.elts:
        return True, ()
    if isinstance(node, ast.Dict) and not node.keys:
        return True, {}
    return False, None


def is_empty_const(node):
    """``{}``, ``()``, ``[]``, ``None``, ``dict()``: an empty value."""
    if isinstance(node, ast.Dict) and not node.keys:
        return True
    if isinstance(node, (ast.Tuple, ast.List, ast.Set)) and not node.elts:
        return True
    if isinstance(node, ast.Constant) and node.value in (None, '', 0, False) \
            and node.value is not True:
        return node.value is None or node.value == ''
    if isinstance(node, ast.Call) and isinstance(node.func, ast.Name) \
            and node.func.id in ('dict', 'list', 'tuple') \
            and not node.args and not node.keywords:
        return True
    return False


# -------------------------------------------------------- condition atoms
_FLIP = {ast.Lt: ast.Gt, ast.Gt: ast.Lt, ast.LtE: ast.GtE, ast.GtE: ast.LtE}
_NEG = {ast.Lt: ast.GtE, ast.GtE: ast.Lt, ast.Gt: ast.LtE, ast.LtE: ast.Gt,
        ast.Eq: ast.NotEq, ast.NotEq: ast.Eq, ast.Is: ast.IsNot,
        ast.IsNot: ast.Is, ast.In: ast.NotIn, ast.NotIn: ast.In}


def _cmp_atom(op, left, right):
    """Canonical atom for ``left op right``."""
    l, r = unparse(left), unparse(right)
    t = type(op)
    if t is ast.Gt:
        return ('<', r, l)
    if t is ast.GtE:
        return ('<=', r, l)
    if t is ast.Lt:
        return ('<', l, r)
    if t is ast.LtE:
        return ('<=', l, r)
    if t is ast.Eq:
        a, b = sorted((l, r))
        return ('==', a, b)
    if t is ast.NotEq:
        a, b = sorted((l, r))
        return ('!=', a, b)
    if t is ast.Is:
        return ('is', l, r)
    if t is ast.IsNot:
        return ('isnot', l, r)
    if t is ast.In:
        return ('in', l, r)
    if t is ast.NotIn:
        return ('notin', l, r)
    return ('cmp', unparse(op), l, r)


def cond_atoms(test, polarity=True):
    """Set of atoms that certainly hold when ``test`` evaluates to
    ``polarity``.  Conjunctions on the true side and disjunctions on the false
    side are split; anything else is one atom."""
    out = set()
    ok, v = const_value(test)
    if ok:
        return out      # constants carry no facts
    if isinstance(test, ast.UnaryOp) and isinstance(test.op, ast.Not):
        return cond_atoms(test.operand, not polarity)
    if isinstance(test, ast.BoolOp):
        if isinstance(test.op, ast.And) and polarity:
            for v in test.values:
                out |= cond_atoms(v, True)
            return out
        if isinstance(test.op, ast.Or) and not polarity:
            for v in test.values:
                out |= cond_atoms(v, False)
            return out
        # a disjunction known true / conjunction known false: keep opaque,
        # but drop constant-foldable operands first
        vals = []
        for v in test.values:
            okc, cv = const_value(v)
            if okc:
                continue
            vals.append(v)
        if len(vals) == 1:
            return cond_atoms(vals[0], polarity)
        out.add(('opaque', ' '.join(sorted(unparse(v) for v in vals)),
                 type(test.op).__name__, polarity))
        return out
    if isinstance(test, ast.Compare) and len(test.ops) == 1:
        op = test.ops[0]
        if not polarity:
            neg = _NEG.get(type(op))
            if neg is None:
                out.add(('not', unparse(test)))
                return out
            op = neg()
        out.add(_cmp_atom(op, test.left, test.comparators[0]))
        return out
    if isinstance(test, ast.Call) and isinstance(test.func, ast.Name) \
            and test.func.id == 'isinstance' and len(test.args) == 2:
        out.add(('isinstance' if polarity else 'notisinstance',
                 unparse(test.args[0]), unparse(test.args[1])))
        return out
    out.add(('truthy' if polarity else 'falsy', unparse(test)))
    return out


# ------------------------------------------------------------ access paths
def attr_chain(node):
    """['self', 'front'] for ``self.front``; None if not a pure chain."""
    parts = []
    while isinstance(node, ast.Attribute):
        parts.append(node.attr)
        node = node.value
    if isinstance(node, ast.Name):
        parts.append(node.id)
        return list(reversed(parts))
    return None


def is_self_attr(node, name):
    return (isinstance(node, ast.Attribute) and node.attr == name
            and isinstance(node.value, ast.Name) and node.value.id == 'self')


def subscript_key(node):
    """Constant key of a subscript ``x['k']`` or None."""
    if isinstance(node, ast.Subscript):
        s = node.slice
        if isinstance(s, ast.Constant):
            return s.value
    return None


def call_name(call):
    """Terminal name of the callee: ``f`` for ``f(..)``/``x.f(..)``."""
    if not isinstance(call, ast.Call):
        return None
    f = call.func
    if isinstance(f, ast.Name):
        return f.id
    if isinstance(f, ast.Attribute):
        return f.attr
    return None


def call_receiver(call):
    if isinstance(call, ast.Call) and isinstance(call.func, ast.Attribute):
        return call.func.value
    return None


def calls_in(node, name=None, nested=False):
    it = ast.walk(node) if nested else walk_no_nested(node)
    for n in it:
        if isinstance(n, ast.Call) and (name is None or call_name(n) == name
                                        or (isinstance(name, (set, tuple,
                                                              frozenset, list))
                                            and call_name(n) in name)):
            yield n


def names_in(node):
    return {n.id for n in ast.walk(node) if isinstance(n, ast.Name)}


def arg_of(call, index, keyword=None):
    """Positional argument ``index`` or keyword ``keyword`` of a call."""
    if keyword:
        for k in call.keywords:
            if k.arg == keyword:
                return k.value
    if index is not None and index < len(call.args):
        a = call.args[index]
        if not isinstance(a, ast.Starred):
            return a
    return None


def params_of(fnode):
    a = fnode.args
    names = [x.arg for x in a.posonlyargs + a.args]
    return names


def kwonly_of(fnode):
    return [x.arg for x in fnode.args.kwonlyargs]


def contains(node, sub):
    for n in ast.walk(node):
        if n is sub:
            return True
    return False


def assigned_targets(stmt):
    """Flat list of target expressions of an assignment-like statement."""
    out = []

    def flat(t):
        if isinstance(t, (ast.Tuple, ast.List)):
            for e in t.elts:
                flat(e)
        elif isinstance(t, ast.Starred):
            flat(t.value)
        else:
            out.append(t)
    if isinstance(stmt, ast.Assign):
        for t in stmt.targets:
            flat(t)
    elif isinstance(stmt, (ast.AugAssign, ast.AnnAssign)):
        flat(stmt.target)
    elif isinstance(stmt, (ast.For, ast.AsyncFor)):
        flat(stmt.target)
    elif isinstance(stmt, (ast.With, ast.AsyncWith)):
        for it in stmt.items:
            if it.optional_vars is not None:
                flat(it.optional_vars)
    return out


def is_name(node, name):
    return isinstance(node, ast.Name) and node.id == name


def same(a, b):
    return unparse(a) == unparse(b)
