"""Tiny symbolic algebra of hierarchy paths (tuples): concatenation,
``p[:-1]``, ``p[-1:]`` / ``(p[-1],)`` and ``node.path_for()``."""

import ast

from . import astutil as A
from .dataflow import reaching


def normalise(path):
    out = []
    for a in path:
        if out and a[0] == 'last' and out[-1] == ('init', a[1]):
            out[-1] = ('seq', a[1])
        else:
            out.append(a)
    return out


def show(path):
    parts = []
    for a in normalise(path):
        parts.append({'node': 'path(%s)', 'seq': '%s', 'init': '%s[:-1]',
                      'last': '%s[-1:]', 'elt': '(%s,)',
                      'opaque': '<%s>'}[a[0]] % a[1])
    return ' + '.join(parts) or '()'


def eval_path(fnode, e, at, node_paths=None, depth=5):
    """Symbolic value of a tuple-path expression (list of atoms) or None."""
    node_paths = node_paths or {}
    if depth < 0 or e is None:
        return None
    if isinstance(e, ast.Call):
        nm = A.call_name(e)
        if nm == 'path_for' and A.call_receiver(e) is not None:
            rc = A.call_receiver(e)
            if isinstance(rc, ast.Call) and '@resolve' in node_paths:
                # path_for() of a node that a call returned
                got = node_paths['@resolve'](rc)
                if got is not None:
                    return list(got)
            r = A.unparse(rc)
            return list(node_paths.get(r, [('node', r)]))
        if nm in ('tuple', 'list') and len(e.args) == 1:
            return eval_path(fnode, e.args[0], at, node_paths, depth)
        return None
    if isinstance(e, ast.BinOp) and isinstance(e.op, ast.Add):
        l = eval_path(fnode, e.left, at, node_paths, depth)
        r = eval_path(fnode, e.right, at, node_paths, depth)
        if l is None or r is None:
            return None
        return normalise(l + r)
    if isinstance(e, ast.Subscript) and isinstance(e.slice, ast.Slice) and \
            isinstance(e.value, ast.Name):
        s = e.slice
        if s.lower is None and A.unparse(s.upper) == '-1' and s.step is None:
            return [('init', e.value.id)]
        if s.upper is None and A.unparse(s.lower) == '-1' and s.step is None:
            return [('last', e.value.id)]
        return None
    if isinstance(e, ast.Tuple):
        out = []
        for el in e.elts:
            if isinstance(el, ast.Subscript) and A.unparse(
                    el.slice) == '-1' and isinstance(el.value, ast.Name):
                out.append(('last', el.value.id))
            else:
                out.append(('elt', A.unparse(el)))
        return normalise(out)
    if isinstance(e, ast.Name):
        ds = reaching(fnode).at(at, e.id)
        if len(ds) == 1:
            d = next(iter(ds))
            if d.kind == 'assign' and d.value is not None and not (
                    isinstance(d.value, ast.Subscript) and not isinstance(
                        d.value.slice, ast.Slice)):
                v = eval_path(fnode, d.value, d.stmt, node_paths, depth - 1)
                if v is not None:
                    return v
        return [('seq', e.id)]
    return None
