"""Abstract interpretation of the scheduler loop of ``Engine.run_for``.

Domain: an environment of *linear forms* over symbols (global time ``gt``,
``end_time``, the entry's time ``pt``, the requested timestep ``ts``...), a set
of linear facts collected from guards and definitions (closed by
Fourier-Motzkin on demand), the abstract contents of the front-entry slots,
and the set of terms folded into ``full_step`` (a min-set).  Branches fork the
state (trace partitioning); the loop bodies analysed are loop-free apart from
"for all" loops over lists, which are executed once on a generic element.

Nothing is executed: expressions are only folded into linear forms.
"""

import ast
import copy

from . import astutil as A
from .engine_model import RunFor, inline_helper_calls
from .linear import Lin, le, lt, eq, entails, satisfiable


class MinSet:
    """Value of full_step: min over a set of terms (empty = +inf)."""

    def __init__(self, terms=()):
        self.terms = list(terms)

    def __repr__(self):
        return 'min%r' % (self.terms,)


class Tag:
    def __init__(self, kind, data=None):
        self.kind = kind
        self.data = data

    def __repr__(self):
        return '<%s>' % self.kind


class State:
    def __init__(self):
        self.env = {}
        self.slots = {}
        self.facts = []
        self.events = []
        self.flags = {}
        self.gt = Lin.sym('gt')
        self.done = None        # None | 'continue' | 'break' | 'return'
        self.counter = [0]
        self.trace = []

    def fork(self):
        s = State()
        s.env = dict(self.env)
        s.slots = dict(self.slots)
        s.facts = list(self.facts)
        s.events = list(self.events)
        s.flags = dict(self.flags)
        s.gt = self.gt
        s.done = self.done
        s.counter = self.counter
        s.trace = list(self.trace)
        return s

    def fresh(self, base):
        self.counter[0] += 1
        return Lin.sym('%s#%d' % (base, self.counter[0]))

    def feasible(self):
        return satisfiable(self.facts)


class Interp:
    def __init__(self, ck, fi, front_model, assume_ts_positive=True):
        self.ck = ck
        self.fi = fi
        self.fm = front_model
        self.assume_ts_positive = assume_ts_positive
        self.ts_sites = {}
        self.binding_stack = []

    # ------------------------------------------------------------ values
    def eval(self, st, e):
        """[(value, extra facts)] alternatives."""
        if e is None:
            return [(None, [])]
        if isinstance(e, ast.Constant):
            if isinstance(e.value, (int, float)) and not isinstance(
                    e.value, bool):
                return [(Lin.const(e.value), [])]
            return [(Tag('const', e.value), [])]
        if isinstance(e, ast.Attribute):
            if A.is_self_attr(e, 'global_time'):
                return [(st.gt, [])]
            if A.unparse(e) in ('math.inf', 'np.inf', 'numpy.inf'):
                return [(MinSet([]), [])]
            if A.is_name(e.value, 'self'):
                return [(Lin.sym('self.' + e.attr), [])]
            return [(Tag('attr', A.unparse(e)), [])]
        if isinstance(e, ast.Name):
            if e.id in st.env:
                return [(st.env[e.id], [])]
            for b in reversed(self.binding_stack):
                if e.id in b:
                    return [(b[e.id], [])]
            return [(Lin.sym(e.id), [])]
        if isinstance(e, ast.Subscript):
            s = self.fm.slot(e)
            if s:
                which, key = s
                key = self._rekey(key)
                if (which, key) in st.slots:
                    return [(st.slots[(which, key)], [])]
                if which == 'time':
                    return [(Lin.sym('pt'), [])]
                return [(Tag('slot-update', key), [])]
            return [(Tag('subscript', A.unparse(e)), [])]
        if isinstance(e, ast.UnaryOp) and isinstance(e.op, ast.USub):
            return [((-v if isinstance(v, Lin) else None), f)
                    for v, f in self.eval(st, e.operand)]
        if isinstance(e, ast.BinOp):
            out = []
            for a, fa in self.eval(st, e.left):
                for b, fb in self.eval(st, e.right):
                    v = None
                    if isinstance(a, Lin) and isinstance(b, Lin):
                        if isinstance(e.op, ast.Add):
                            v = a + b
                        elif isinstance(e.op, ast.Sub):
                            v = a - b
                        elif isinstance(e.op, ast.Mult):
                            if a.is_const():
                                v = b.scale(a.k)
                            elif b.is_const():
                                v = a.scale(b.k)
                        elif isinstance(e.op, ast.Div) and b.is_const() \
                                and b.k != 0:
                            v = a.scale(1 / b.k)
                    if v is None and isinstance(a, Lin) and isinstance(
                            b, Lin):
                        v = st.fresh('expr')
                    out.append((v, fa + fb))
            return out
        if isinstance(e, ast.Tuple):
            alts = [([], [])]
            for el in e.elts:
                nxt = []
                for vals, fs in alts:
                    for v, f in self.eval(st, el):
                        nxt.append((vals + [v], fs + f))
                alts = nxt
            return [(Tag('tuple', vals), fs) for vals, fs in alts]
        if isinstance(e, ast.Call):
            return self.eval_call(st, e)
        if isinstance(e, ast.IfExp):
            return self.eval(st, e.body) + self.eval(st, e.orelse)
        if isinstance(e, (ast.Dict, ast.List, ast.Set)):
            if A.is_empty_const(e):
                return [(Tag('empty'), [])]
            return [(Tag('container'), [])]
        return [(None, [])]

    def _rekey(self, key):
        for b in reversed(self.binding_stack):
            if key in b and isinstance(b[key], Tag) and \
                    b[key].kind == 'keyvar':
                return b[key].data
        return key

    def eval_call(self, st, c):
        name = A.call_name(c)
        if name == 'round' and c.args:
            return self.eval(st, c.args[0])
        if name in ('float', 'int') and len(c.args) == 1:
            if isinstance(c.args[0], ast.Constant) and str(
                    c.args[0].value).lower() in ('inf', 'infinity'):
                return [(MinSet([]), [])]
            return self.eval(st, c.args[0])
        if name in ('min', 'max') and len(c.args) == 2 and not c.keywords:
            out = []
            for a, fa in self.eval(st, c.args[0]):
                for b, fb in self.eval(st, c.args[1]):
                    if name == 'min' and isinstance(a, MinSet):
                        out.append((MinSet(a.terms + [(b, c)]), fa + fb))
                    elif name == 'min' and isinstance(b, MinSet):
                        out.append((MinSet(b.terms + [(a, c)]), fa + fb))
                    elif isinstance(a, Lin) and isinstance(b, Lin):
                        if name == 'min':
                            out.append((a, fa + fb + [le(a, b)]))
                            out.append((b, fa + fb + [le(b, a)]))
                        else:
                            out.append((a, fa + fb + [le(b, a)]))
                            out.append((b, fa + fb + [le(a, b)]))
                    else:
                        out.append((None, fa + fb))
            return out
        if name == 'calculate_timestep':
            idx = self.ts_sites.setdefault(id(c), len(self.ts_sites) + 1)
            sym = Lin.sym('ts' if idx == 1 else 'ts#%d' % idx)
            st.events.append(('timestep', c, sym))
            facts = [lt(0, sym)] if self.assume_ts_positive else []
            return [(sym, facts)]
        if name == 'empty_front' and c.args:
            return [(Tag('entry', v), f)
                    for v, f in self.eval(st, c.args[0])]
        if name == '_process_update':
            out = []
            iv = A.arg_of(c, 4, 'interval')
            for v, f in self.eval(st, iv):
                st.events.append(('invoke', c, v, A.unparse(
                    A.arg_of(c, 0, 'path'))))
                out.append((Tag('defer', c), f))
            return out[:1] or [(Tag('defer', c), [])]
        if name == 'update_condition':
            iv = A.arg_of(c, 0, 'timestep')
            for v, f in self.eval(st, iv):
                st.events.append(('cond', c, v))
                break
            return [(Tag('cond', c), [])]
        if name == 'EmptyDefer':
            return [(Tag('emptydefer'), [])]
        if name == '_process_state':
            return [(Tag('tuple', [Tag('store'), Tag('states', c)]), [])]
        # unknown numeric result: a fresh symbol bound once here
        return [(st.fresh('call:' + (name or '?')), [])]

    # -------------------------------------------------------- conditions
    def assume(self, st, test, pol):
        """States in which ``test`` evaluates to ``pol`` (may be empty)."""
        ok, v = A.const_value(test)
        if ok:
            return [st] if bool(v) == pol else []
        if isinstance(test, ast.UnaryOp) and isinstance(test.op, ast.Not):
            return self.assume(st, test.operand, not pol)
        if isinstance(test, ast.BoolOp):
            conj = isinstance(test.op, ast.And)
            if conj == pol:
                # all operands hold (and-true) / all fail (or-false)
                states = [st]
                for v in test.values:
                    nxt = []
                    for s in states:
                        nxt += self.assume(s, v, pol)
                    states = nxt
                return states
            # at least one operand decides: fork per first decider
            out = []
            prefix = [st]
            for v in test.values:
                for s in prefix:
                    out += self.assume(s.fork(), v, pol)
                nxt = []
                for s in prefix:
                    nxt += self.assume(s.fork(), v, not pol)
                prefix = nxt
            return out
        if isinstance(test, ast.Compare) and len(test.ops) == 1:
            op = test.ops[0]
            out = []
            for a, fa in self.eval(st, test.left):
                for b, fb in self.eval(st, test.comparators[0]):
                    s = st.fork()
                    s.facts += fa + fb
                    s.trace.append((A.unparse(test), pol))
                    if isinstance(a, Lin) and isinstance(b, Lin):
                        t = type(op)
                        if not pol:
                            t = {ast.Lt: ast.GtE, ast.LtE: ast.Gt,
                                 ast.Gt: ast.LtE, ast.GtE: ast.Lt,
                                 ast.Eq: ast.NotEq,
                                 ast.NotEq: ast.Eq}.get(t, None)
                        if t is ast.Lt:
                            s.facts.append(lt(a, b))
                        elif t is ast.LtE:
                            s.facts.append(le(a, b))
                        elif t is ast.Gt:
                            s.facts.append(lt(b, a))
                        elif t is ast.GtE:
                            s.facts.append(le(b, a))
                        elif t is ast.Eq:
                            s.facts.append(eq(a, b))
                        elif t is ast.NotEq:
                            s1 = s.fork()
                            s1.facts.append(lt(a, b))
                            s.facts.append(lt(b, a))
                            if s1.feasible():
                                out.append(s1)
                    elif isinstance(a, MinSet) or isinstance(b, MinSet):
                        ms, other = (a, b) if isinstance(a, MinSet) \
                            else (b, a)
                        if isinstance(op, (ast.Eq, ast.NotEq)):
                            want_eq = isinstance(op, ast.Eq) == pol
                            if isinstance(other, MinSet):
                                is_eq = (not ms.terms) == (not other.terms)
                                if is_eq != want_eq and not (
                                        ms.terms and other.terms):
                                    continue
                            elif isinstance(other, Lin):
                                # a finite value never equals +inf
                                if not ms.terms and want_eq:
                                    continue
                    elif isinstance(op, (ast.In, ast.NotIn, ast.Is,
                                         ast.IsNot)):
                        key = A.unparse(test.left) + ' ' + type(
                            op).__name__.replace('Not', '').lower() + ' ' \
                            + A.unparse(test.comparators[0])
                        val = pol if isinstance(op, (ast.In, ast.Is)) \
                            else not pol
                        if key in s.flags and s.flags[key] != val:
                            continue
                        s.flags[key] = val
                    if s.feasible():
                        out.append(s)
            return out
        key = A.unparse(test)
        if key in st.flags and st.flags[key] != pol:
            return []
        s = st.fork()
        s.flags[key] = pol
        s.trace.append((key, pol))
        # evaluate for its events (update_condition(...))
        if isinstance(test, ast.Call):
            self.eval(s, test)
        return [s]

    # -------------------------------------------------------- statements
    def run(self, states, stmts):
        for stmt in stmts:
            nxt = []
            for s in states:
                if s.done:
                    nxt.append(s)
                else:
                    nxt += self.step(s, stmt)
            states = nxt
        return states

    def step(self, st, stmt):
        if isinstance(stmt, ast.If):
            out = []
            for s in self.assume(st.fork(), stmt.test, True):
                out += self.run([s], stmt.body)
            for s in self.assume(st.fork(), stmt.test, False):
                out += self.run([s], stmt.orelse)
            return out
        if isinstance(stmt, (ast.Assign, ast.AnnAssign)):
            if isinstance(stmt, ast.AnnAssign) and stmt.value is None:
                return [st]
            targets = stmt.targets if isinstance(stmt, ast.Assign) \
                else [stmt.target]
            out = []
            for v, f in self.eval(st, stmt.value):
                s = st.fork()
                s.facts += f
                if not s.feasible():
                    continue
                for t in targets:
                    self.bind(s, t, v, stmt)
                out.append(s)
            return out
        if isinstance(stmt, ast.AugAssign):
            cur = ast.BinOp(left=_load(stmt.target), op=stmt.op,
                            right=stmt.value)
            ast.copy_location(cur, stmt)
            ast.fix_missing_locations(cur)
            out = []
            for v, f in self.eval(st, cur):
                s = st.fork()
                s.facts += f
                self.bind(s, stmt.target, v, stmt)
                out.append(s)
            return out
        if isinstance(stmt, ast.Expr):
            if isinstance(stmt.value, ast.Call):
                return self.call_stmt(st, stmt.value, stmt)
            return [st]
        if isinstance(stmt, ast.Continue):
            st.done = 'continue'
            return [st]
        if isinstance(stmt, ast.Break):
            st.done = 'break'
            return [st]
        if isinstance(stmt, ast.Return):
            st.done = 'return'
            return [st]
        if isinstance(stmt, ast.For):
            return self.for_all(st, stmt)
        if isinstance(stmt, ast.While):
            self.havoc(st, stmt)
            st.events.append(('inner-while', stmt))
            return [st]
        if isinstance(stmt, ast.Assert):
            return self.assume(st, stmt.test, True) or [st]
        if isinstance(stmt, (ast.With,)):
            return self.run([st], stmt.body)
        if isinstance(stmt, ast.Try):
            return self.run([st], stmt.body)
        return [st]

    def havoc(self, st, node):
        for n in ast.walk(node):
            if isinstance(n, (ast.Assign, ast.AugAssign, ast.AnnAssign,
                              ast.For)):
                for t in A.assigned_targets(n):
                    if isinstance(t, ast.Name):
                        st.env[t.id] = st.fresh(t.id)
                    elif A.is_self_attr(t, 'global_time'):
                        st.gt = st.fresh('gt')
                        st.events.append(('advance-in-loop', n))

    def for_all(self, st, loop):
        """Execute a ``for x in L`` body once on a generic element; slot
        writes keyed by the loop variable become *for-all* events."""
        it = loop.iter
        src = A.unparse(it)
        if isinstance(it, ast.Name):
            for b in reversed(self.binding_stack):
                if it.id in b and isinstance(b[it.id], Tag) and \
                        b[it.id].kind == 'listvar':
                    src = b[it.id].data
                    break
        s = st.fork()
        targets = [t.id for t in ast.walk(loop.target)
                   if isinstance(t, ast.Name)]
        s.events.append(('forall-begin', loop, src, targets))
        body_states = self.run([s], loop.body)
        # merge: keep the first non-terminated state's events; havoc names
        res = st.fork()
        evs = []
        for b in body_states:
            for e in b.events[len(st.events):]:
                if e not in evs:
                    evs.append(e)
        res.events = st.events + evs + [('forall-end', loop)]
        self.havoc(res, loop)
        return [res]

    def call_stmt(self, st, call, stmt):
        name = A.call_name(call)
        recv = A.call_receiver(call)
        if name == 'append' and isinstance(recv, ast.Name) and call.args:
            st.events.append(('append', stmt, recv.id,
                              A.unparse(call.args[0])))
            return [st]
        callee, binding = inline_helper_calls(self.ck, self.fi, call)
        if callee is not None and callee.cls == self.fi.cls and \
                len(self.binding_stack) < 2 and callee.name not in (
                    '_send_updates', 'run_steps', '_emit_store_data',
                    '_remove_deleted_processes', 'apply_update',
                    '_process_state', '_calculate_update'):
            b = {}
            for p, a in binding.items():
                if isinstance(a, ast.Name) and not isinstance(
                        st.env.get(a.id), (Lin, MinSet)):
                    # a container (or unknown) handed on under another
                    # name: loops over the parameter are loops over it
                    b[p] = Tag('listvar', a.id)
                else:
                    alts = self.eval(st, a)
                    b[p] = alts[0][0]
            st.events.append(('helper', stmt, callee.qual))
            self.binding_stack.append(b)
            saved_fm = self.fm
            from .engine_model import FrontModel
            self.fm = FrontModel(callee)
            try:
                out = self.run([st], callee.node.body)
            finally:
                self.fm = saved_fm
                self.binding_stack.pop()
            for s in out:
                if s.done == 'return':
                    s.done = None
            return out
        st.events.append(('call', stmt, name))
        # evaluate for nested events
        self.eval(st, call)
        return [st]

    def bind(self, st, target, value, stmt):
        if isinstance(target, ast.Name):
            st.env[target.id] = value
            if isinstance(value, MinSet) and value.terms:
                term, c = value.terms[-1]
                st.events.append(('fullstep-term', stmt, term,
                                  list(st.facts), list(st.trace)))
            return
        if isinstance(target, (ast.Tuple, ast.List)):
            if isinstance(value, Tag) and value.kind == 'tuple' and \
                    len(value.data) == len(target.elts):
                for t, v in zip(target.elts, value.data):
                    self.bind(st, t, v, stmt)
            else:
                for t in target.elts:
                    self.bind(st, t, None, stmt)
            return
        if A.is_self_attr(target, 'global_time'):
            old = st.gt
            st.gt = value if isinstance(value, Lin) else st.fresh('gt?')
            st.events.append(('advance', stmt, old, value,
                              list(st.facts), dict(st.flags),
                              list(st.trace)))
            return
        if isinstance(target, ast.Subscript):
            s = self.fm.slot(target)
            if s:
                which, key = s
                key = self._rekey(key)
                st.slots[(which, key)] = value
                st.events.append(('store-' + which, stmt, key, value,
                                  list(st.facts), list(st.trace)))
                return
            if self.fm.is_front(target.value):
                key = A.unparse(target.slice)
                if isinstance(value, Tag) and value.kind == 'entry':
                    st.slots[('time', key)] = value.data
                    st.slots[('update', key)] = Tag('empty')
                    st.events.append(('new-entry', stmt, key, value.data))
                else:
                    st.events.append(('new-entry', stmt, key, None))
                return


def _load(node):
    n = copy.deepcopy(node)
    for x in ast.walk(n):
        if hasattr(x, 'ctx'):
            x.ctx = ast.Load()
    return n


# ----------------------------------------------------------------- drivers
class SchedulerAnalysis:
    """Runs the interpreter over (a) one generic iteration of the polling
    body, (b) the advance section, and exposes the terminal states."""

    def __init__(self, ck):
        self.ck = ck
        self.rf = RunFor(ck)
        rf = self.rf
        self.interp = Interp(ck, rf.fi, rf.front)
        body = rf.while_loop.body
        idx = None
        for i, s in enumerate(body):
            if s is rf.poll_loop or A.contains(s, rf.poll_loop):
                idx = i
        self.pre = body[:idx]
        self.post = body[idx + 1:]
        self.path_var, self.proc_var = rf.poll_targets()
        ck.assume('TS_POSITIVE: calculate_timestep returns a value > 0')
        ck.assume('INTERVAL_NONNEG: run_for is called with interval >= 0 '
                  '(establishes global_time <= end_time at loop entry)')
        ck.assume('GRID: round(x, global_time_precision) is the identity on '
                  'the time grid')
        self.poll_states = self._poll()
        self.adv_states = self._advance()
        ck.paths += len(self.poll_states) + len(self.adv_states)

    def _init_state(self):
        st = State()
        # whatever the local that holds the end of the interval is called,
        # it is the symbol end_time of the analysis
        st.env[self.rf.end_name] = Lin.sym('end_time')
        st.facts.append(le(Lin.sym('gt'), Lin.sym('end_time')))
        return st

    def _poll(self):
        st = self._init_state()
        pre = [s for s in self.pre if not (
            isinstance(s, ast.Expr) and isinstance(s.value, ast.Call))]
        states = self.interp.run([st], pre)
        out = []
        for s in states:
            s.done = None
            s.events = []
            res = self.interp.run([s], self.rf.poll_loop.body)
            out += res
        return [s for s in out if s.feasible()]

    def _advance(self):
        """Scenarios: no term / some term, before the end / at the end."""
        out = []
        for terms in ('none', 'some'):
            for pos in ('before', 'at'):
                st = self._init_state()
                if pos == 'before':
                    st.facts.append(lt(Lin.sym('gt'), Lin.sym('end_time')))
                else:
                    st.facts.append(eq(Lin.sym('gt'), Lin.sym('end_time')))
                pre = [s for s in self.pre if not (
                    isinstance(s, ast.Expr) and isinstance(
                        s.value, ast.Call))]
                states = self.interp.run([st], pre)
                for s in states:
                    s.events = []
                    s.flags['scenario'] = (terms, pos)
                    # the name(s) holding the min-set
                    for name, v in list(s.env.items()):
                        if isinstance(v, MinSet):
                            if terms == 'some':
                                fs = Lin.sym('fs')
                                s.env[name] = fs
                                s.facts.append(le(0, fs))
                                if pos == 'before':
                                    s.facts.append(lt(0, fs))
                            else:
                                s.env[name] = MinSet([])
                    res = self.interp.run([s], self.post)
                    out += [r for r in res if r.feasible()]
        return out
