"""Check context: obligations, violations, evidence, known findings."""

import ast
import json
import os
import re
import time
from pathlib import Path

from . import astutil as A
from .loader import AnalysisError

VERIF = Path(__file__).resolve().parent.parent
EVIDENCE_DIR = VERIF / 'evidence'
OUT_DIR = VERIF / 'out'
KNOWN_FINDINGS = VERIF / 'known_findings.json'


def norm_construct(text):
    """Whitespace- and quote-insensitive key of a construct."""
    if isinstance(text, ast.AST):
        text = A.unparse(text)
    return ' '.join(str(text).split())


class Violation:
    def __init__(self, prop, rule, function, construct, message, file, line,
                 extra=None):
        self.prop = prop
        self.rule = rule
        self.function = function
        self.construct = norm_construct(construct)
        self.message = message
        self.file = file
        self.line = line
        self.extra = extra or {}

    def key(self):
        return (self.prop, self.rule, self.function, self.construct)

    def as_dict(self):
        return {
            'property': self.prop, 'rule': self.rule,
            'function': self.function, 'construct': self.construct,
            'message': self.message, 'file': self.file, 'line': self.line,
            'extra': self.extra}

    def text(self):
        return '%s:%s: [%s %s] in %s: %s | construct: %s' % (
            self.file, self.line, self.prop, self.rule, self.function,
            self.message, self.construct[:160])


def load_known_findings():
    if not KNOWN_FINDINGS.exists():
        return []
    return json.loads(KNOWN_FINDINGS.read_text())['findings']


class Check:
    """Collects what one property check analysed and found."""

    def __init__(self, prop, repo, tier='quick'):
        self.prop = prop
        self.repo = repo
        self.tier = tier
        self.t0 = time.time()
        self.obligations = []     # dicts
        self.violations = []
        self.notes = []
        self.assumptions = []
        self.functions = set()
        self.call_sites = 0
        self.paths = 0
        self.rules = {}           # rule id -> description
        self.floors = []
        self.floor_errors = []
        self.selftest = None
        self.downgraded = []
        self.explanation = ''
        self.technique = ''

    # ------------------------------------------------------------- anchors
    def fn(self, qual, module=None):
        f = self.repo.fn(qual, module)
        self.functions.add(f.fq)
        return f

    def fn_opt(self, qual, module=None):
        f = self.repo.fn(qual, module, required=False)
        if f is not None:
            self.functions.add(f.fq)
        return f

    def rule(self, rid, desc):
        self.rules[rid] = desc

    # --------------------------------------------------------- obligations
    def ok(self, rule, fi, construct, what, node=None):
        self._ob(rule, fi, construct, what, True, node)

    def _ob(self, rule, fi, construct, what, passed, node):
        line = getattr(node, 'lineno', None) or getattr(
            construct, 'lineno', None) or (fi.lineno if fi else None)
        self.obligations.append({
            'rule': rule,
            'function': fi.qual if fi is not None else None,
            'file': fi.file if fi is not None else None,
            'line': line,
            'construct': norm_construct(construct)[:200],
            'obligation': what,
            'verdict': 'discharged' if passed else 'FAILED'})

    def fail(self, rule, fi, construct, message, node=None, extra=None,
             what=None):
        line = getattr(node, 'lineno', None) or getattr(
            construct, 'lineno', None) or (fi.lineno if fi else 0)
        self._ob(rule, fi, construct, what or message, False, node)
        v = Violation(self.prop, rule, fi.qual if fi else '?', construct,
                      message, fi.file if fi else '?', line, extra)
        # de-duplicate by key
        if all(v.key() != o.key() for o in self.violations):
            self.violations.append(v)

    def require(self, cond, rule, fi, construct, what, message=None,
                node=None, extra=None):
        if cond:
            self.ok(rule, fi, construct, what, node)
        else:
            self.fail(rule, fi, construct, message or ('not satisfied: ' +
                                                       what),
                      node, extra, what=what)
        return bool(cond)

    def shared(self, rid, desc, *fns):
        """Run rule functions that belong to other properties and book
        everything they produce under ``rid`` of this property."""
        n_ob, n_v, n_fl = (len(self.obligations), len(self.violations),
                           len(self.floors))
        before = dict(self.rules)
        for fn in fns:
            fn(self)
        src = sorted(r for r in self.rules if r not in before)
        for o in self.obligations[n_ob:]:
            o['rule'] = rid
        for v in self.violations[n_v:]:
            v.rule = rid
        for f in self.floors[n_fl:]:
            f['rule'] = rid
        for r in src:
            self.rules.pop(r)
        self.rules[rid] = desc + (' (shared with %s)' % ', '.join(src)
                                  if src else '')
        # relabelling can create duplicates of violations already present
        seen, out = set(), []
        for v in self.violations:
            if v.key() not in seen:
                seen.add(v.key())
                out.append(v)
        self.violations = out

    def undecided(self, rule, fi, construct, reason, node=None):
        """The code under a rule is written in a way the rule has no
        recogniser for (not: an obligation failed).  Nothing is claimed
        about it: next to a violation it is only recorded, alone it makes
        the run analysis-broken (exit 2) - never a VIOLATION, never a
        silent pass."""
        line = getattr(node, 'lineno', None) or getattr(
            construct, 'lineno', None) or (fi.lineno if fi else None)
        self.obligations.append({
            'rule': rule, 'function': fi.qual if fi is not None else None,
            'file': fi.file if fi is not None else None, 'line': line,
            'construct': norm_construct(construct)[:200],
            'obligation': reason, 'verdict': 'UNDECIDED'})
        self.floor_errors.append('%s undecided in %s: %s' % (
            rule, fi.qual if fi is not None else '?', reason))

    def floor(self, rule, count, minimum, what):
        # ``minimum`` is the number of instances confirmed by hand on the
        # pinned tree.  Merging duplicated code is a common, harmless
        # refactoring, so the analysis only counts as broken when fewer than
        # half of them (and at least one) are still found; the rules' own
        # obligations, not the count, are what decides a property.
        required = 0 if minimum <= 0 else max(1, (minimum + 1) // 2)
        self.floors.append({'rule': rule, 'count': count,
                            'confirmed_on_pinned_tree': minimum,
                            'floor': required, 'what': what})
        if count < required:
            # decided in finish(): a missing instance next to a violation is
            # reported as the violation; alone it is analysis-broken
            self.floor_errors.append(
                'instance floor not met for %s: %d %s found, %d confirmed by '
                'hand on the pinned tree' % (rule, count, what, minimum))

    def note(self, text):
        self.notes.append(text)

    def assume(self, text):
        if text not in self.assumptions:
            self.assumptions.append(text)

    # -------------------------------------------------------------- finish
    def finish(self, write=True, quiet=False):
        """Classify violations against known findings, write evidence, print
        the verdict lines; return the exit status."""
        known = [k for k in load_known_findings()
                 if k.get('property') == self.prop]
        listed, unlisted = [], []
        for v in self.violations:
            hit = None
            for k in known:
                if k.get('status') != 'known':
                    continue
                if k['rule'] == v.rule and k['function'] == v.function and \
                        norm_construct(k['construct']) == v.construct:
                    hit = k
                    break
            (listed if hit else unlisted).append((v, hit))
        # violations located in a function that was rewritten wholesale are
        # not believed: the rules were validated against another structure
        # (see vsa/restructure.py); they become "undecided"
        from .restructure import restructured
        kept = []
        for v, k in unlisted:
            # positive evidence (a defect pattern that is there, as opposed
            # to an expected construct that was not found) is believed in
            # any code
            why = '' if v.extra.get('positive') else restructured(
                self.repo, v.function)
            if why:
                self.floor_errors.append(
                    '%s undecided in %s (%s): would have reported "%s"' % (
                        v.rule, v.function, why, v.message[:90]))
                self.downgraded.append(v)
            else:
                kept.append((v, k))
        unlisted = kept
        if self.floor_errors and not unlisted:
            # a missing instance next to an (unlisted) violation is reported
            # as the violation; alone it is analysis-broken
            raise AnalysisError('; '.join(self.floor_errors))
        lines = []
        for v, k in listed:
            lines.append('KNOWN-FINDING: property=%s %s (%s in %s: %s)' % (
                self.prop, k['what'], v.rule, v.function, v.construct[:120]))
        replay = None
        if unlisted:
            OUT_DIR.mkdir(exist_ok=True)
            replay = OUT_DIR / ('%s-violation.json' % self.prop)
            if write:
                replay.write_text(json.dumps({
                    'property': self.prop,
                    'tier': self.tier,
                    'repo': str(self.repo.root),
                    'violations': [v.as_dict() for v, _ in unlisted]},
                    indent=1))
            for v, _ in unlisted:
                lines.append(v.text())
            lines.append('VIOLATION property=%s replay=%s' % (
                self.prop, replay))
        status = 1 if unlisted else 0
        if write:
            self.write_evidence(len(unlisted), [v for v, _ in listed])
        if not quiet:
            n_ob = len(self.obligations)
            n_ok = sum(1 for o in self.obligations
                       if o['verdict'] == 'discharged')
            print('%s [%s]: %d obligations, %d discharged, %d known '
                  'finding(s), %d violation(s); %d functions analysed; '
                  '%.2fs' % (self.prop, self.tier, n_ob, n_ok, len(listed),
                             len(unlisted), len(self.functions),
                             time.time() - self.t0))
            for l in lines:
                print(l)
        self.status = status
        self.unlisted = [v for v, _ in unlisted]
        self.listed = [v for v, _ in listed]
        return status

    def write_evidence(self, n_viol, listed):
        EVIDENCE_DIR.mkdir(exist_ok=True)
        obs = self.obligations
        distinct = {(o['function'], o['construct'], o['rule']) for o in obs}
        per_rule = {}
        for o in obs:
            d = per_rule.setdefault(o['rule'], {'obligations': 0,
                                                'discharged': 0})
            d['obligations'] += 1
            d['discharged'] += o['verdict'] == 'discharged'
        # samples: up to 3 per rule, failures first
        samples = []
        seen = {}
        for o in sorted(obs, key=lambda o: o['verdict'] == 'discharged'):
            c = seen.get(o['rule'], 0)
            if c < 3:
                seen[o['rule']] = c + 1
                samples.append(o)
        cov = {
            'explanation': self.explanation,
            'technique': self.technique,
            'obligations': len(obs),
            'discharged': sum(1 for o in obs
                              if o['verdict'] == 'discharged'),
            'evaluations': max(len(obs), 1),
            'distinct_nontrivial': len(distinct),
            'rule': 'one evaluation = one rule instance (obligation) '
                    'evaluated on a construct of the current tree; distinct '
                    '= distinct (function, construct, rule) triples; '
                    'non-trivial = the construct matched an anchor idiom of '
                    'the rule (rules matching fewer instances than their '
                    'floor abort the run)',
            'rules': self.rules,
            'per_rule': per_rule,
            'floors': self.floors,
            'samples': samples,
            'functions_analysed': sorted(self.functions),
            'call_sites': self.call_sites,
            'paths': self.paths,
            'parsed': self.repo.stats(),
            'known_findings_reported': [v.as_dict() for v in listed],
            'notes': self.notes + [
                'restructuring gate (DESIGN.md 10.9): a violation located in '
                'a function rewritten wholesale relative to the pinned form '
                'is downgraded to "undecided" (exit 2 when nothing else is '
                'reported); downgraded in this run: %d' % len(
                    self.downgraded)],
            'exhaustive': False,
        }
        if self.selftest is not None:
            cov['selftest'] = self.selftest
            cov['mutants_total'] = self.selftest.get('seeded_total', 0)
            cov['mutants_killed'] = self.selftest.get('seeded_fired', 0)
            cov['benign_total'] = self.selftest.get('benign_total', 0)
            cov['benign_silent'] = self.selftest.get('benign_silent', 0)
        ev = {
            'property_id': self.prop,
            'tier': self.tier,
            'seed': int(os.environ.get('VERIF_SEED', '0') or 0),
            'level': 'other',
            'coverage': cov,
            'assumptions': self.assumptions,
            'wall_s': round(time.time() - self.t0, 3),
            'violations': n_viol,
        }
        (EVIDENCE_DIR / ('%s.json' % self.prop)).write_text(
            json.dumps(ev, indent=1, default=str))
